"""Writes MANIFEST.json from the table below (kept next to the checks so they stay in sync)."""
import json
import os

VERIF = os.path.dirname(os.path.dirname(os.path.abspath(__file__)))

CLAIMS = {
    'C11': dict(
        text='Lean 4 theorems (opt_window, explicit_window, opt_size_orphan, next_prev_flags, link_positions, '
             'links_in_range, tiling, tiling_prev) about the model of DT_InSV.opt / renderwb window+links for ALL '
             'integers and lengths; the batch lists next-batches / previous-batches (next_batches_tile, previous_batches_tile, '
             'next_batches_fuel / previous_batches_fuel = termination for every parameter tuple, batch_lists_start_at_links); '
             'DT_InSV.opt and the while loops of next_batches / previous_batches are TRANSLATED from /repo on every run '
             '(GenCode.lean) and proved equal to the model (gen_opt_is_model, gen_next_batches_is_model, '
             'gen_previous_batches_is_model, gen_batch_list_inputs); int_param and the prologue of renderwb (the int_param calls, '
             'opt + the clamp of end, the sequence-step-* stores, the previous / next renderings) are translated too (GenIn.lean: '
             'gen_int_param_is_model, gen_int_param_name_is_model, gen_int_param_literal, gen_int_param_default, gen_in_param_calls, '
             'gen_in_window_is_model, gen_in_bwin_is_model, gen_in_batch_vars_is_model, gen_in_mode_is_model, '
             'gen_in_previous_is_model, gen_in_next_is_model, gen_in_previous_is_inBatch, gen_in_next_is_inBatch, '
             'gen_in_single_is_links; the five int_param calls composed in source order are one run of resolveNames with the same '
             'fuel: gen_in_params_is_resolveNames, gen_in_params_names, gen_in_params_literals); model tied to /repo by a correspondence run over the '
             'exhaustive small-scope grid (windows, links, batch lists incl. overlap >= size) plus an independent oracle on the '
             'real tag',
        note='Trusted: Lean kernel (axioms propext/Classical.choice/Quot.sound only); hand-written model of '
             'opt/renderwb validated by correspondence; int_param/parse_params glue tested, not proved',
        technique='Lean 4 proof (grind/omega, induction on click count / loop fuel) over a model partly regenerated from the source '
                  '(statement-by-statement translator) + model/implementation correspondence',
        ref='DESIGN.md §5 C11'),
    'C12': dict(
        text='Lean 4 theorems about the SequenceFromIter pull-log model and the ordered access trace of renderwb: '
             'pulls_sequential (any access sequence), run_pulled, batch_pull_bound_partial (pulled <= end+size+orphan '
             'under start-1+overlap <= bound), finding_C12_overlap (witness of the excluded region), '
             'len_only_after_failed_probe / unbounded_no_len, unbatched_pulls_all_once; SequenceFromIter.__getitem__ / __len__ are '
             'TRANSLATED from /repo on every run (GenCode.sfiGetitemGen / sfiLenLoopGen) and proved equal to the model '
             '(gen_getitem_is_model, gen_len_is_model, gen_len_is_lenOp); sequence_supports_subscription / sequence_ensure_subscription / SequenceFromIter.__init__ are TRANSLATED too (harness/trans_ensure.py -> GenEnsure.lean: gen_supports_subscription_is_model = SeqKind.listLike over the ten object kinds, gen_ensure_is_model = Batch.ensure, gen_sfi_init_is_model = LazySt.init, gen_fresh_wrapper_pulled_nothing, gen_getitem_on_fresh_wrapper, gen_wrapped_pulls_sequential); correspondence against real '
             'counting iterators/generators (bounded and unbounded)',
        note='Trusted: Lean kernel; LazySt model of the iterator wrapper and the access trace validated by '
             'correspondence (pull counts equal on every case). Partial: bound proved outside the known-finding region',
        technique='Lean 4 proof (invariant over access traces) + model/implementation correspondence',
        ref='DESIGN.md §5 C12'),
    'C09': dict(
        text='Lean 4 theorems about the conditional of the interpreter model (condLoop = the \'i\' block of render_blocks_ '
             'inside its cache frame; dtml-if/elif/else, dtml-unless, dtml-call compile to it), for ALL programs, namespaces, '
             'fault plans and fuel: condLoop_cons (step rule), true_selects_body, later_conditions_not_evaluated, '
             'false_skips_body, error_in_condition_propagates, gen_if_block_is_model / gen_if_block_is_renderBlk (the \'i\' block of render_blocks_ TRANSLATED from /repo on every run - harness/trans_render.py -> GenRender.lean - equals condLoop in its cache frame), gen_if_compile_is_model / gen_unless_compile_is_model / gen_else_compile_is_model / gen_if_compile_renders_as_model / gen_unless_compile_renders_as_model (If.__init__ / Unless.__init__ / Else of DT_If.py TRANSLATED from /repo on every run - harness/trans_ifc.py -> GenIfCompile.lean - store exactly the cells of the conditional the model builds from the same sections, or end in the same ParseError), if_parts_error_iff_checkBlock / unless_parts_error_iff_checkBlock / gen_if_compile_error_iff_checkBlock / gen_unless_compile_error_iff_checkBlock (that ParseError is the one of the parser model\'s checkBlock of C06, same text, for every section list that starts with a section not called else), gen_lookup_is_model (the lookups it rests on, C02), runFalse_skips / first_true_branch (the k-th body after k-1 '
             'false conditions, each evaluated once), none_true_renders_else, cache_hit / named_condition_cached / '
             'repeated_condition_no_event (value stored once, reused without a call or event), undefined_is_false, '
             'if_renders_iff_true / unless_renders_iff_false / unless_is_not_if, call_once_no_output. Correspondence: results '
             'and call traces of generated conditionals (exhaustive over 7 condition kinds for chains <= 3/4, random chains '
             '<= 5 with repeated names and nested re-references); oracle: output and ordered call log predicted from the '
             'documented rule',
        note='Trusted: Lean kernel; interpreter model validated (not verified) against the real classes by correspondence. '
             'Statements carry explicit fuel offsets (the model is fuel-indexed)',
        technique='Lean 4 proof over a model partly regenerated from the source on every run (statement-by-statement translator, equality with the hand-written model proved); Lean 4 proof (step rule + induction over the condition chain, reuse of the C08 invariant) + '
                  'model/implementation correspondence + call-log oracle',
        ref='DESIGN.md §5 C09'),
    'C14': dict(
        text='Lean 4 theorems about dtml-try / dtml-raise / dtml-return of the interpreter model, for ALL programs, class tables, '
             'namespaces, fault plans and fuel: gen_find_handler_is_model / gen_match_base_is_model (Try.find_handler / match_base TRANSLATED from /repo on every run equal findHandler / matchBase), gen_try_except_is_model / gen_try_finally_is_model / gen_return_is_model (Try.render_try_except, render_try_finally and ReturnTag.render TRANSLATED likewise equal the interpreter\'s try_ / tryFin / ret cases), gen_raise_is_model (Raise.render TRANSLATED statement by statement - harness/trans_raise.py -> GenRaise.lean - equals the interpreter\'s raise_ case: the choice of the class with its defaults, the two try blocks in their order, \'Invalid Error Value\', DTReturn passing through), handler_selected (findHandler = FIRST handler naming the class, a base, or bare: '
             'iff-characterisation over the handler list), no_handler_iff, matchBase_sound / matchBase_complete (transitive '
             'base relation), try_no_exception, else_exception_propagates, unmatched_propagates, handler_rendered, '
             'else_only_without_exception, handler_exception_propagates, handler_bindings (+ _scoped, from C08), return_not_caught, '
             'return_stops_blocks, return_through_join/frame/raise, return_ends_call, return_ends_subtemplate, '
             'finally_exactly_once (state after = body then finally once, on every path), finally_then_exception, '
             'finally_then_return, finally_appended, finally_own_exception, raise_raises, raise_class_by_name/expr, raise_class_expr_raises. '
             'Correspondence: results and call traces of generated programs (handler lists over a class hierarchy with multiple '
             'inheritance, nesting <= 3, return/raise in every block kind, sub-templates) with and without injected faults; '
             'oracle: a reference evaluator written with plain Python try statements',
        note='Trusted: Lean kernel; interpreter model validated (not verified) against the real classes; match_base modelled with '
             'depth 16; messages of CPython-internal exceptions not compared',
        technique='Lean 4 proof over a model partly regenerated from the source on every run (statement-by-statement translator, equality with the hand-written model proved); Lean 4 proof (case analysis of the interpreter on each outcome, list characterisation of find_handler) + '
                  'model/implementation correspondence + Python-semantics reference evaluator',
        ref='DESIGN.md §5 C14'),
    'C02': dict(
        text='Lean 4 theorems about name resolution in the interpreter model, for ALL templates, call arguments, names and '
             'namespaces: frameGet_fresh / lookup_first_offer (the namespace answers with the topmost frame offering the name, '
             'nothing below is consulted), callStack_offer / lookup_precedence (keywords > template variables > clients, last '
             'first, private names never > call mapping > defaults), initvars_lookup / lookup_precedence_full (construction '
             'keywords > construction mapping, private keys dropped), underscore_not_from_client, subtemplate_sees_caller / '
             'subtemplate_lookup (own variables and defaults on top of the caller\'s current namespace, popped afterwards), '
             'block_binding_shadows / block_binding_transparent / block_bindings_end (from C08), frameGet_consistent / '
             'lookup_first_offer_consistent / block_bindings_end_real / section_bindings_end_real (on the namespace as it '
             'really is after any block - filled attribute caches included, via the cache-consistency invariant '
             'Lemmas.Cache.all_cons of all 15 interpreter functions - every name resolves exactly as before the block), tag_lookup_calls / '
             'tag_lookup_renders_template / expr_lookup_does_not_call; InstanceDict.__getitem__ is TRANSLATED from /repo on every '
             'run (harness/trans_ns.py -> GenNs.lean) and proved equal to the model\'s instance lookup '
             '(gen_instancedict_getitem_is_model), and so are TemplateDict.getitem (gen_templatedict_getitem_is_model) and String.__call__ (harness/trans_call.py -> GenCall.lean: gen_call_is_topCall - a new namespace is exactly callStack, the order lookup_precedence is about - and gen_call_is_callSub); TemplateDict.__getitem__, __contains__ / has_key and __len__ are TRANSLATED too (harness/trans_stack.py -> GenStack.lean: gen_subscript_is_model, gen_contains_is_model, gen_has_key_is_model = Render.hasKey, has_key_agrees_with_getitem, gen_len_is_model). Correspondence: results and call traces; oracle: winner '
             '(gen_instancedict_getitem_is_model), and so are TemplateDict.getitem (gen_templatedict_getitem_is_model) and String.__call__ (harness/trans_call.py -> GenCall.lean: gen_call_is_topCall - a new namespace is exactly callStack, the order lookup_precedence is about - and gen_call_is_callSub); the fetch part of Var.render (name in md / md[name] / missing / KeyError / expr.eval / the null test; harness/trans_fetch.py -> GenFetch.lean) equals renderBlk on a dtml-var with missing / null (gen_var_fetch_name_is_model, gen_var_fetch_expr_is_model). Correspondence: results and call traces; oracle: winner '
             'computed from the documented order over all 128 source subsets x {plain, callable, template} (+ private names), '
             'scope-stack evaluator over random nestings of let/with/in/if/try-except with probes before/inside/after, '
             'name-vs-expression forms, re-entered templates under shadowing blocks',
        note='Trusted: Lean kernel; interpreter model validated (not verified) against the real classes. Lookups are characterised '
             'without a security guard (with a guard installed, C05 covers them); sequence-variable frames of dtml-in are '
             'characterised in C10, not here',
        technique='Lean 4 proof over a model partly regenerated from the source on every run (statement-by-statement translator, equality with the hand-written model proved); Lean 4 proof (induction over the frame list, reuse of the C08 invariant) + model/implementation '
                  'correspondence + precedence/scope oracle',
        ref='DESIGN.md §5 C02'),
    'C19': dict(
        text='Lean 4 theorems about piece joining in the interpreter model (joinPieces = render_blocks 0/1/n rule, joinUnicode '
             '= join_unicode, decodeBytes with the template encoding, htmlQuote on bytes), for ALL piece lists and texts: '
             'utf8_roundtrip (decode(encode s) = s for every text, via the core UTF-8 library), latin1_roundtrip, '
             'join_is_text, multi_piece_is_text, toplevel_multi_piece_text, decodeAll_bytes_equiv / join_bytes_equiv / '
             'render_bytes_equiv (a bytes piece that decodes to s can be replaced by the text piece s at any position), '
             'utf8_bytes_equiv, latin1_bytes_equiv, join_texts, html_quote_bytes_equiv, in_body_is_text, try_join_is_text, '
             'piece_of_bytes / piece_of_str / ustr_spec; render_blocks (the statements after the call of render_blocks_) and '
             'join_unicode are translated from the source on every run (GenJoin.lean) and proved equal to joinPieces / '
             'joinUnicode: gen_render_blocks_is_model, gen_join_unicode_is_model (with gen_join_unicode_loop_body, '
             'gen_join_unicode_default_encoding, gen_render_blocks_is_renderJoined); ustr / _exception_str are translated too (GenUstr.lean): gen_ustr_is_model (= pieceOfVal / ustr on every value of the model), gen_exception_str_is_model, gen_exception_str_args, gen_ustr_other_kinds, gen_ustr_own_str, gen_ustr_tuple, gen_ustr_raises_only (raises only where the own __str__ or an oracle str() misbehaves), gen_ustr_model_value_never_raises. Correspondence: results of 22 insertion forms x texts x {utf-8, '
             'latin-1} with the value given as bytes and as text; oracle: render(bytes) == render(text) and text result, also '
             'for cp1252 and utf-16 templates; str() table of 35 values (exceptions with 0/1/n and falsy args, objects with '
             '__str__) through 6 forms; class objects; misbehaving __str__ raises; several template objects per process (same '
             'source under pairs of encodings, histories) and families of values that are == but print differently',
        note='Trusted: Lean kernel; interpreter model validated (not verified) against the real classes; codecs other than '
             'UTF-8 / Latin-1 and Python str()/repr() of containers are oracle-only. Partial: the full Var.render path decodes '
             'bytes as Latin-1 (known finding C19-bytes-fullpath, same defect as C03-bytes-fullpath)',
        technique='Lean 4 proof over a model partly regenerated from the source on every run (statement-by-statement translator of render_blocks / join_unicode / ustr / _exception_str, equality with the hand-written model proved); Lean 4 proof (codec round trips from the core UTF-8 lemmas, induction over the piece list) + '
                  'model/implementation correspondence + bytes-vs-text oracle',
        ref='DESIGN.md §5 C19'),
    'C10': dict(
        text='Lean 4 theorems about dtml-in of the interpreter model (inLoop / inIter = renderwob, SeqVars + seqLookup = '
             'sequence_variables.__getitem__ for the documented names), for ALL sequences, bodies, namespaces and fuel: '
             'inLoop_step, in_once_per_element (a completed loop rendered the body exactly once per element, in order), '
             'position_flags (index i; start iff first; end iff last), svAt_svAt, seqvar_values (index, number, letter, Letter, '
             'even, odd, start, end, length, item), seqvar_roman + roman_denotes / roman_value (fromRoman(toRoman n) = n for all '
             'n < 5000, decided by kernel evaluation over the whole range), item_and_key, lookup_sequence_name, '
             'lookup_sequence_var / sequence_var_attr / sequence_var_key, first_last_spec / lookup_first / lookup_last, '
             'prefix_alias, else_iff_empty, item_pushed, in_scope_ends (C08); the per-index methods of sequence_variables (number, even, odd, letter, Letter, key, item, Roman, roman, value, first, last, length) are TRANSLATED from /repo on every run (harness/trans_seqvar.py -> GenSeqVar.lean) and proved equal to the model: gen_seqvar_arith_is_model, gen_seqvar_letter_is_model, gen_seqvar_item_is_model, gen_seqvar_key_is_model, gen_seqvar_value_is_model, gen_seqvar_value_is_seqValue, gen_seqvar_first_is_model, gen_seqvar_last_is_model, gen_seqvar_fixed_is_model, and so is the dispatch of __getitem__ (getitemGen: dictionary first, split at the last \'-\', hasattr / special_prefixes / -var / sequence-query / KeyError): gen_getitem_data_is_model, gen_getitem_split, gen_getitem_plain_key_missing, gen_getitem_fixed_is_model, gen_getitem_var_is_model, gen_getitem_first_is_model, gen_getitem_last_is_model; for the batched renderer inside the interpreter '
             '(inBatch / inLoopB = renderwb): Batched.inLoopB_rule, once_per_window_element, window_flags, start_cleared, '
             'window_is_batch_window / batched_count (the rendered window is C11\'s Batch.window: end - start + 1 elements), '
             'prev_vars / next_vars / vars_are_links (previous-/next-sequence variables = C11 links), get_set_same / '
             'get_set_alias (batch variables under their name and the prefix= alias), inx_scope_ends, two batched renderings '
             'evaluated in the kernel. The loop of InClass.renderwob is translated from the source on every run '
             '(harness/trans_in.py -> GenIn.lean) and proved equal to inLoop: gen_in_step_is_model (one pass: flag stores, '
             'guarded fetch, tuple convention, push / render / pop), gen_in_step_keeps_start (the stored sequence-start is '
             'the computed one), gen_in_loop_is_model, gen_in_loop_from_start; the batched loop of renderwb likewise equal to inLoopB: '
             'gen_in_batch_pre_is_model (= batchStep), gen_in_batch_step_is_model, gen_in_batch_loop_is_model, '
             'gen_in_batch_loop_from_start; the whole of renderwob (prologue, loop, epilogue) = renderBlk on dtml-in with sort / reverse: '
             'gen_in_tag_is_model, gen_in_tag_is_in, gen_in_else_iff_empty, gen_in_sort_then_reverse. Correspondence: unbatched loops over lists/tuples '
             'of objects, mappings, 2-tuples, strings, numbers printing every variable, and nested loops with different '
             'prefixes; oracle: documented values computed from element positions, also for iterators / generators / lazy '
             'sequences and sort / reverse / batch combinations',
        note='Trusted: Lean kernel; interpreter model validated (not verified) against the real classes (incl. an interpreter '
             'slice of random programs with sorted / reversed / batched loops under fault plans). Partial: batch parameters by '
             'variable name, sort_expr / reverse_expr, multi-key sorts, lazy inputs, next-/previous-batches are oracle-only; '
             'roman numerals modelled for positions < 5000',
        technique='Lean 4 proof over a model partly regenerated from the source on every run (the loop of renderwob: statement-by-statement translator, equality with inLoop proved); Lean 4 proof (induction on the loop, case analysis of the variable lookup, kernel evaluation over the full '
                  'finite numeral range) + model/implementation correspondence + independent value oracle',
        ref='DESIGN.md §5 C10'),
    'C01': dict(
        text='The HTML scanner is TRANSLATED from dtml_re_class.search on every run (harness/trans_scan.py -> GenScan.lean) and proved equal to the model for every text and offset (gen_html_scanner_candidate_is_model, gen_html_scanner_search_is_model; lemmas in Lemmas/ScanGen.lean). The dispatch of the main loop of render_blocks_ is translated too (harness/trans_join.py -> GenJoin.blockStepGen) and proved to do what renderBlk / renderBlocks do with a text block and a called block (gen_block_step_literal, gen_block_step_called, gen_block_step_comment, gen_block_step_bytes, gen_block_step_var, gen_block_step_if, gen_block_step_invalid_code, gen_block_loop_unfold, gen_block_loop_nil). Lean 4 theorems, for ALL sources: (scanner) candidate_text, matchEpfs_text, scan_reconstruct, tokens_reconstruct / '
             'tokens_lossless (literals and tag texts of the token stream, concatenated in order, are exactly the source), '
             'skipEol_spec (only one run of blanks/tabs ending in a newline is ever removed); (builder) nodesLits_append, '
             'soFar_pushNodes, buildAux_lits (invariant of the stack builder), compile_literals (the literal nodes of the compiled '
             'tree, in document order through all nesting, are exactly the texts between the tags, each unchanged or with one '
             'skipped line end, empty ones omitted), tagfree_identity; (interpreter) lit_verbatim, blocks_in_order, '
             'literal_around, tagfree_renders_itself, literal_only_when_rendered. Correspondence: token streams and compiled '
             'trees incl. every literal node, model vs real parser, on literal-rich templates in 3 syntaxes, tag-free texts and '
             'concatenations; oracle: independent printer for the rendering (sentinel values, documented line-end rule), '
             'tag-free sources render to themselves, render(a+b) == render(a)+render(b). '
             'The main loop of String.parse is TRANSLATED from the source on every run (harness/trans_parseloop.py -> GenParseLoop.lean, scanner / _parseTag / parse_block / commands as parameters): gen_parse_body_is_model, gen_parse_epilogue_is_model, gen_parse_loop_is_model, gen_parse_is_model, gen_parse_literals_verbatim (for every scanner whose matches lie at or after start the appended literals and tags tile text[start:], no empty literal, a simple tag consumes exactly its own text), gen_parse_is_tokens (with the model scanner the loop appends exactly the literals and tags of Scan.tokens)',
        note='Trusted: Lean kernel; hand-compiled scanners validated against CPython re by token correspondence; the compiled '
             'tree (Parse.Node) and the interpreter\'s blocks (Render.Blk) are two models tied to the code separately. Partial: '
             'the composition statement render(a+b) is decided by the oracle, not yet by a theorem over both models',
        technique='Lean 4 proof over a model partly regenerated from the source on every run (statement-by-statement translator, equality with the hand-written model proved); Lean 4 proof (induction over the text for the scanner, stack-machine invariant for the builder) + '
                  'model/implementation correspondence + independent-printer oracle',
        ref='DESIGN.md §5 C01'),
    'C07': dict(
        text='Lean 4 theorems over the scanner and builder models, for ALL token streams and tag bodies: tagRole_html_congr, '
             'build_congr_html (the block builder depends on a token only through end-flag, name and arguments: streams with the '
             'same literals and same-meaning tokens build the same tree, list the same expressions and fail at the same token), '
             'var_never_continues, tagRole_epfs_eq_html (String.parseTag on a %(…) token = HTML.parseTag on the corresponding '
             'token), findCloseAux_clean, findSub_arrow, nameMatchLen_append, dtml_ssi_same_token (<dtml-X args> and '
             '<!--#X args--> scan to tokens with the same name and arguments, or both to no tag, for every body free of > and "), '
             'entity_is_var_html_quote (&dtml-n; = var "n html_quote"), dotted_entity_is_var (&dtml.m1.m2-n; = var "n m1 m2"). '
             'Translated from the source on every run (harness/trans_parsetag.py -> GenParseTag.lean): HTML.parseTag, '
             'String.parseTag statement by statement, String._parseTag as a checked frame; gen_html_parseTag_is_model, '
             'gen_string_parseTag_is_model, gen_parseTag_wrapper_is_model (= tagRole of the syntax, for every token and open '
             'block), gen_lazy_commands_keep_their_key, gen_parseTag_epfs_eq_html. '
             'Correspondence: compiled tree of the model for every spelling vs the real parser; oracle: the spellings of one '
             'abstract template (2x dtml, 2x SSI incl. /, end, END forms, %(…)) are all accepted or all rejected, compile to '
             'equal normalised programs and render to equal text / exception / call log on 3 namespaces; entity references '
             'for all modifier subsets of size <= 2 (+samples) vs the var spellings; entities right after end tags; '
             'else-with-arguments with 5 separators',
        note='Trusted: Lean kernel; hand-compiled scanners validated against CPython re by the correspondence. Partial: the '
             '%(…) scanner\'s agreement with the <dtml-> scanner is tied by correspondence/oracle (the Lean side proves the '
             'parseTag/builder half for %(…) and both halves for dtml vs SSI and for entities); rendering equality follows from '
             'equal programs and is additionally observed on the implementation',
        technique='Lean 4 proof (congruence of the builder, list lemmas about the scanners) + model/implementation '
                  'correspondence + pairwise-equality oracle',
        ref='DESIGN.md §5 C07'),
    'C17': dict(
        text='Lean 4 theorems about the template object as a state machine (Tmpl.lean: persistent raw / globals / vars, volatile '
             'compiled data; operations render, pickle round trip, deepcopy, cook, munge(source / defaults / both), var, default; '
             'compiler and renderer as engine parameters), for EVERY history of operations: inv_step, cache_invariant (the '
             'compiled data is absent or the compilation of the current source), render_result, render_history_independent (a call '
             'after any history returns what a brand-new template with the same source, defaults and variables returns), '
             'render_keeps_persistent, render_repeatable, pickle_roundtrip, restored_renders_same, munge_eq_fresh, munge_source, '
             'file_pickles_name. The object life cycle of DT_String.String (__init__, initvars, cook with read / read_raw, munge, var, '
             'default, __getstate__, the cook-on-first-use block of __call__) is TRANSLATED from /repo on every run '
             '(harness/trans_tmpl.py -> GenTmpl.lean) and proved equal to that state machine: gen_init_is_fresh, gen_cook_is_model, '
             'gen_munge_is_model, gen_var_default_is_model, gen_getstate_is_model, gen_render_is_model. '
             'Correspondence: the model\'s state after every operation of random histories vs the real object '
             '(raw, globals, _vars, presence of _v_cooked) and the model\'s (program, defaults, variables, inputs) of each call '
             'reproduce its output; oracle: each render == render of a NEW template built through the constructor from the '
             'documented current source and defaults, repeated renders equal, caller mappings / sequences / keyword values and '
             'the defaults deep-equal before and after, pickles carry no _v_ data, HTMLFile pickles its name and re-reads',
        note='Trusted: Lean kernel; the state-machine model is validated against the real object after every operation. Partial: '
             'that rendering a compiled program depends only on (program, defaults, variables, inputs) — no per-render state kept '
             'on compiled tags — is an engine parameter, tested by the oracle (10 sources incl. sort_expr / reverse_expr that '
             'depend on the inputs), not proved',
        technique='Lean 4 proof over a model partly regenerated from the source on every run (statement-by-statement translator, equality with the hand-written model proved); Lean 4 proof (invariant by induction over the operation history, refinement to "fresh template") + '
                  'model/implementation correspondence after every operation + fresh-template oracle',
        ref='DESIGN.md §5 C17'),
    'C18': dict(
        text='Lean 4 theorems about the interleaving model (Conc.lean: any number of threads calling one shared template object; '
             'atomic steps = the shared accesses of String.__call__ / cook: test of _v_cooked, lock acquire, _v_blocks := parse, '
             '_v_cooked := None, release, read of _v_blocks, lazily filled caches whose every writer stores the same value; a '
             'schedule is ANY list of thread ids), proved by an invariant over every step: inv_init, pcOk_mono, inv_step, inv_run, '
             'interleaving_sequential (a finished thread holds exactly its solo result, under every schedule, including races to '
             'compile), never_partially_compiled (publication order: whoever is about to read the program finds the complete '
             'one), published_program, per_render_cell_races (the historical per-render write on the shared tag falsifies the '
             'statement: witness schedule W1 W2 R1). Correspondence: shared-access events of every scheduled real run replayed on '
             'the model (op "conc"): each event must be the model thread\'s next step and the model results the solo results; '
             'shared-write monitor: rendering a compiled template changes nothing reachable from the template / blocks / command '
             'table. Oracle: per-thread result == solo result over all single-pre-emption schedules on compiled templates, '
             'strided + shared-access-targeted + 3-pre-emption + 3-thread schedules racing the cook',
        note='Trusted: Lean kernel; the model\'s atomic steps are source lines (the shared accesses), tied by event replay and the '
             'write monitor. Partial: bytecode-level switch points inside one line, C-level atomicity of attribute stores and the '
             'real lock are runtime behaviour the model cannot exhibit; the line-level scheduler explores schedules (a search), '
             'only the model is proved',
        technique='Lean 4 proof (invariant over all schedules of the interleaving model; the order of a call\'s actions on the shared volatile state is regenerated from String.__call__ / cook on every run and proved to be the thread program of the model: gen_call_program_is_model, gen_call_program_publishes_last) + event-replay correspondence + '
                  'shared-write monitor + deterministic line-level scheduler as failing-schedule search',
        ref='DESIGN.md §5 C18'),
    'C05': dict(
        text='Lean 4 theorems about the guarded read sites of the interpreter model (guard installed; Env.denied / '
             'Env.deniedItems = what the attribute / item guard refuses), for ALL objects, names, traces: '
             'instance_lookup_guarded (an InstanceDict — client object, with-object, pushed dtml-in item — asks the guard first, '
             'one guard event, refusal => Unauthorized and no value), denied_never_returned, instance_noninterference (objects '
             'agreeing on the allowed attributes are indistinguishable: same value / refusal, same guard trace), '
             'cache_hit_no_read, underscore_private (names starting with _ are never read from client objects, guard or not), '
             'expr_attr_guarded / expr_attr_denied, in_item_guarded (every element is fetched through the item guard; a refused '
             'element raises or, with skip_unauthorized, is skipped unrendered), denied_item_content_irrelevant, with_only_guarded. '
             'Correspondence: results, call traces AND the ordered guard log (attribute / item guard events) of random programs '
             'with refused (object, attribute) pairs, refused items and skip_unauthorized, real classes with a recording guard vs '
             'the model. Oracle: marker non-interference + "every read was asked of the guard" over 31 channels x {fresh, after an '
             'unguarded rendering of the same compiled template} x 4 marker assignments; underscore names; restricted '
             'expressions naming _attributes rejected',
        note='Trusted: Lean kernel; interpreter model validated (not verified) incl. the guard log; AccessControl / '
             'RestrictedPython external. Partial: whole-rendering non-interference is decided by the marker oracle (the Lean side '
             'proves each read site and local non-interference); channels that are unguarded in the code are known findings '
             '(C05-sequence-var, -first-last, -statistics, -sort-key, -expr-getitem, -underscore-getattr); dtml-tree branches '
             'are not covered',
        technique='Lean 4 proof (case analysis of each guarded read site of the interpreter) + model/implementation '
                  'correspondence on the guard log + marker non-interference oracle',
        ref='DESIGN.md §5 C05'),
    'C08': dict(
        text='String.__call__ is TRANSLATED from /repo on every run (GenCall.callGen) and proved equal to callSub, the template call whose stack / level restoration is proved (gen_template_call_is_model). Let.render and With.render (their push / try / finally-pop frames) are TRANSLATED from /repo on every run (GenRender.letBlockGen / withBlockGen) and proved equal to the interpreter\'s let_ / with_ cases (gen_let_block_is_model, gen_with_block_is_model). TemplateDict.__init__, _push and _pop are TRANSLATED from /repo on every run (harness/trans_stack.py -> GenStack.lean; _data has the top last, the model\'s stack the top first: absStack) and proved to be the model\'s empty namespace, cons and drop (gen_init_is_model, gen_push_is_model, gen_pop_is_model for 1 <= k <= size, gen_push_pop_restores, gen_pres_push_pop / gen_pres_push_popn = pres_push_pop / pres_push_popn stated with the operations of the source). Lean 4 theorems about the interpreter model (Render.lean: namespace stack, lookups with auto-call, '
             'expressions, every block tag, sub-template calls, dtml-return, exceptions, fault plans as part of the '
             'environment), proved by mutual induction on the evaluation for ALL programs, namespaces and fault plans: '
             'block_preserves_stack, render_preserves_stack, subtemplate_preserves_stack, lookup_preserves_stack, '
             'toplevel_call_balanced, caller_continues — the induction covers dtml-in with sort / reverse / batch options '
             '(inBatch_step, inLoopB_step, arrange_pres). Correspondence: results, call traces and every namespace snapshot '
             'of generated programs under fault injection at every invocation point (singly and in pairs); oracle: frame '
             'identities and level after == before on the real TemplateDict',
        note='Trusted: Lean kernel; hand-written interpreter model validated (not verified) against the real classes by '
             'correspondence incl. in-flight namespace snapshots. dtml-tree push/pop sites are outside the model: covered '
             'by the fault-injection oracle only (partial)',
        technique='Lean 4 proof over a model partly regenerated from the source on every run (statement-by-statement translator, equality with the hand-written model proved); Lean 4 proof (mutual induction over the fuel-indexed interpreter) + model/implementation correspondence '
                  'under fault injection',
        ref='DESIGN.md §5 C08'),
    'C03': dict(
        text='The simple dtml-var (the \'v\' branch of render_blocks_: lookup, ustr, the fast-path test character by character, html_quote) is TRANSLATED from /repo on every run (GenRender.vBlockGen) and proved equal to the interpreter\'s fetchVar (gen_simple_var_is_model). Var.__init__ (which tags compile to that simple form) is TRANSLATED too (GenVarInit): gen_var_init_is_checkSimple, gen_var_form_is_interp, gen_var_simple_form_is_fetch. Lean 4 theorems about the quoting model for ALL strings: escape_no_raw, unescape5_escape (round trip), '
             'escape_id_iff, fastpath_sound (stated over Gen.fastPathChars, the character list extracted from '
             'render_blocks_ on every run), forms_agree, plain_unchanged, escChar_cases, gen_escape_table; '
             'correspondence over every code point and special-dense random strings through 21 spellings of the '
             'insertion forms; oracle = html.escape/html.unescape',
        note='Trusted: Lean kernel; html.escape/unescape as reference; model of the simple-form/full-path split '
             'validated by correspondence. Bytes through the full path: known finding C03-bytes-fullpath',
        technique='Lean 4 proof over a model partly regenerated from the source on every run (statement-by-statement translator, equality with the hand-written model proved); Lean 4 proof (induction on the string, table obligation regenerated from source) + correspondence',
        ref='DESIGN.md §5 C03'),
    'C04': dict(
        text='Lean 4 theorems about the dtml-var pipeline model with the TaintedString mark as a Bool, for ALL '
             'tainted strings, ALL subsets/orders of modifiers, every modelled fmt= (special, method, %-format), '
             'size/etc, null: tainted_never_raw_no_unquote (regime A), tainted_never_raw_no_quoter (regime B), '
             'tainted_never_raw_partial (both), no_double_escape, finding_C04_requote (model witness of the '
             'excluded combination); external functions (case mapping, URL codec) enter as hypotheses (Laws). '
             'Correspondence: all 4096 modifier subsets + random specs x tainted values with < at every position, '
             'dtml/SSI/EPFS/entity syntax; oracle: no raw < from the value, no double escape',
        note='Trusted: Lean kernel; VarPipe model validated by correspondence (0 mismatches); AccessControl '
             'TaintedString semantics modelled; laws of str.upper/lower/capitalize and urllib are hypotheses. '
             'Partial: quote-then-unquote (finding C04-requote), newline_to_br/multi-line <br /> (oracle only), '
             'unwrapped method formats (finding C04-method-format)',
        technique='Lean 4 proof (stage invariants Safe / Marked over any modifier list) + correspondence; the taint '
                  'bookkeeping of DT_Var (_retaint, the fmt= chain, the C-style format stage, the html_quote guard of the '
                  'modifier loop, the final quoting) is translated from the source on every run (harness/trans_taint.py -> '
                  'GenTaint.lean) and proved equal to the stage functions of the model: gen_retaint_is_model, '
                  'gen_final_quote_is_model, gen_finish_is_model, gen_cfmt_is_spec, gen_cfmt_is_model, '
                  'gen_cfmt_safe_any_code, gen_mod_step_is_spec, gen_mod_step_is_model, gen_mod_loop_is_model, '
                  'gen_fmt_is_spec, gen_fmt_is_model',
        ref='DESIGN.md §5 C04'),
    'C15': dict(
        text='Lean 4 theorems about the dtml-var pipeline model: gen_modifiers / gen_sql_tables / '
             'gen_special_formats (obligations on the tables regenerated from DT_Var on every run), '
             'modifier_order_independent, applied_sublist, applied_iff, case_mods_are_methods, rfindSpace_spec, '
             'truncate_spec, sql_quote_spec, thousands_commas_only_inserts_commas, missing_replaces_undefined, '
             'null_values, null_replaces_null, pipeline_stages, tag_unquote_applies_twice, '
             'unquote_inverts_quote_partial, finding_C15_double_unquote; Var.render is TRANSLATED from /repo on every run '
             '(harness/trans_var.py -> GenVar.lean): gen_var_render_stages (the order of the stages as the source has it), '
             'gen_truncate_is_model (the size / etc block, statement by statement, equals VarPipe.truncate); '
             'gen_var_fetch_is_model / gen_var_fetch_expr_is_model (the fetch part - missing, KeyError, the null test - statement by statement, harness/trans_fetch.py -> GenFetch.lean, equals VarPipe.render of a tag in the full form; full_form_of_missing_or_null); '
             'Var.__init__ is TRANSLATED too (harness/trans_varinit.py -> GenVarInit.lean): gen_var_form_is_model (the if-chain that '
             'stores simple_form, test by test, equals VarPipe.simpleKind), gen_var_modifiers_is_model (the filter of self.modifiers equals applied); '
             'correspondence on random specs x values '
             '(str/int/None/objects/undefined/tainted) incl. permuted option order; documentation oracles on the '
             'real tag (truncation rule, str methods on full Unicode, grouping, url round trip, sql_quote, null table)',
        note='Trusted: Lean kernel; VarPipe model validated by correspondence; Unicode case mapping, urllib codec, '
             'float formatting are parameters / oracle-only. Partial: url_unquote inverts url_quote only without '
             '%XX (finding C15-double-unquote); digit grouping tested against a reference, proved only as '
             '"inserts nothing but commas"',
        technique='Lean 4 proof (table obligations by decide, structural lemmas) over a model partly regenerated from the source '
                  '(statement-by-statement translator) + correspondence + doc oracles',
        ref='DESIGN.md §5 C15'),
    'C13': dict(
        text='Lean 4 theorems about the sort model (key extraction, per-field comparator with function and '
             'direction, None smallest, lexicographic over any number of fields, stable merge sort, reverse): '
             'cmpKeys_transCmp / le_trans / le_total (the comparison is a total preorder for EVERY field list), '
             'sort_perm, sort_ordered, sort_stable, sort_keeps_sorted_sublists, sort_sorted_id, none_first, '
             'desc_inverts, nocase_compares_lowered, key_extraction, reverse_exact, no_sort_identity, display_perm; inside the '
             'interpreter model (Render.arrange = what a dtml-in sort=key [reverse] iterates over): Interp.arrange_perm, '
             'arrange_ordered, none_keys_first, arrange_stable (elements with keys), arrange_reverse, skey_total / skey_trans; '
             'correspondence of the displayed order against the real tag over objects/mappings/2-tuples/plain '
             'items, 8 key types, cmp/nocase/user function, asc/desc, sort_expr, reverse(_expr), batching',
        note='Trusted: Lean kernel; CPython list.sort stability/consistency on homogeneous keys; model validated by '
             'correspondence with the None-group order canonicalised. Partial: /nocase with a None key raises '
             '(finding C13-nocase-none)',
        technique='Lean 4 proof (TransCmp instances + core mergeSort lemmas) + correspondence; SortBy.__call__ and the key '
                  'extraction of sort_sequence translated from the source on every run (Gen.gen_sortby_call_is_model, '
                  'gen_sortby_call_single_is_model, gen_extract_single_is_model, gen_extract_multi_is_model, '
                  'gen_extract_keys_is_model); make_sortfunctions translated and proved equal to the model\'s parser of the sort '
                  'attribute (gen_make_sortfield_is_model, gen_make_sortfunctions_is_model)',
        ref='DESIGN.md §5 C13'),
    'C16': dict(
        text='Lean 4 theorems (Mathlib ring/field_simp/linarith over Q) about the one-pass statistics model for ALL '
             'lists: count_total_spec, none_ignored, mean_spec, variance_n_eq (sum x^2/n - mean^2 = population '
             'variance), variance_eq (… n/(n-1) = sample variance), variance_nonneg, min_max_spec, median_spec '
             '(odd: middle element of the sorted values; even: lo <= m <= hi, floor of the mean for ints, mean '
             'otherwise); sequence_variables.statistics is TRANSLATED from /repo on every run (harness/trans_stats.py -> '
             'GenStats.lean: the numeric accumulation step, the block of numeric statistics, the median rule) and proved equal '
             'to the model (gen_statistics_step_is_model, gen_statistics_loop_is_model, gen_statistics_derived_is_model, '
             'gen_statistics_median_is_model); correspondence of the ten stat-x variables against exact rationals; oracle = '
             'statistics/fractions from the standard library',
        note='Trusted: Lean kernel + Mathlib lemmas; floats enter as the rationals they denote, rounding and '
             'math.sqrt are runtime (partial): compared within a relative tolerance; string statistics oracle-only',
        technique='Lean 4 proof over Q (Mathlib tactics) over a model partly regenerated from the source (statement-by-statement '
                  'translator) + correspondence through exact fractions',
        ref='DESIGN.md §5 C16'),
    'C20': dict(
        text='Lean 4 theorems: (codec) b64_roundtrip — decode(encode(bytes)) = bytes for EVERY byte string, chunk '
             'boundaries 57/76 crossed by proof — and codec_roundtrip under the zlib/json round-trip laws, '
             'gen_tree_constants (chunk sizes and translation tables extracted from TreeTag.py); encode_str, encode_seq '
             'and decode_seq are TRANSLATED from /repo on every run (harness/trans_treecodec.py -> GenTree.lean) and proved '
             'equal to the model: gen_encode_str_is_model, gen_encode_seq_is_model, gen_decode_seq_is_model, hence '
             'gen_codec_roundtrip (what the translated encode_seq writes the translated decode_seq reads back); '
             '(state) expand_adds, '
             'collapse_forgets_descendants, wf_applyDiff, rows_spec (rendered rows = depth-first spec, one link per '
             'parent encoding its own path, collapse iff expanded), history_invariant (refinement of the nested-list '
             'state to the set-of-paths spec for every valid click history), init_state; correspondence against the '
             'real dtml-tree driven through its own links (exhaustive small trees/histories + random large ones) and '
             'against encode_str/decode_seq; oracle: set-of-paths reference + independent cookie decoder',
        note='Trusted: Lean kernel; zlib/json/binascii external (hypotheses of codec_roundtrip; binascii modelled by '
             'b2a/a2b and validated by correspondence); TreeState model validated by correspondence (rows, links, '
             'cookie paths after every click)',
        technique='Lean 4 proof (arithmetic + induction for the codec; refinement to a set-of-paths spec for the state) '
                  '+ correspondence; the state model applyDiff is proved equal to TreeTag.apply_diff translated from the '
                  'source statement by statement on every run (gen_apply_diff_is_model, gen_apply_diff_is_click); the codec '
                  'functions regenerated from the source on every run (statement-by-statement translator, equality with the '
                  'hand-written model proved); likewise '
                  'tpStateLevel = depthList (gen_state_level_is_model, gen_state_level_default; pathsList_le_depth, '
                  'depthList_attained) and tpValuesIds = allIdsList / expandAllState (gen_values_ids_is_model, '
                  'gen_values_ids_is_expand_all)',
        ref='DESIGN.md §5 C20'),
    'C06': dict(
        text='Lean 4 theorems about the parser model (hand-compiled scanners, tokeniser, attribute grammar, tag roles, '
             'stack builder, per-tag constructors), all total functions: gen_regexes / gen_commands / '
             'gen_param_tables (obligations on the regex sources, command and attribute tables extracted from the '
             'source on every run), candidate_len_pos / matchEpfs_len_pos / scan_progress (every tag consumes >= 1 '
             'character), tokens_complete / tokens_tail_tagfree (the fuel |src|+1 always suffices: tokenising '
             'terminates with nothing left unscanned), build_error_index / error_located / tokStart_spec (every error '
             'is reported for a token of the source, whose text is the slice at the reported offset), '
             'unclosed_block_rejected; the block builder as a state machine (buildAux_eq_run: the builder IS the iteration of '
             'stepTok followed by finish) and "rejected iff the grammar is violated": accepted_iff, rejection_classified, '
             'unknown_tag_rejected, end_without_start_rejected, missing_end_tag_rejected, misplaced_continuation_rejected, '
             'simple_attribute_error_rejected, block_attribute_error_rejected (each located at the offending / the start tag); '
             'DT_Util.parse_params / name_param (the attribute grammar of every tag) TRANSLATED from /repo on every run - '
             'harness/trans_params.py -> GenParams.lean - and proved equal to the model: gen_params_step_is_model, '
             'gen_params_tail_is_model, gen_parse_params_is_model (= Parse.parseParamsAux for every table, fuel, text and '
             'dictionary), gen_parse_params_any_fuel, gen_name_param_is_model / gen_name_param_default (= Parse.nameParam); '
             'params_progress / params_fuel_enough (every successful match consumes >= 1 character: the fuel is never used up); '
             'gen_parseTag_is_tagRole, gen_parseTag_unknown_tag, gen_parseTag_unexpected_end (the tag roles and ParseErrors of '
             'String._parseTag / HTML.parseTag / String.parseTag as translated from the source on every run, GenParseTag.lean); '
             'correspondence on valid templates in 3 syntaxes, single mutations, all '
             'prefixes, junk and a 48-entry grammar-fault corpus: acceptance, compiled tree and token streams agree; '
             'oracle: exception class, error location, pumped-family CPU time',
        note='Trusted: Lean kernel; equivalence of the hand-compiled scanners with CPython re (validated by token '
             'correspondence); Python expression syntax external (the model lists expressions, the harness compiles '
             'them). Partial: running time is measured, not proved; RecursionError on nesting > ~300 is a known finding',
        technique='Lean 4 proof (totality, progress, error-location invariants) + correspondence + timing oracle',
        ref='DESIGN.md §5 C06'),
}

NA_REASON = 'check not built yet in this round (planned, see DESIGN.md §5)'


def main():
    props = [json.loads(l) for l in open(os.path.join(VERIF, 'properties.jsonl'))]
    claimed = sorted(CLAIMS)
    m = {
        'version': 1,
        'setup_cmd': 'bin/setup',
        'hooks': {
            'guard': 'DOCUMENTTEMPLATE_VERIF',
            'enable': 'no source hooks: all instrumentation (recording guards, counting iterators, fault-injecting '
                      'callables, line scheduler) is done from the harness at run time; checks import /repo/src directly',
            'baseline_off_cmd': 'cd /repo && /venv/bin/python -m pytest -ra -q -p no:cacheprovider --timeout=900 '
                                '--continue-on-collection-errors',
            'source_commits': [],
            'add_only': True,
        },
        'engines': [
            {'name': 'lean-model', 'path': 'lean/', 'serves_properties': claimed,
             'kind_free_text': 'Lean 4 model + theorems (lake project DTML, no Mathlib in model files), driver '
                               'executable for the correspondence line protocol'},
            {'name': 'harness', 'path': 'harness/', 'serves_properties': claimed,
             'kind_free_text': 'Python: translators that regenerate parts of the model from /repo on every run (consts.py -> Gen.lean tables; trans_*.py -> Gen*.lean control flow, each with an equality obligation in Props), correspondence runs model vs /repo, '
                               'independent property oracles, verdict + evidence'},
        ],
        'checks': [],
        'notes': 'See DESIGN.md (section 0.8 lists what is translated from the source). Every check: regenerate Gen.lean and the Gen*.lean files from /repo, lake build, forbidden-token grep and '
                 '#print axioms audit, correspondence run (Lean driver vs real code), independent oracle on the '
                 'real code; known findings in known_findings.json.',
        'not_applicable': [],
    }
    for p in props:
        pid = p['id']
        if pid in CLAIMS:
            c = CLAIMS[pid]
            m['checks'].append({
                'property_id': pid,
                'quick_cmd': 'bin/check %s --tier quick' % pid,
                'thorough_cmd': 'bin/check %s --tier thorough' % pid,
                'evidence_file': 'evidence/%s.json' % pid,
                'replay_cmd_template': 'bin/check %s --replay {path}' % pid,
                'engine': 'lean-model',
                'level_claimed': {'category': 'proof', 'text': c['text'], 'design_ref': c['ref']},
                'level_note': c['note'],
                'technique': c['technique'],
            })
        else:
            m['not_applicable'].append({'property_id': pid, 'reason': NA_REASON})
    with open(os.path.join(VERIF, 'MANIFEST.json'), 'w') as f:
        json.dump(m, f, indent=1)
        f.write('\n')


if __name__ == '__main__':
    main()
