"""Shared by C04 / C15: build dtml-var tags from abstract specs, run the real code, build the
model request for the Lean driver (op "var")."""
import common  # noqa

MODS = ['html_quote', 'url_quote', 'url_quote_plus', 'url_unquote', 'url_unquote_plus', 'newline_to_br',
        'lower', 'upper', 'capitalize', 'spacify', 'thousands_commas', 'sql_quote']
SPECIAL = ['whole-dollars', 'dollars-and-cents', 'collection-length', 'sql-quote', 'html-quote', 'url-quote',
           'url-quote-plus', 'url-unquote', 'url-unquote-plus', 'multi-line', 'comma-numeric',
           'dollars-with-commas', 'dollars-and-cents-with-commas']
METHOD_FMTS = ['upper', 'lower', 'capitalize']
_cache = {}


class Obj:
    """object with a str() form, a truth value and no-arg methods returning strings"""

    def __init__(self, s, truthy, methods):
        self._s = s
        self._truthy = truthy
        for k, v in methods.items():
            setattr(self, k, (lambda v=v: v))

    def __str__(self):
        return self._s

    def __bool__(self):
        return self._truthy


def quote_attr(v):
    return '"%s"' % v


def tag_source(spec, syntax, by_expr=False):
    """spec: dict(written=[..], missing=, null=, fmt=, size=, etc=, cfmt='s')"""
    parts = []
    if by_expr:
        parts.append('var expr="x"' if syntax == 'epfs' else 'expr="x"')
    else:
        parts.append('x')
    rest = []
    for m in spec['written']:
        rest.append(m)
    for k in ('fmt', 'size', 'etc', 'null', 'missing'):
        if spec.get(k) is not None:
            rest.append('%s=%s' % (k, quote_attr(spec[k])))
    order = spec.get('order')
    if order:
        rest = [rest[i] for i in order]
    body = ' '.join(parts + rest)
    if syntax == 'dtml':
        return 'html', '<dtml-var %s>' % body
    if syntax == 'ssi':
        return 'html', '<!--#var %s-->' % body
    if syntax == 'epfs':
        return 'epfs', '%%(%s)%s' % (body, spec.get('cfmt', 's'))
    if syntax == 'entity':
        mods = '.'.join(spec['written'])
        return 'html', ('&dtml.%s-x;' % mods) if mods != 'html_quote' else '&dtml-x;'
    raise ValueError(syntax)


def template(kind, src):
    t = _cache.get((kind, src))
    if t is None:
        from DocumentTemplate import HTML, String
        t = (HTML if kind == 'html' else String)(src)
        t.cook()
        if len(_cache) > 20000:
            _cache.clear()
        _cache[(kind, src)] = t
    return t


def to_py(value):
    """abstract value -> Python object"""
    from AccessControl.tainted import TaintedString
    k = value['kind']
    if k == 'none':
        return None
    if k == 'int':
        return value['i']
    if k == 'str':
        return TaintedString(value['s']) if value['t'] else value['s']
    if k == 'obj':
        return Obj(value['s'], value['truthy'], value['methods'])
    raise ValueError(k)


def run_impl(spec, value, syntax='dtml', by_expr=False):
    """returns ('out', text) | ('err', class name)"""
    kind, src = tag_source(spec, syntax, by_expr)
    try:
        t = template(kind, src)
    except Exception as e:  # noqa
        return ('compile-err', type(e).__name__ + ': ' + str(e)[:100]), src
    try:
        if value['kind'] == 'undefined':
            out = t()
        else:
            out = t(x=to_py(value))
    except Exception as e:  # noqa
        return ('err', type(e).__name__), src
    if not isinstance(out, str):
        return ('out-nonstr', repr(out)), src
    return ('out', out), src


def model_req(spec, value):
    r = {'op': 'var', 'written': list(spec['written']), 'value': value, 'cfmt': spec.get('cfmt', 's')}
    for k in ('fmt', 'size', 'etc', 'null', 'missing'):
        if spec.get(k) is not None:
            r[k] = spec[k]
    return r


def compare(impl, m):
    """impl result vs model response ('ok' payload); None = agree, 'oom' = outside the model"""
    if m.get('oom'):
        return 'oom'
    if 'err' in m:
        if impl[0] == 'err' and impl[1] == m['err']:
            return None
        return 'impl %r model raises %s' % (impl, m['err'])
    if impl[0] != 'out' or impl[1] != m['out']:
        return 'impl %r model %r' % (impl, m['out'])
    return None
