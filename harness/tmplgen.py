"""Abstract templates and their printers in the three surface syntaxes (+ entity references).

An abstract template is a list of nodes:
  ('lit', text)
  ('var', target, opts)          target = ('name', n) | ('expr', src);  opts = [(attr, value|None)]
  ('call', target) ('return', target)
  ('if', [(target, body), ...], else_body|None)
  ('unless', target, body)
  ('in', target, opts, body, else_body|None)
  ('with', target, opts, body)
  ('let', [(name, value, is_expr)], body)
  ('raise', target_or_None, body)          target kind 'name' = type=
  ('try', body, [(names, body)], else_body|None, finally_body|None)
  ('comment', body)
Literal text never contains a tag opener of any syntax, so what is a tag and what is text is known
to the generator independently of the scanners under test.
"""
OPENERS = ['<dtml-', '</dtml-', '<!--#', '&dtml-', '&dtml.', '%(']
NEAR = ['<', '<d', '<dtml', '<!--', '<!-', '&dt', '&dtml', '&', '%', '% (', ';', '>', '-->', '--', '"', "'",
        '\n', ' \n', '  ', '\t\n', ' ', 'ſ', 'K', 'text', 'Hello', 'a=b', '/', ']', ')', '(', '[', '!', '1', 'é',
        '\U0001F600', '<b>', '</b>', '&amp;', 'end']


def inert(text):
    return not any(o in text for o in OPENERS)


def gen_lit(r, maxlen=4):
    for _ in range(10):
        t = ''.join(r.choice(NEAR) for _ in range(r.randint(0, maxlen)))
        if inert(t):
            return t
    return 'x'


NAMES = ['x', 'y', 'z', 'items', 'obj', 'flag', 'n1']
EXPRS = ['x', 'y + 1', "x or 'd'", '1 == 1', "_['x']", 'len(items)', 'not flag', 'y > 1', 'n1 >= 0 or x']
VAR_FLAGS = ['html_quote', 'upper', 'lower', 'capitalize', 'spacify', 'url_quote', 'newline_to_br', 'sql_quote',
             'thousands_commas']


def gen_target(r, expr_ok=True):
    if expr_ok and r.random() < 0.3:
        return ('expr', r.choice(EXPRS))
    return ('name', r.choice(NAMES))


def gen_body(r, depth, width=3):
    n = r.randint(0, width)
    out = []
    for _ in range(n):
        out.append(gen_node(r, depth))
    # literals between and around
    res = []
    for nd in out:
        t = gen_lit(r)
        if t:
            res.append(('lit', t))
        res.append(nd)
    t = gen_lit(r)
    if t:
        res.append(('lit', t))
    return res


def gen_node(r, depth):
    kinds = ['var', 'var', 'var', 'call', 'comment']
    if depth > 0:
        kinds += ['if', 'if', 'unless', 'in', 'in', 'with', 'let', 'raise', 'try', 'try']
    k = r.choice(kinds)
    if k == 'var':
        opts = []
        for f in VAR_FLAGS:
            if r.random() < 0.12:
                opts.append((f, None))
        if r.random() < 0.15:
            opts.append(('size', str(r.randint(1, 9))))
        if r.random() < 0.1:
            opts.append(('null', r.choice(['', 'nothing here'])))
        if r.random() < 0.1:
            opts.append(('missing', r.choice(['', 'gone'])))
        if r.random() < 0.1:
            opts.append(('fmt', r.choice(['%s', 'html-quote', 'x%sx'])))
        r.shuffle(opts)
        return ('var', gen_target(r), opts)
    if k == 'call':
        return ('call', gen_target(r))
    if k == 'comment':
        return ('comment', [('lit', gen_lit(r) or 'c')])
    if k == 'if':
        conds = [(gen_target(r), gen_body(r, depth - 1, 2)) for _ in range(r.randint(1, 3))]
        els = gen_body(r, depth - 1, 2) if r.random() < 0.5 else None
        return ('if', conds, els)
    if k == 'unless':
        return ('unless', gen_target(r), gen_body(r, depth - 1, 2))
    if k == 'in':
        opts = []
        if r.random() < 0.3:
            opts.append(('sort', 'k'))
        if r.random() < 0.2:
            opts.append(('reverse', None))
        if r.random() < 0.2:
            opts += [('size', '2')]
        if r.random() < 0.15:
            opts.append(('prefix', 'p'))
        if r.random() < 0.15:
            opts.append(('mapping', None))
        els = gen_body(r, depth - 1, 1) if r.random() < 0.3 else None
        return ('in', gen_target(r), opts, gen_body(r, depth - 1, 2), els)
    if k == 'with':
        opts = [('mapping', None)] if r.random() < 0.2 else []
        return ('with', gen_target(r), opts, gen_body(r, depth - 1, 2))
    if k == 'let':
        binds = []
        for i in range(r.randint(1, 2)):
            if r.random() < 0.5:
                binds.append(('v%d' % i, r.choice(EXPRS), True))
            else:
                binds.append(('v%d' % i, r.choice(NAMES), False))
        return ('let', binds, gen_body(r, depth - 1, 2))
    if k == 'raise':
        t = ('name', r.choice(['KeyError', 'ValueError', 'Oops'])) if r.random() < 0.7 else ('expr', 'x')
        return ('raise', t, gen_body(r, depth - 1, 1))
    if k == 'try':
        body = gen_body(r, depth - 1, 2)
        if r.random() < 0.3:
            return ('try', body, [], None, gen_body(r, depth - 1, 1))
        exc = [(r.choice(['KeyError', 'ValueError KeyError', '', 'Exception']), gen_body(r, depth - 1, 1))
               for _ in range(r.randint(1, 2))]
        # at most one default handler
        seen = False
        exc2 = []
        for names, b in exc:
            if names == '':
                if seen:
                    names = 'NameError'
                seen = True
            exc2.append((names, b))
        els = gen_body(r, depth - 1, 1) if r.random() < 0.3 else None
        return ('try', body, exc2, els, None)
    raise ValueError(k)


def gen_template(r, depth=3, width=3):
    return gen_body(r, depth, width)


# --------------------------------------------------------------------------- printers

class Style:
    """concrete-syntax variation that must not matter"""

    def __init__(self, r, syntax):
        self.r = r
        self.syntax = syntax

    def sp(self):
        return self.r.choice([' ', ' ', '  ', '\n', ' \t']) if self.syntax != 'dtml0' else ' '


def q(v):
    return '"%s"' % v


def fmt_target(t, st, attr='name'):
    kind, v = t
    r = st.r
    if kind == 'expr':
        return r.choice(['expr=%s' % q(v), q(v)])
    c = r.random()
    if c < 0.6:
        return v
    if c < 0.8:
        return '%s=%s' % (attr, v)
    return '%s=%s' % (attr, q(v))


def fmt_opts(opts, st):
    out = []
    for k, v in opts:
        if v is None:
            out.append(k)
        elif st.r.random() < 0.5 and v and all(ch.isalnum() or ch in '-%._' for ch in v):
            out.append('%s=%s' % (k, v))
        else:
            out.append('%s=%s' % (k, q(v)))
    return out


def join_args(parts, st):
    return st.sp().join(p for p in parts if p)


def open_tag(name, args, st):
    if st.syntax == 'dtml':
        return '<dtml-%s%s>' % (name, (st.sp() + args) if args else '')
    if st.syntax == 'ssi':
        lead = st.r.choice(['', '', ' '])
        return '<!--#%s%s%s-->' % (lead, name, (st.sp() + args) if args else st.r.choice(['', ' ']))
    return '%%(%s%s)[' % (name, (epfs_sp(args, st) + args) if args else '')


def epfs_sp(args, st):
    # a quoted string must be preceded by a non-quote character inside the arguments group:
    # when the arguments begin with a quote, two blanks are needed after the tag name
    s = st.sp()
    if args.startswith('"') and len(s) < 2:
        s = s + ' '
    return s


def close_tag(name, args, st):
    if st.syntax == 'dtml':
        return '</dtml-%s%s>' % (name, (' ' + args) if args and st.r.random() < 0.3 else '')
    if st.syntax == 'ssi':
        form = st.r.choice(['/', '/', 'end', 'end ', 'END'])
        return '<!--#%s%s%s-->' % (form, name, (' ' + args) if args and st.r.random() < 0.3 else '')
    return '%%(%s%s)]' % (name, (epfs_sp(args, st) + args) if args and st.r.random() < 0.3 else '')


def simple_tag(name, args, st):
    if st.syntax == 'dtml':
        return '<dtml-%s %s>' % (name, args)
    if st.syntax == 'ssi':
        return '<!--#%s %s-->' % (name, args)
    return '%%(%s%s%s)%s' % (name, epfs_sp(args, st), args, st.r.choice(['[', '!']))


def print_nodes(nodes, st):
    return ''.join(print_node(n, st) for n in nodes)


def print_node(n, st):
    k = n[0]
    if k == 'lit':
        return n[1]
    if k == 'var':
        _, t, opts = n
        args = join_args([fmt_target(t, st)] + fmt_opts(opts, st), st)
        if st.syntax == 'epfs':
            if t[0] == 'name' and st.r.random() < 0.5 and not opts and '=' not in args:
                return '%%(%s)s' % args
            return '%%(var%s%s)s' % (epfs_sp(args, st), args)
        if st.syntax in ('dtml', 'ssi') and t[0] == 'name' and st.r.random() < 0.3 and \
                all(v is None for _, v in opts) and opts:
            mods = [o for o, _ in opts]
            if mods == ['html_quote']:
                return '&dtml-%s;' % t[1]
            return '&dtml.%s-%s;' % ('.'.join(mods), t[1])
        return simple_tag('var', args, st)
    if k in ('call', 'return'):
        return simple_tag(k, fmt_target(n[1], st), st)
    if k == 'comment':
        return open_tag('comment', '', st) + print_nodes(n[1], st) + close_tag('comment', '', st)
    if k == 'if':
        _, conds, els = n
        out = []
        first = fmt_target(conds[0][0], st)
        out.append(open_tag('if', first, st) + print_nodes(conds[0][1], st))
        for t, body in conds[1:]:
            out.append(open_tag('elif', fmt_target(t, st), st) + print_nodes(body, st))
        if els is not None:
            # an else may repeat the if's name (old style)
            rep = first if conds[0][0][0] == 'name' and first == conds[0][0][1] and st.r.random() < 0.2 else ''
            out.append(open_tag('else', rep, st) + print_nodes(els, st))
        return ''.join(out) + close_tag('if', first if st.r.random() < 0.3 else '', st)
    if k == 'unless':
        a = fmt_target(n[1], st)
        return open_tag('unless', a, st) + print_nodes(n[2], st) + close_tag('unless', '', st)
    if k == 'in':
        _, t, opts, body, els = n
        a = join_args([fmt_target(t, st)] + fmt_opts(opts, st), st)
        s = open_tag('in', a, st) + print_nodes(body, st)
        if els is not None:
            s += open_tag('else', '', st) + print_nodes(els, st)
        return s + close_tag('in', '', st)
    if k == 'with':
        _, t, opts, body = n
        a = join_args([fmt_target(t, st)] + fmt_opts(opts, st), st)
        return open_tag('with', a, st) + print_nodes(body, st) + close_tag('with', '', st)
    if k == 'let':
        _, binds, body = n
        parts = ['%s=%s' % (nm, q(v) if is_expr else v) for nm, v, is_expr in binds]
        return open_tag('let', join_args(parts, st), st) + print_nodes(body, st) + close_tag('let', '', st)
    if k == 'raise':
        _, t, body = n
        a = fmt_target(t, st, attr='type')
        return open_tag('raise', a, st) + print_nodes(body, st) + close_tag('raise', '', st)
    if k == 'try':
        _, body, excs, els, fin = n
        s = open_tag('try', '', st) + print_nodes(body, st)
        for names, b in excs:
            s += open_tag('except', names, st) + print_nodes(b, st)
        if els is not None:
            s += open_tag('else', '', st) + print_nodes(els, st)
        if fin is not None:
            s += open_tag('finally', '', st) + print_nodes(fin, st)
        return s + close_tag('try', '', st)
    raise ValueError(k)


def render_source(tmpl, syntax, r):
    """returns (class kind 'html'|'epfs', source)"""
    st = Style(r, syntax)
    return ('epfs' if syntax == 'epfs' else 'html'), print_nodes(tmpl, st)


def count_tags(nodes):
    n = 0
    for nd in nodes:
        k = nd[0]
        if k == 'lit':
            continue
        n += 1
        for part in nd[1:]:
            if isinstance(part, list):
                for x in part:
                    if isinstance(x, tuple) and x and isinstance(x[0], str) and x[0] in (
                            'lit', 'var', 'call', 'return', 'if', 'unless', 'in', 'with', 'let', 'raise', 'try', 'comment'):
                        n += count_tags([x])
                    elif isinstance(x, tuple):
                        for y in x:
                            if isinstance(y, list):
                                n += count_tags(y)
    return n
