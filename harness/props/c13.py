"""C13 — sorting yields a stable, correctly ordered permutation and never mutates input.

Correspondence: Lean `Sort.display` (decorate / extract / mergeSort with the lexicographic
field comparator) vs the order in which the real `<dtml-in … sort=…>` shows the elements.
Oracle (independent of the model): permutation, ordered by the keys, stable, None first,
reverse exact, caller's sequence untouched; when no key is None / missing the shown order is
compared with the one stable order the property allows (Python's own `sorted` on the key codes).

Comparison functions: the built-in ones (cmp, nocase, locale / strcoll / locale_nocase /
strcoll_nocase) and functions found in the namespace.  The latter follow the classic cmp protocol
(negative / zero / positive): the family below returns the sign in many numeric disguises (float,
fractions below 1, Fraction, Decimal, huge ints, infinities, -0.0 for "equal") and as the
difference of the keys, and is handed to the template as keyword, as attribute of the client or in
the mapping argument, under its own name or under an alias that other renderings bind to another
function.

Names: the variable name of a sort option is an attribute name / mapping key and is taken exactly as it is
spelled (case, punctuation, non-ASCII letters, names that are also option words such as `desc` or `cmp`);
the elements also carry *distractor* entries under the names that a normalisation of the option (lower / upper /
swapcase / title / casefold / NFKC / '-' <-> '_') would produce, with unrelated keys, so that looking up any
other spelling than the written one shows as a wrong order.  The same for names of comparison functions taken
from the namespace, and for namespace entries that merely share the name of a predefined function or of a
direction word.  A rendering that does not return within the time limit is a failure, not waited for.
"""
import collections
import collections.abc
import copy
import datetime
import decimal
import fractions
import functools
import json
import signal
import unicodedata
import locale      # before DocumentTemplate: DT_In offers locale / strcoll only if locale is already imported

import common

KINDS = ['int', 'str', 'float', 'bool', 'date', 'Decimal', 'callable', 'strnc',
         'floatnear', 'num', 'intwide', 'callnear']
# keys of plain items / 2-tuples (empty sort, sort=sequence-item)
ITEM_KINDS = ['int', 'str', 'int', 'str', 'floatnear', 'num', 'intwide', 'Decimal', 'date', 'bool',
              'strshort', 'strshort', 'strsub', 'bytes', 'list', 'tuplen']
# elements that are themselves sequences, of every length 1..3, several of them sharing their first member: only a
# real tuple of exactly two members is a (key, value) pair, everything else is ordered by the element itself.
# Each domain is written down in ascending order (code point / lexicographic order); the position is the key code
SHORT_STR = ['B', 'Ba', 'a', 'a b', 'aa', 'ab', 'abc', 'b', 'ba', 'bb']
SHORT_BYTES = [b'A', b'Aa', b'a', b'aa', b'ab', b'abc', b'b', b'ba']
SHORT_LIST = [[0], [0, 0], [0, 1], [0, 1, 0], [1], [1, 0], [1, 0, 0], [2]]
NON_PAIR_TUPLES = [(0,), (0, 0, 1), (0, 1, 0), (1,), (1, 0, 0), (2,)]     # tuples that are not pairs: 1 and 3 members


class Str(str):
    """a str subclass (what a catalog / record set hands out): ordered and shown like the str it is"""


class Row(list):
    """a record row: a list (of any length, also 2) that carries the sort keys as attributes"""
    def __init__(self, cells, eid, **kw):
        list.__init__(self, cells)
        self.eid = eid
        self.__dict__.update(kw)

    def __repr__(self):
        return 'Row(%s, %r)' % (list.__repr__(self), self.__dict__)


class URow(collections.UserList):
    """the same as a collections.abc.Sequence that is no list"""
    def __init__(self, cells, eid, **kw):
        collections.UserList.__init__(self, cells)
        self.eid = eid
        self.__dict__.update(kw)


class SRow(str):
    """a str (of any length, also 2) that carries the sort keys as attributes"""
    def __new__(cls, cells, eid, **kw):
        o = str.__new__(cls, ''.join('xy'[c % 2] for c in cells))
        o.eid = eid
        o.__dict__.update(kw)
        return o


ELEM_CLASSES = ['Obj', 'Obj', 'Obj', 'Row', 'URow', 'SRow']
NEAR = [-0.25, 0.1, 0.3, 0.75]              # floats closer together than 1, both signs
WIDE = [-2 ** 70, -1, 0, 2 ** 70]           # ints beyond the machine word


class Obj:
    def __init__(self, eid, **kw):
        self.eid = eid
        self.__dict__.update(kw)

    def __repr__(self):
        return 'Obj(%r)' % (self.__dict__,)


class MissingDict(dict):
    """a dict subclass with a __missing__ hook (subscription of an absent key yields a default): the item still does
    not HAVE the key, `get` / `in` say so, and the hook must not be what decides the order"""
    __slots__ = ('default',)

    def __missing__(self, key):
        return self.default


# the items of a `mapping` loop: every kind of mapping with a `get`, among them those whose subscription never fails
MAPPING_CLASSES = ['dict', 'dict', 'dict', 'defaultdict', 'defaultdict', 'Counter', 'MissingDict', 'MissingDict',
                   'UserDict', 'OrderedDict']


def mk_mapping(cls, d, default):
    """the mapping item of class `cls` with the entries d; `default` is what a __missing__ hook hands out"""
    if cls == 'dict':
        return dict(d)
    if cls == 'defaultdict':
        return collections.defaultdict(lambda: default, d)
    if cls == 'Counter':
        return collections.Counter(d)           # its hook says 0
    if cls == 'MissingDict':
        m = MissingDict(d)
        m.default = default
        return m
    if cls == 'UserDict':
        return collections.UserDict(d)
    if cls == 'OrderedDict':
        return collections.OrderedDict(d)
    raise ValueError(cls)


def mk_key(kind, code, r):
    """(python value, model attr) for an abstract key code (small int)"""
    if code is None:
        if kind == 'callable' and r.random() < 0.6:
            # a callable key whose call returns None: as good as a None key (smallest)
            return (lambda: None), {'a': 'none'}
        return None, {'a': 'none'}
    if code == 'missing':
        return 'MISSING', {'a': 'missing'}
    if kind == 'int':
        return code, {'a': 'plain', 'k': code}
    if kind == 'str':
        s = ['apple', 'Banana', 'banana', 'cherry', 'Apple', 'date', ''][code % 7]
        return s, {'a': 'plain', 'k': s}
    if kind == 'strnc':
        s = ['apple', 'Banana', 'banana', 'cherry', 'Apple', 'CHERRY', 'b'][code % 7]
        return s, {'a': 'plain', 'k': s}
    if kind == 'float':
        return code + 0.5, {'a': 'plain', 'k': 2 * code + 1}
    if kind == 'bool':
        return bool(code % 2), {'a': 'nonbasic', 'k': code % 2}
    if kind == 'date':
        return datetime.date(2020, 1, 1) + datetime.timedelta(days=code), {'a': 'nonbasic', 'k': code}
    if kind == 'Decimal':
        return decimal.Decimal(code) / 4, {'a': 'nonbasic', 'k': code}
    if kind == 'callable':
        return (lambda c=code: c), {'a': 'callable', 'k': code}
    if kind == 'floatnear':
        return NEAR[code % 4], {'a': 'plain', 'k': code % 4}
    if kind == 'callnear':
        return (lambda c=code: NEAR[c % 4]), {'a': 'callable', 'k': code % 4}
    if kind == 'intwide':
        return WIDE[code % 4], {'a': 'plain', 'k': code % 4}
    if kind in ('strshort', 'strsub', 'bytes', 'list', 'tuplen'):
        # the abstract code picks a neighbourhood of the domain, the draw the member: neighbours share their beginning
        dom = {'strshort': SHORT_STR, 'strsub': SHORT_STR, 'bytes': SHORT_BYTES, 'list': SHORT_LIST,
               'tuplen': NON_PAIR_TUPLES}[kind]
        i = (2 * code + r.randrange(3)) % len(dom)
        pv = dom[i]
        if kind == 'strsub':
            pv = Str(pv)
        elif kind == 'list':
            pv = list(pv)
        return pv, {'a': 'plain', 'k': dom[i] if isinstance(dom[i], str) else i}
    if kind == 'num':
        # the number code/2 in one of its spellings: 1 == 1.0 == True are equal keys that print differently,
        # so stability is observable even on plain items
        v = code / 2.0
        forms = [v]
        if v == int(v):
            forms.append(int(v))
            if v in (0, 1):
                forms.append(bool(v))
        pv = r.choice(forms)
        return pv, {'a': 'nonbasic' if isinstance(pv, bool) else 'plain', 'k': code}
    raise ValueError(kind)


def cmp(a, b):
    return (a > b) - (a < b)


def rcmp(a, b):
    return (b > a) - (b < a)


def _low(v):
    return v.lower() if isinstance(v, str) else v


def _diff(a, b):
    """the classic `return a - b` comparison function (dates: difference in weeks); keys that cannot be
    subtracted (strings, the smallest-value marker) are compared with < and >"""
    try:
        d = a - b
    except TypeError:
        return cmp(a, b)
    if isinstance(d, datetime.timedelta):
        d = d.total_seconds() / 604800.0
    return d


CONVS = {
    'sign': lambda s: s,
    'float': lambda s: float(s) if s else -0.0,
    'frac': lambda s: s * 0.25,
    'tiny': lambda s: s * 1e-9,
    'fraction': lambda s: fractions.Fraction(s, 3),
    'decimal': lambda s: decimal.Decimal(s) / 8,
    'big': lambda s: s * 2 ** 70,
    'inf': lambda s: s * float('inf') if s else 0,
}
CONV_NAMES = sorted(CONVS) + ['diff', 'diff']


def user_fn(base, conv):
    """comparison function with the meaning of `base` (cmp / rcmp = reversed cmp / nocase) that
    reports its verdict the way `conv` says"""
    if conv == 'diff':
        if base == 'cmp':
            return _diff
        if base == 'rcmp':
            return lambda a, b: _diff(b, a)
        return lambda a, b: _diff(_low(a), _low(b))
    cv = CONVS[conv]
    if base == 'cmp':
        return lambda a, b: cv(cmp(a, b))
    if base == 'rcmp':
        return lambda a, b: cv(rcmp(a, b))
    return lambda a, b: cv(cmp(_low(a), _low(b)))


class Client:
    """the `client` argument of a template call: its attributes are names of the namespace"""


_locale_ok = None


def locale_ok():
    """are the locale comparison functions there, and is the collation order the code point order?"""
    global _locale_ok
    if _locale_ok is None:
        from DocumentTemplate import DT_In
        _locale_ok = (hasattr(DT_In, 'strcoll') and hasattr(DT_In, 'strcoll_nocase')
                      and locale.setlocale(locale.LC_COLLATE) in ('C', 'POSIX'))
    return _locale_ok


# names of the sorted-by attribute / mapping key, by class.  None of them contains '/' or ',' (the separators of the
# option grammar), '"', '<' or '>' (the tag grammar); names with white space can only be written quoted or in sort_expr.
KEY_NAMES = {
    'mixedcase': ['Title', 'title', 'TITLE', 'getRank', 'sortKey', 'K', 'UPPER', 'lowerUPPER', 'Mixed_Case9', 'iD'],
    # words of the option grammar itself (functions, directions, attributes of the tag) and words that contain them
    'optionword': ['cmp', 'nocase', 'asc', 'desc', 'DESC', 'Asc', 'locale', 'strcoll', 'locale_nocase', 'rcmp',
                   'reverse', 'mapping', 'sort', 'sort_expr', 'size', 'description', 'nocase_title', 'Cmp', 'NoCase'],
    'punct': ['sort_key', '_k', 'k_', '__k__', 'sort-key', 'sequence-key', 'Sort-Key', 'a.b', 'k:1', '9k', '0', 'k+1',
              "k'", 'k;', 'k#', 'k%s', '%(k)s', '(k)', 'k[0]', '$k', 'k!', '~k', 'k*', 'k?', 'k|b', 'k\\n', 'k&b',
              '&dtml-k;', 'k@b', '-', '_', '.'],
    'space': ['sort key', 'Sort Key', 'k\tb', 'a  b'],
    'nonascii': ['Größe', 'İd', 'ключ', 'Ключ', 'ǅ',
                 'ß', 'naïve', '名前', 'ḱ', 'ＫＥＹ', '\U0001d40a', 'Ångström',
                 'Σίσυφος', 'k b', 'µ'],
    'long': ['LongKeyName' * 20, 'x' * 300 + 'Y'],
}
KEY_NAME_CLASSES = ['plain', 'plain', 'plain', 'mixedcase', 'mixedcase', 'mixedcase', 'optionword', 'optionword',
                    'punct', 'punct', 'space', 'nonascii', 'nonascii', 'long']
# names under which a comparison function of the caller is found in the namespace
FN_ALIASES = ['fn%d', 'fn%d', 'byKey%d', 'MyCmp%d', 'CMPFN%d', 'cmp_Fn%d', 'Nocase%d', 'by-key%d', 'by.key%d',
              'Сравни%d', 'Größer%d', 'Desc%d']
UNQUOTABLE = set(' \t\r\n\x0b\x0c="<>') | {chr(c) for c in range(33)}


def name_variants(name):
    """the other spellings a normalisation of the option text would turn `name` into"""
    vs = [name.lower(), name.upper(), name.swapcase(), name.title(), name.capitalize(), name.casefold(),
          unicodedata.normalize('NFKC', name), unicodedata.normalize('NFKD', name), name.strip(),
          name.replace('-', '_'), name.replace('_', '-'), name.replace(' ', '_'), name.replace(' ', '')]
    out = []
    for v in vs:
        if v != name and v not in out and v != 'eid':
            out.append(v)
    return out


def gen_name(r, i, used):
    for _ in range(20):
        cls = r.choice(KEY_NAME_CLASSES)
        name = 'k%d' % i if cls == 'plain' else r.choice(KEY_NAMES[cls])
        if name not in used:
            return name, cls
    return 'k%d' % i, 'plain'


def gen_field(r, i, used=(), same_as=None):
    """same_as: an earlier field whose attribute / mapping key this option names again (with a comparison function /
    direction of its own: `name/nocase,name`, `k/cmp,k/rcmp/desc`, ...)"""
    kind = r.choice(KINDS)
    name, ncls = gen_name(r, i, used)
    if same_as is not None:
        kind, name, ncls = same_as['type'], same_as['name'], 'same_as_other_field'
    elif used and r.random() < 0.15:
        # two options whose names differ in case / normalisation only
        vs = [v for v in name_variants(used[0]) if v not in used and '/' not in v and ',' not in v]
        if vs:
            name, ncls = r.choice(vs), 'variant_of_other_field'
    f = {'name': name, 'name_class': ncls, 'type': kind, 'fn': None, 'conv': None, 'alias': None, 'nonone': False,
         'same_as': None}
    c = r.random()
    if same_as is not None and same_as['kind'] == 'nocase' and r.random() < 0.8:
        c = 0.85 + 0.15 * c                         # the coarser function first, ties decided by another one
    if kind == 'strnc' and c < 0.85:
        fk = 'nocase'
        if c < 0.5:
            pass                                    # the built-in nocase
        elif c < 0.65:
            f['fn'], f['nonone'] = r.choice(['locale_nocase', 'strcoll_nocase']), True
        else:
            f['conv'] = r.choice(CONV_NAMES)        # a nocase of the caller's own
    elif kind in ('str', 'strnc') and r.random() < 0.25:
        fk, f['fn'], f['nonone'] = 'cmp-explicit', r.choice(['locale', 'strcoll']), True
    else:
        c = r.random()
        if c < 0.35:
            fk = 'cmp'
        elif c < 0.5:
            fk = 'cmp-explicit'
        elif c < 0.6:
            fk = 'rcmp'                             # the function named rcmp: -1 / 0 / 1
        else:
            fk = r.choice(['cmp-explicit', 'rcmp'])
            f['conv'] = r.choice(CONV_NAMES)
    if f['nonone'] and not locale_ok():
        f['fn'] = None                              # locale functions not on offer: built-in cmp / nocase
    if f['conv']:
        base = {'cmp-explicit': 'cmp'}.get(fk, fk)
        f['fn'] = 'u_%s_%s' % (base, f['conv'])
        if r.random() < 0.5:
            # an alias: the same name in the same (shared) template means another function next time
            # (in any spelling: names of the namespace are case sensitive and need not be identifiers)
            f['alias'] = r.choice(FN_ALIASES) % i
    f['kind'] = fk
    f['desc'] = r.random() < 0.3
    c = r.random()
    if f['desc']:
        f['dirword'] = 'desc' if c < 0.7 else r.choice(['DESC', 'Desc', 'dESC'])
    else:
        f['dirword'] = None if c < 0.75 else r.choice(['asc', 'ASC', 'Asc', 'aSc'])
    return f


def mk_obj(r, elem_class, eid, attrs):
    """the object that carries the sort keys: a plain instance, or an instance that is also a sequence of 0..3 cells"""
    if elem_class == 'Obj':
        return Obj(eid, **attrs)
    cells = [r.randrange(3) for _ in range(r.choice([0, 1, 2, 2, 2, 3]))]
    return {'Row': Row, 'URow': URow, 'SRow': SRow}[elem_class](cells, eid, **attrs)


def mk_pair(pair_class, key, value):
    return (key, value) if pair_class is tuple else pair_class(key, value)


def gen_case(r, tier):
    n = r.choice([0, 1, 2, 3, 4, 5, 6, 7, 8])
    nfields = r.choice([0, 1, 1, 1, 2, 2, 2, 3])
    fields = []
    for i in range(nfields):
        # an option may name the key of an earlier option again: every option counts, with its own function / direction
        same = r.randrange(len(fields)) if fields and r.random() < 0.3 else None
        if same is not None and fields[same]['same_as'] is not None:
            same = fields[same]['same_as']
        f = gen_field(r, i, tuple(f['name'] for f in fields), same_as=None if same is None else fields[same])
        f['same_as'] = same
        if same is not None and f['nonone']:
            fields[same]['nonone'] = True
        fields.append(f)
    container = r.choice(['obj', 'obj', 'mapping', 'tuple'])
    if nfields == 0:
        container = r.choice(['plain', 'tuple'])
    # what the items of a `mapping` loop are (also as the values of (key, value) pairs)
    mapping_class = None
    if container == 'mapping' or (container == 'tuple' and nfields and r.random() < 0.25):
        mapping_class = r.choice(MAPPING_CLASSES)
    # what a __missing__ hook of the items answers: a key from the middle of the domain of one of the sort keys
    hook_default = mk_key(r.choice(fields)['type'], 1, r)[0] if fields and mapping_class else None
    # distractors: entries under the names a normalised spelling of the option would look up, with keys of the
    # same type that have nothing to do with the real ones
    taken = {f['name'] for f in fields} | {'eid'}
    distract = []
    if r.random() < 0.7:
        for f in fields:
            for v in name_variants(f['name']):
                if v not in taken and r.random() < 0.8:
                    taken.add(v)
                    distract.append((v, f['type']))
    rows, elems = [], []
    elem_class = r.choice(ELEM_CLASSES)
    # (pairs are real tuples only: the rendering loops take `type(x) is tuple` for a pair, sort_sequence
    # `isinstance(x, tuple)`; what a tuple subclass of two members is, is not said by the property)
    pair_class = tuple
    if any(hasattr({'Obj': Obj, 'Row': Row, 'URow': URow, 'SRow': SRow}[elem_class], nm) for nm in taken):
        elem_class = 'Obj'      # a key name that is a method of list / str (sort, reverse, title, ...): not a missing key
    dom = r.choice([2, 3, 4])
    item_kind = r.choice(ITEM_KINDS)
    if item_kind == 'bytes' and nfields == 0:
        container = 'tuple'     # bytes as keys of pairs only: how dtml-var shows bytes is not this property's business
    for eid in range(n):
        row, attrs = [], {}
        for f in fields:
            if f['same_as'] is not None:
                row.append(dict(row[f['same_as']]))     # the same entry of the element, looked at by another option
                continue
            c = r.random()
            code = None if c < 0.12 else ('missing' if c < 0.18 else r.randrange(dom))
            if f['type'] in ('callable', 'callnear') and code == 'missing':
                code = None
            if f['nonone'] and not isinstance(code, int):
                code = r.randrange(dom)     # the locale functions take strings only
            pv, mv = mk_key(f['type'], code, r)
            row.append(mv)
            if code != 'missing':
                attrs[f['name']] = pv
        for v, kind in distract:
            if r.random() < 0.85:
                attrs[v] = mk_key(kind, r.randrange(4), r)[0]
        if nfields == 0:
            code = r.randrange(dom)
            pv, mv = mk_key(item_kind, code, r)
            row = [mv]
            if container == 'plain':
                elems.append(pv)
            else:
                elems.append(mk_pair(pair_class, pv, mk_obj(r, elem_class, eid, {})))
        elif container == 'obj':
            elems.append(mk_obj(r, elem_class, eid, attrs))
        elif container == 'mapping':
            d = dict(attrs)
            d['eid'] = eid
            elems.append(mk_mapping(mapping_class, d, hook_default))
        elif mapping_class:
            d = dict(attrs)
            d['eid'] = eid
            elems.append(mk_pair(pair_class, 'key%d' % eid, mk_mapping(mapping_class, d, hook_default)))
        else:
            elems.append(mk_pair(pair_class, 'key%d' % eid, mk_obj(r, elem_class, eid, attrs)))
        rows.append(row)
    return {'fields': fields, 'rows': rows, 'container': container, 'reverse': r.random() < 0.3,
            'via': r.choice(['sort', 'sort', 'sort_expr']), 'rev_via': r.choice(['reverse', 'reverse_expr']),
            'seqtype': r.choice(['list', 'tuple', 'iter']), 'batch': r.choice([None, None, None, 2, 3]),
            'elems': elems, 'sorted': nfields > 0 or r.random() < 0.8, 'item_kind': item_kind,
            'isort_spelling': r.choice(['', 'sequence-item']), 'fn_via': r.choice(['kw', 'kw', 'client', 'mapping']),
            'distractors': [v for v, _ in distract],
            'elem_class': elem_class if container != 'plain' and not mapping_class else None,
            'mapping_class': mapping_class, 'hook_default': repr(hook_default) if mapping_class else None,
            'pair_class': pair_class.__name__ if container == 'tuple' else None,
            # how the sort attribute is written: sort="spec", sort=spec (when the spec allows it), bare `sort` (empty spec)
            'quoting': r.choice(['quoted', 'quoted', 'unquoted', 'bare']),
            # namespace entries that share the name of a predefined function / a direction word / an attribute of the
            # tag but mean something else: the predefined functions are not looked up in the namespace
            'shadow': r.random() < 0.12}
    # (sort_expr evaluating to 'sequence-item' is not special-cased by the tag; only sort= is)


def spec_of(case):
    if not case['sorted']:
        return None
    return sort_spec(case) if case['fields'] else case['isort_spelling']


def sort_spec(case):
    parts = []
    for f in case['fields']:
        p = f['name']
        k = f.get('alias') or f.get('fn') or {'cmp': None, 'cmp-explicit': 'cmp', 'nocase': 'nocase',
                                              'rcmp': 'rcmp'}[f['kind']]
        word = f.get('dirword') or ('desc' if f['desc'] else None)
        if word:
            p += '/%s/%s' % (k or 'cmp', word)      # "to specify sort order you cannot omit the function"
        elif k:
            p += '/' + k
        parts.append(p)
    return ','.join(parts)


_templates = {}


def template(src):
    # compiled templates are shared between cases on purpose: with sort_expr / reverse_expr the same
    # tag object is rendered with different specs, which exposes state kept on the tag between renderings
    t = _templates.get(src)
    if t is None:
        from DocumentTemplate import HTML
        t = HTML(src)
        _templates[src] = t
    return t


class Hang(Exception):
    pass


def _alarm(*a):
    raise Hang()


HANGS = [0]


def opposite_fn(f):
    """a function that orders the other way round than the one field f asks for (for distractor names)"""
    base = f['fn'].split('_')[1]
    return user_fn('cmp' if base == 'rcmp' else 'rcmp', f['conv'])


def shadow_names():
    """namespace entries named like the predefined functions, the direction words and attributes of the tag"""
    d = {n: rcmp for n in ('cmp', 'nocase', 'locale', 'strcoll', 'locale_nocase', 'strcoll_nocase', 'asc', 'ASC')}
    d.update({'desc': cmp, 'DESC': cmp, 'sort': 'eid', 'sort_expr': 'eid', 'reverse': 1, 'reverse_expr': 1,
              'mapping': 1, 'sequence-item': 'eid'})
    return d


def sort_attr(case, spec):
    """the sort attribute as written in the tag"""
    q = case.get('quoting', 'quoted')
    if q == 'bare' and spec == '':
        return 'sort'
    if q == 'unquoted' and spec and not (set(spec) & UNQUOTABLE):
        return 'sort=%s' % spec
    return 'sort="%s"' % spec


def elem_state(elems):
    """what the elements hold (names and identities of the values), to see whether the rendering wrote to them"""
    out = []
    for e in elems:
        v = e[1] if isinstance(e, tuple) and len(e) == 2 else e
        d = v if isinstance(v, (dict, collections.abc.Mapping)) else getattr(v, '__dict__', None)
        out.append([(k, id(x)) for k, x in d.items()] if d is not None else None)
    return out


def observe(case):
    """a `Hang` is only reported when a second attempt (collector off, a larger allowance for the first ones) does not
    return either: the timers also count the collector's passes over the harness's own objects"""
    obs = _observe(case, None)
    if obs.get('exc', '').startswith('Hang'):
        import gc
        gc.collect()
        was = gc.isenabled()
        gc.disable()
        try:
            obs = _observe(case, 20.0 if HANGS[0] < 2 else 1.0)
        finally:
            if was:
                gc.enable()
        if obs.get('exc', '').startswith('Hang'):
            HANGS[0] += 1
    return obs


def _observe(case, limit):
    attrs = []
    kw = {}
    names = {'rcmp': rcmp}
    for f in case['fields']:
        if f.get('conv'):
            names[f.get('alias') or f['fn']] = user_fn(f['fn'].split('_')[1], f['conv'])
    # other spellings of the functions' names mean the opposite order
    for f in case['fields']:
        if f.get('conv'):
            for v in name_variants(f.get('alias') or f['fn']):
                names.setdefault(v, opposite_fn(f))
    if case.get('shadow'):
        for k, v in shadow_names().items():
            names.setdefault(k, v)
    # where the namespace finds the comparison functions: keyword / attribute of the client / mapping argument
    args = ()
    if case.get('fn_via') == 'client':
        client = Client()
        client.__dict__.update(names)
        args = (client,)
    elif case.get('fn_via') == 'mapping':
        args = (None, dict(names))
    else:
        kw.update(names)
    if case['sorted']:
        spec = sort_spec(case) if case['fields'] else case['isort_spelling']
        if case['via'] == 'sort_expr' and not (not case['fields'] and spec == 'sequence-item'):
            attrs.append('sort_expr="sk"')
            kw['sk'] = spec
        else:
            attrs.append(sort_attr(case, spec))
    if case['reverse']:
        if case['rev_via'] == 'reverse_expr':
            attrs.append('reverse_expr="1==1"')
        else:
            attrs.append('reverse')
    if case.get('mapping_class'):
        attrs.append('mapping')
    if case['batch']:
        attrs.append('size=%d' % case['batch'])
    # plain items show themselves (lists and tuples with ', ' inside): ';' ends an item
    body = '<dtml-var sequence-item>;' if case['container'] == 'plain' else '<dtml-var eid>,'
    src = '<dtml-in L %s>%s</dtml-in>' % (' '.join(attrs), body)
    elems = case['elems']
    snapshot = list(elems)
    state = elem_state(elems)
    L = elems if case['seqtype'] == 'list' else (tuple(elems) if case['seqtype'] == 'tuple' else iter(list(elems)))
    before = copy.copy(L) if case['seqtype'] != 'iter' else None
    # compiling and rendering take milliseconds; what has not returned after 2 s of CPU time (or 20 s of wall time:
    # the machine may be busy with other checks) is taken not to terminate.  Once a few have been seen the others
    # get less time, so a change that makes many of them hang cannot stall the check
    if limit is None:
        limit = 2.0 if HANGS[0] < 3 else 0.25
    old = signal.signal(signal.SIGALRM, _alarm)
    oldv = signal.signal(signal.SIGVTALRM, _alarm)
    signal.setitimer(signal.ITIMER_REAL, limit * 10)
    signal.setitimer(signal.ITIMER_VIRTUAL, limit)
    try:
        out = template(src)(*args, L=L, **kw)
    except Hang:
        return {'src': src, 'exc': 'Hang: no result after %.2f s of CPU time / %.1f s' % (limit, limit * 10)}
    except Exception as e:  # noqa
        return {'src': src, 'exc': type(e).__name__ + ': ' + str(e)[:60]}
    finally:
        signal.setitimer(signal.ITIMER_VIRTUAL, 0)
        signal.setitimer(signal.ITIMER_REAL, 0)
        signal.signal(signal.SIGVTALRM, oldv)
        signal.signal(signal.SIGALRM, old)
    res = {'src': src, 'raw': out}
    if case['container'] == 'plain':
        res['raw_is_item'] = True
    res['mutated'] = (case['seqtype'] != 'iter' and (L != before or any(a is not b for a, b in zip(L, snapshot))))
    res['elems_mutated'] = elem_state(elems) != state or any(a is not b for a, b in zip(elems, snapshot))
    return res


def model_req(case):
    fields = None
    if case['sorted']:
        if case['fields']:
            fields = [{'kind': 'cmp' if f['kind'] == 'cmp-explicit' else f['kind'], 'desc': f['desc']}
                      for f in case['fields']]
        else:
            fields = [{'kind': 'cmp', 'desc': False}]
    return {'op': 'sort', 'fields': fields, 'reverse': case['reverse'], 'rows': case['rows']}


def cmp_path(case):
    """does sort_sequence use SortBy (a '/' in the spec)?  There cmp(None, None) is -1, so the
    fields after a field where both keys are None are never consulted"""
    return bool(case['fields']) and '/' in sort_spec(case)


def keytuple(case, eid):
    cells = []
    for fi, c in enumerate(case['rows'][eid]):
        if c['a'] in ('none', 'missing'):
            cells.append(None)
            if cmp_path(case):
                break
        else:
            k = c['k']
            if case['fields'] and case['fields'][fi]['kind'] == 'nocase' and isinstance(k, str):
                k = k.lower()
            cells.append(k)
    return json.dumps(cells)


def has_none(case, eid):
    return any(c['a'] in ('none', 'missing') for c in case['rows'][eid])


def canon(case, ids):
    """sort ids inside maximal runs of elements whose keys are identical (up to the first None in
    the SortBy path) and contain a None: their mutual order is unspecified
    (`_Smallest < _Smallest` is True, cmp(_Smallest, _Smallest) is -1)"""
    out, i = [], 0
    while i < len(ids):
        j = i
        while j + 1 < len(ids) and keytuple(case, ids[j + 1]) == keytuple(case, ids[i]):
            j += 1
        run = ids[i:j + 1]
        if has_none(case, ids[i]):
            run = sorted(run)
        out += run
        i = j + 1
    return out


def plain_tokens(obs):
    return [t for t in obs['raw'].split(';') if t != '']


def displayed_ids(case, obs):
    toks = [t for t in obs['raw'].split(',') if t != '']
    if case['container'] == 'plain':
        return None    # plain items: the shown *values* are compared (oracle_plain)
    return [int(t) for t in toks]


def pyval(case, eid, fi):
    """python-comparable key of element eid for field fi (None = smallest)"""
    c = case['rows'][eid][fi]
    if c['a'] in ('none', 'missing'):
        return None
    k = c['k']
    if case['sorted'] and case['fields'] and case['fields'][fi]['kind'] == 'nocase' and isinstance(k, str):
        return k.lower()
    return k


def cmp_elts(case, a, b):
    """what the sort spec says about elements a and b, from the key codes alone"""
    nf = len(case['rows'][0]) if case['rows'] else 0
    fields = case['fields'] or [{'kind': 'cmp', 'desc': False}]
    for fi in range(nf):
        x, y = pyval(case, a, fi), pyval(case, b, fi)
        if x is None and y is None:
            if cmp_path(case):
                return 0      # unspecified from here on
            c = 0
        elif x is None:
            c = -1
        elif y is None:
            c = 1
        else:
            c = (x > y) - (x < y)
        if fields[fi]['kind'] == 'rcmp':
            c = -c
        if fields[fi]['desc']:
            c = -c
        if c:
            return c
    return 0


def any_none(case):
    return any(has_none(case, e) for e in range(len(case['rows'])))


def expected_order(case):
    """the one order the property allows when no key is None / missing: Python's stable sort of the
    positions under the spec's comparison, then the exact reverse"""
    want = list(range(len(case['rows'])))
    if case['sorted']:
        want = sorted(want, key=functools.cmp_to_key(lambda a, b: cmp_elts(case, a, b)))
    if case['reverse']:
        want.reverse()
    return want


def oracle_plain(case, obs):
    """plain items show themselves: the shown texts must be those of the expected order (equal keys
    that print differently - 1, 1.0, True - make stability visible)"""
    bad = []
    if obs.get('mutated'):
        bad.append("the caller's sequence was modified")
    if obs.get('elems_mutated'):
        bad.append("the elements of the caller's sequence were modified")
    toks = plain_tokens(obs)
    want = [str(case['elems'][e]) for e in expected_order(case)]
    if case['batch']:
        want = want[:len(toks)]
    if toks != want:
        bad.append('plain items shown as %s, expected %s' % (toks, want))
    return bad


def oracle(case, obs, ids):
    bad = []
    n = len(case['rows'])
    if ids is None:
        return oracle_plain(case, obs)
    if obs.get('mutated'):
        bad.append("the caller's sequence was modified")
    if obs.get('elems_mutated'):
        bad.append("the elements of the caller's sequence were modified")
    full = case['batch'] is None
    if full and sorted(ids) != list(range(n)):
        bad.append('displayed elements %s are not a permutation of 0..%d' % (ids, n - 1))
        return bad
    if not case['sorted']:
        want = list(range(n))
        if case['reverse']:
            want.reverse()
        if case['batch']:
            want = want[:len(ids)]
        if ids != want:
            bad.append('unsorted display order %s, expected %s' % (ids, want))
        return bad
    if not any_none(case):
        # no unspecified mutual order anywhere: exactly one order is right (also for a window of it)
        want = expected_order(case)
        if case['batch']:
            want = want[:len(ids)]
        if ids != want:
            bad.append('shown in the order %s, the stable order by the keys%s is %s' % (
                ids, ' reversed' if case['reverse'] else '', want))
            return bad
    seq = list(reversed(ids)) if case['reverse'] else ids
    if case['reverse'] and case['batch']:
        return bad    # a window of the reversed order with None keys: checked by correspondence only
    fields = case['fields'] or [{'kind': 'cmp', 'desc': False}]
    for a, b in zip(seq, seq[1:]):
        c = cmp_elts(case, a, b)
        if c > 0:
            bad.append('not ordered: element %d shown before %d (keys %s > %s)' % (
                a, b, case['rows'][a], case['rows'][b]))
            break
        if c == 0 and a > b and not has_none(case, a):
            bad.append('not stable: equal keys but element %d shown before %d' % (a, b))
            break
    if fields and not fields[0]['desc'] and fields[0]['kind'] != 'rcmp' and full:
        firsts = [pyval(case, e, 0) is None for e in seq]
        if firsts != sorted(firsts, reverse=True):
            bad.append('elements with a missing/None key do not come first: %s' % seq)
    return bad


def run(res, tier, have_driver):
    r = common.rng('C13')
    res.rule = ('lists of 0..8 elements (objects / mappings / 2-tuples / plain items), 0..2 sort fields with keys '
                'from small domains with duplicates, None and missing, of types int (also beyond 2**64), str, float '
                '(also closer together than 1 and negative), bool, date, Decimal, callable (int and float results), '
                'and numbers that are equal but print differently (1, 1.0, True); plain items and 2-tuple keys of '
                'all these types, plain items compared by their shown text (also against the model); plain items / pair '
                'keys that are themselves sequences of 1..3 members sharing their beginnings: str and str-subclass of 1, 2 '
                'and 3 characters, bytes (pair keys only), lists, tuples of 1 and 3 members (only a real 2-tuple is a pair); pairs as '
                'tuple or named tuple; the objects carrying the sort keys are plain instances or instances that are '
                'also sequences of 0..3 cells (list subclass, UserList, str subclass: record rows); comparison function cmp / nocase / '
                'locale / strcoll / locale_nocase / strcoll_nocase / a function from the namespace with the meaning '
                'of cmp, reversed cmp or nocase that reports negative-zero-positive as -1/0/1, float, fraction below '
                '1, 1e-9, Fraction, Decimal, 2**70, infinity, -0.0 for equal, or as the difference of the keys (a - b; '
                'dates: weeks), found as keyword / client attribute / mapping entry, under its own name or an alias '
                'that is bound to another function in the next rendering of the same compiled template; asc / desc '
                'in every spelling (omitted, asc, ASC, Asc, desc, DESC, Desc), sort= and sort_expr=, reverse / '
                'reverse_expr, list / tuple / iterator, optional batch; names of the sort keys (attribute / mapping key / '
                'method) taken as spelled: k0, mixed case (Title, getRank, sortKey, UPPER), words of the option grammar '
                '(cmp, nocase, asc, desc, DESC, locale, reverse, sort, description), punctuation / digits (sort-key, _k, '
                'a.b, 9k, k%s, &dtml-k;), white space inside (quoted or sort_expr only), non-ASCII (Größe, İd, ключ, ǅ, ß, '
                'full-width, astral, decomposed accents), 220..301 characters long, two options whose names differ in '
                'case only; in 70% of the cases the elements carry distractor entries with unrelated keys under the '
                'lower / upper / swapcase / title / capitalize / casefold / NFKC / NFKD / stripped / hyphen<->underscore '
                'spellings of every key name; caller-supplied comparison functions under mixed-case, hyphenated, dotted '
                'and non-ASCII names, the other spellings of these names bound to a function with the opposite order; '
                'in 12% of the cases the namespace binds cmp / nocase / locale / strcoll / asc / desc / sort / reverse / '
                'mapping to something else (predefined names are not looked up); the sort attribute written quoted, '
                'unquoted (when the spec has no white space) or bare (empty spec); every compilation + rendering under a '
                'limit of 2 s CPU time / 20 s (no result = failure); the elements themselves (attribute dicts / mappings) must be left as '
                'they were; the items of a mapping loop (also as values of (key, value) pairs) are dict / OrderedDict / UserDict / '
                'defaultdict / Counter / a dict subclass with __missing__ (the hook answers a key from the middle of the domain: an item '
                'lacking the key still comes first and is not written to); 0..3 sort options, an option naming the key of an earlier '
                'option again with a function / direction of its own (k/nocase,k ; k,k/rcmp/desc ; ...: every option counts); '
                'when no key is None the shown order '
                '(also a batch window, also reversed) must equal the unique stable order; non-trivial = distinct '
                'case with >= 3 elements, a sort field and at least one duplicate or None key')
    n = 8000 if tier == 'quick' else 160000
    cases, obss, reqs = [], [], []
    for _ in range(n):
        if HANGS[0] >= 20:
            res.count('stopped_after_20_renderings_without_result')
            break       # each of them is a reported failure; more of them would only cost their time limits
        case = gen_case(r, tier)
        obs = observe(case)
        cases.append(case)
        obss.append(obs)
        res.evaluations += 1
        res.count('fields=%d' % len(case['fields']))
        res.count('container=' + case['container'])
        for f in case['fields']:
            res.count('keytype=' + f['type'])
            res.count('cmp=' + f['kind'] + ('/desc' if f['desc'] else ''))
            if f.get('conv'):
                res.count('userfn_returns=' + f['conv'])
                res.count('userfn_name=' + ('alias' if f.get('alias') else 'own'))
                res.count('userfn_via=' + case['fn_via'])
                if f['conv'] == 'diff' and f['type'] in ('floatnear', 'callnear', 'Decimal', 'num', 'date'):
                    res.count('userfn_difference_below_1_possible')
            elif f.get('fn'):
                res.count('builtin_fn=' + f['fn'])
            res.count('direction_word=%s' % f.get('dirword'))
            res.count('keyname=' + f['name_class'])
            if f['name'] != f['name'].lower():
                res.count('keyname_not_lowercase' + ('_with_slash_in_spec' if cmp_path(case) else '_plain_spec'))
            if f.get('alias') and f['alias'] != f['alias'].lower():
                res.count('userfn_alias_not_lowercase')
        if case['distractors']:
            res.count('with_distractor_names')
        if case['shadow']:
            res.count('namespace_shadows_predefined_names')
        if case['sorted'] and 'sort_expr' not in obs['src']:
            a = obs['src'].split(' ')[2]
            res.count('sort_attr=' + ('bare' if a.startswith('sort>') or a == 'sort' else
                                      'quoted' if a.startswith('sort="') else 'unquoted'))
        if not case['fields']:
            res.count('item_keytype=' + case['item_kind'])
            if case['sorted'] and case['container'] == 'plain':
                res.count('plain_sorted_item_lengths=' + ','.join(sorted({
                    str(len(e)) if hasattr(e, '__len__') else '-' for e in case['elems']})))
        if case.get('elem_class'):
            res.count('elem_class=' + case['elem_class'])
        if case.get('mapping_class'):
            res.count('mapping_items=' + case['mapping_class'] + ('_in_pairs' if case['container'] == 'tuple' else ''))
            if case['mapping_class'] in ('defaultdict', 'Counter', 'MissingDict') and case['sorted'] and any(
                    c['a'] == 'missing' for row in case['rows'] for c in row):
                res.count('mapping_items_with_missing_hook_lack_a_sort_key')
        same = [f for f in case['fields'] if f.get('same_as') is not None]
        for f in same:
            g = case['fields'][f['same_as']]
            res.count('same_key_twice=%s%s_then_%s%s' % (g['kind'], '/desc' if g['desc'] else '', f['kind'],
                                                         '/desc' if f['desc'] else ''))
        if case.get('pair_class'):
            res.count('pair_class=' + case['pair_class'])
        if case['sorted'] and 'exc' not in obs and not any_none(case):
            res.count('exact_order_compared')
        reqs.append(model_req(case))
        if 'exc' in obs:
            nocase_none = any(f['kind'] == 'nocase' and any(row[i]['a'] in ('none', 'missing') for row in case['rows'])
                              for i, f in enumerate(case['fields']))
            if nocase_none and 'AttributeError' in obs['exc']:
                res.known_hits.setdefault('C13-nocase-none', {'src': obs['src'], 'rows': case['rows'][:4]})
                res.count('known:C13-nocase-none')
            else:
                res.oracle_fail.append({'case': {k: v for k, v in case.items() if k != 'elems'},
                                        'what': 'rendering raised ' + obs['exc'], 'src': obs['src'],
                                        'sort_spec': spec_of(case), 'elems': repr(case['elems'])[:1500]})
            continue
        ids = displayed_ids(case, obs)
        for f in oracle(case, obs, ids):
            res.oracle_fail.append({'case': {k: v for k, v in case.items() if k != 'elems'}, 'what': f,
                                    'src': obs['src'], 'sort_spec': spec_of(case), 'shown': ids,
                                    'shown_raw': obs['raw'], 'elems': repr(case['elems'])[:1500]})
        keys = [keytuple(case, e) for e in range(len(case['rows']))]
        if len(keys) >= 3 and case['sorted'] and (len(set(keys)) < len(keys) or any(has_none(case, e) for e in range(len(keys)))):
            res.nt((obs['src'], spec_of(case), tuple(keys)))
    for i in sorted({0, min(7, len(cases) - 1), len(cases) // 2, len(cases) - 1}):
        c = {k: v for k, v in cases[i].items() if k != 'elems'}
        res.sample({'case': c, 'observation': {k: v for k, v in obss[i].items()}})
    if have_driver:
        resp = common.run_driver(reqs)
        for case, obs, rp in zip(cases, obss, resp):
            if 'ok' not in rp:
                res.harness_errors.append('driver: %r' % (rp,))
                break
            if 'exc' in obs:
                continue
            ids = displayed_ids(case, obs)
            if ids is None:
                # plain items (no None keys among them): the texts of the model's order against the shown ones
                toks = plain_tokens(obs)
                m = [str(case['elems'][e]) for e in rp['ok']]
                if case['batch']:
                    m = m[:len(toks)]
                res.corr_checked += 1
                res.count('plain_items_correspondence')
                if toks != m:
                    res.corr_mismatch.append({'case': {k: v for k, v in case.items() if k != 'elems'}, 'impl': toks,
                                              'model': m, 'diff': 'display order of plain items', 'src': obs['src']})
                continue
            m = rp['ok']
            if case['batch']:
                m = m[:len(ids)] if len(ids) <= case['batch'] else m
                if any(has_none(case, e) for e in set(ids) | set(m)):
                    res.count('batch_window_cuts_none_group_skipped')
                    continue      # which members of the None group fall into the window is unspecified
            res.corr_checked += 1
            if canon(case, ids) != canon(case, m):
                res.corr_mismatch.append({'case': {k: v for k, v in case.items() if k != 'elems'},
                                          'impl': ids, 'model': m, 'diff': 'display order', 'src': obs['src']})
    res.partial.append('/nocase with a None key raises AttributeError: known finding C13-nocase-none')
    res.assumptions += ['CPython list.sort is stable and consistent with < on homogeneous keys (trusted); model uses '
                        "List.mergeSort; the mutual order of None-keyed elements is canonicalised away",
                        'non-string keys enter the model through an order-preserving integer code']


def search_more(res, tier):
    r = common.rng('C13-more')
    found = []
    for _ in range(4000):
        if HANGS[0] >= 25:
            break
        case = gen_case(r, tier)
        obs = observe(case)
        if 'exc' in obs:
            if obs['exc'].startswith('Hang'):
                found.append({'case': {k: v for k, v in case.items() if k != 'elems'}, 'what': 'rendering: ' + obs['exc'],
                              'src': obs['src'], 'sort_spec': spec_of(case), 'elems': repr(case['elems'])[:1500]})
            continue
        for f in oracle(case, obs, displayed_ids(case, obs)):
            found.append({'case': {k: v for k, v in case.items() if k != 'elems'}, 'what': f, 'src': obs['src'],
                          'sort_spec': spec_of(case), 'shown_raw': obs['raw'], 'elems': repr(case['elems'])[:1500]})
        if len(found) > 3:
            break
    return found


def replay(path):
    print('replay: re-run bin/check C13 with the same VERIF_SEED; case is printed in the replay file')
    return 1
