"""C20 — tree state survives its cookie encoding and tracks expand/collapse clicks.

Correspondence: Lean `TreeCodec.encodeStr/decodeStr` vs TreeTag.encode_str / decode path, and
Lean `TreeState` (apply_diff, rows, links, expand_all) vs the real `<dtml-tree>` driven through the
links it generates.  Oracle: a set-of-paths reference in Python and an independent cookie decoder.
"""
import base64
import itertools
import json
import re
import zlib

import common


# --------------------------------------------------------------------------- codec

def indep_decode(text):
    """decode a tree cookie / link value without TreeTag: url-safe '-' for '+', no padding"""
    s = text.replace('-', '+')
    s += '=' * (-len(s) % 4)
    return json.loads(zlib.decompress(base64.b64decode(s)).decode('utf-8'))


def codec_part(res, r, tier, have_driver):
    import TreeDisplay.TreeTag as TT
    lens = list(range(0, 401)) if tier == 'thorough' else list(range(0, 130)) + [170, 171, 172, 227, 228, 229, 399, 400]
    blobs = []
    for n in lens:
        blobs.append(bytes(r.randrange(256) for _ in range(n)))
        if n % 7 == 0:
            blobs.append(bytes([0xfb, 0xef, 0xbe] * (n // 3)) + b'\xff' * (n % 3))   # encodes to '+', '/'
    reqs = []
    orig_dec, orig_loads = TT.decompress, TT.json.loads
    for b in blobs:
        enc = TT.encode_str(b)
        res.evaluations += 1
        # real decode path up to decompress: patch decompress/json to expose the bytes
        try:
            TT.decompress = lambda x: json.dumps(list(x))
            back = bytes(TT.decode_seq(enc.decode('ascii')))
        finally:
            TT.decompress = orig_dec
        if back != b:
            res.oracle_fail.append({'case': {'bytes_hex': b.hex()}, 'what': 'decode(encode(bytes)) != bytes '
                                    '(len %d): got %d bytes' % (len(b), len(back))})
        ref = base64.b64encode(b).decode('ascii').rstrip('=').replace('+', '-')
        if enc.decode('ascii') != ref:
            res.oracle_fail.append({'case': {'bytes_hex': b.hex()}, 'what': 'encoding differs from url-safe '
                                    'unpadded base64: %r vs %r' % (enc[:40], ref[:40])})
        reqs.append(({'op': 'b64', 'bytes': list(b)}, b, enc.decode('ascii')))
        res.count('codec_len_%s' % ('le57' if len(b) <= 57 else 'gt57'))
        if len(b) > 57:
            res.nt(('codec', len(b)))
    # states of every size and with odd ids through the whole cookie codec
    for n in range(0, 40 if tier == 'quick' else 200):
        ids = ['n%d' % i for i in range(n)] + ['nöde-é中', 'x' * 80, 'a"b\\c', '']
        state = [['root', [[i, []] for i in ids[:n + 1]]]]
        c = TT.encode_seq(state)
        res.evaluations += 1
        if TT.decode_seq(c) != state or indep_decode(c) != state:
            res.oracle_fail.append({'case': {'state': state}, 'what': 'cookie round trip changed the state'})
    if have_driver:
        resp = common.run_driver([q for q, _, _ in reqs])
        for (q, b, enc), rp in zip(reqs, resp):
            res.corr_checked += 1
            m = rp.get('ok')
            if not m or m['enc'] != enc or m['dec'] != list(b):
                res.corr_mismatch.append({'case': {'bytes_hex': b.hex()}, 'impl': enc[:60],
                                          'model': (m or rp), 'diff': 'codec'})


# --------------------------------------------------------------------------- tree state

class Node:
    def __init__(self, nid, kids):
        self.nid = nid
        self.kids = kids

    def tpValues(self):
        return self.kids

    def tpId(self):
        return self.nid

    def tpURL(self):
        return 'u'


class Doc:
    """a leaf object without a tpValues method (a document among folders): the tag supports it through hasattr()"""
    kids = ()

    def __init__(self, nid):
        self.nid = nid

    def tpId(self):
        return self.nid

    def tpURL(self):
        return 'u'


class Resp:
    def __init__(self):
        self.cookies = {}

    def setCookie(self, k, v, **kw):
        self.cookies[k] = v


ROW = re.compile(r'<tr>(.*?)</tr>', re.S)
LINK = re.compile(r'<a name="([^"]*)" href="([^"?]*)\?(tree-[ec])=([^#"]*)#([^"]*)">')
TEXT = re.compile(r'\[\[(.*?)\]\]', re.S)
_tmpl = []


def render(root, cookie, param, assume=False):
    from DocumentTemplate import HTML
    if not _tmpl:
        _tmpl.append(HTML('<dtml-tree>[[<dtml-var nid>]]</dtml-tree>'))
        _tmpl.append(HTML('<dtml-tree assume_children=1>[[<dtml-var nid>]]</dtml-tree>'))
    resp = Resp()
    md = {'URL': 'http://host/app/tree', 'RESPONSE': resp}
    if cookie is not None:
        md['tree-s'] = cookie
    if param:
        md[param[0]] = param[1]
    out = _tmpl[1 if assume else 0](root, md)
    rows = []
    for m in ROW.finditer(out):
        cell = m.group(1)
        t = TEXT.search(cell)
        lk = LINK.search(cell)
        row = {'id': t.group(1) if t else None, 'links': len(LINK.findall(cell))}
        if lk:
            row['kind'] = lk.group(3)
            row['enc'] = lk.group(4)
            row['path'] = indep_decode(lk.group(4))
            row['anchor'] = (lk.group(1), lk.group(5))
        rows.append(row)
    return rows, resp.cookies.get('tree-s')


def gen_trees(tier, r):
    """all tree shapes with up to 7 nodes and depth <= 4 (thorough) / a seeded sample (quick)"""
    shapes = []

    def trees(n, depth):
        # ordered trees with n nodes, height <= depth
        if n == 1:
            return [[]]
        if depth == 0:
            return []
        res = []
        for parts in compositions(n - 1):
            opts = [trees(p, depth - 1) for p in parts]
            if any(not o for o in opts):
                continue
            for combo in itertools.product(*opts):
                res.append(list(combo))
        return res

    def compositions(n):
        if n == 0:
            return [[]]
        out = []
        for first in range(1, n + 1):
            for rest in compositions(n - first):
                out.append([first] + rest)
        return out
    for n in range(1, 8):
        for t in trees(n, 4):
            shapes.append(t)
    if tier == 'quick':
        r.shuffle(shapes)
        shapes = shapes[:200]
    return shapes


def label(shape, names, docs=False):
    """shape (nested lists of children) -> Node tree with ids from names (preorder); with docs, leaves lack tpValues"""
    counter = itertools.count()

    def mk(kids, top=False):
        i = next(counter)
        if docs and not kids and not top:
            return Doc(names(i))
        return Node(names(i), [mk(k) for k in kids])
    return mk(shape, True)


def to_model(node, idmap):
    return [idmap[node.nid], [to_model(k, idmap) for k in node.kids]]


def all_nodes(node):
    yield node
    for k in node.kids:
        yield from all_nodes(k)


def expected_rows(root, expanded, assume=False):
    rows = []

    def walk(node, path):
        p = path + (node.nid,)
        # with assume_children a node that has not been expanded is ASSUMED to have children and carries an expand link;
        # once expanded, the tag knows: a childless node then shows nothing below it and carries no link any more
        has = bool(node.kids) or (assume and p not in expanded)
        exp = bool(node.kids) and p in expanded
        rows.append((node.nid, has, exp, p))
        if exp:
            for k in node.kids:
                walk(k, p)
    for k in root.kids:
        walk(k, (root.nid,))
    return rows


def state_paths(state):
    out = set()

    def walk(entries, pre):
        for e in entries:
            p = pre + (e[0],)
            out.add(p)
            if len(e) > 1:
                walk(e[1], p)
    walk(state, ())
    return out


def run_history(res, root, history_picker, steps, start, r, assume=False):
    """drive the real tag through `steps` clicks; returns (model request, impl snapshots)"""
    idmap = {n.nid: i for i, n in enumerate(all_nodes(root))}
    expanded = set()
    if start == 'expand_all':
        rows, cookie = render(root, None, ('expand_all', 1), assume)
        expanded = {p for p in paths_with_kids(root)}
    else:
        rows, cookie = render(root, None, None, assume)
    snaps = [(rows, cookie)]
    clicks = []
    check_snapshot(res, root, rows, cookie, expanded, clicks, assume)
    for _ in range(steps):
        linked = [row for row in rows if 'kind' in row]
        choice = history_picker(linked, rows)
        if choice is None:
            break
        if choice in ('expand_all', 'collapse_all'):
            rows, cookie = render(root, cookie, (choice, 1), assume)
            expanded = {p for p in paths_with_kids(root)} if choice == 'expand_all' else set()
            clicks.append({'kind': choice})
        else:
            path = tuple(choice['path'])
            kind = 'e' if choice['kind'] == 'tree-e' else 'c'
            rows, cookie = render(root, cookie, (choice['kind'], choice['enc']), assume)
            if kind == 'e':
                expanded.add(path)
            else:
                expanded = {p for p in expanded if p[:len(path)] != path}
            clicks.append({'kind': kind, 'path': [idmap[x] for x in path]})
        res.evaluations += 1
        snaps.append((rows, cookie))
        check_snapshot(res, root, rows, cookie, expanded, clicks, assume)
    req = {'op': 'tree', 'start': start, 'tree': to_model(root, idmap), 'clicks': clicks}
    return req, snaps, idmap


def paths_with_kids(root):
    out = []

    def walk(node, path):
        p = path + (node.nid,)
        if node.kids:
            out.append(p)
        for k in node.kids:
            walk(k, p)
    for k in root.kids:
        walk(k, (root.nid,))
    return out


def check_snapshot(res, root, rows, cookie, expanded, clicks, assume=False):
    """the property on the implementation, against the set-of-paths reference"""
    def fail(what):
        res.oracle_fail.append({'case': {'tree': repr_tree(root), 'clicks': clicks, 'assume_children': assume,
                                         'leaves_without_tpValues': any(isinstance(n, Doc) for n in all_nodes(root))},
                                'what': what})
    want = expected_rows(root, expanded, assume)
    got = [(row['id'], 'kind' in row, row.get('kind') == 'tree-c', tuple(row['path']) if 'path' in row else None)
           for row in rows]
    if [g[0] for g in got] != [w[0] for w in want]:
        fail('rows shown %s, expected %s' % ([g[0] for g in got], [w[0] for w in want]))
        return
    for g, w, row in zip(got, want, rows):
        if g[1] != w[1] or row['links'] != (1 if w[1] else 0):
            fail('node %r: %d links, has children=%s' % (g[0], row['links'], w[1]))
        elif w[1]:
            if g[3] != w[3]:
                fail('link of node %r encodes path %s, expected %s' % (g[0], g[3], w[3]))
            if g[2] != w[2]:
                fail('link of node %r is %s but the node is %s' % (
                    g[0], 'collapse' if g[2] else 'expand', 'expanded' if w[2] else 'collapsed'))
    if cookie is None:
        fail('no state cookie written')
        return
    st = indep_decode(cookie)
    sp = {p for p in state_paths(st) if len(p) > 1}
    # only what can be seen counts: expansion recorded under a collapsed ancestor must be gone
    if sp != set(expanded):
        fail('cookie describes %s, expected %s' % (sorted(sp), sorted(expanded)))


def repr_tree(node):
    return [node.nid, [repr_tree(k) for k in node.kids]]


def run(res, tier, have_driver):
    r = common.rng('C20')
    res.rule = ('codec: byte strings of every length 0..129 (thorough 0..400) plus boundary lengths, url-unsafe '
                'patterns, states with long / non-ASCII / empty ids; state: tree shapes with <= 7 nodes and depth <= 4 '
                '(quick: 200 seeded shapes; thorough: all), click histories on the links the tag generated '
                '(exhaustive breadth-first up to depth 4 quick / 5 thorough on small trees, random up to 40 on larger '
                'random trees), expand_all / collapse_all; non-trivial = history with >= 2 clicks of which one collapses '
                'a node with an expanded descendant, or codec input > 57 bytes')
    codec_part(res, r, tier, have_driver)
    shapes = gen_trees(tier, r)
    reqs = []
    names_plain = lambda i: 'n%d' % i   # noqa
    names_odd = lambda i: ['r', 'nöde é', 'x' * 60, 'a-b', '0', 'Z z', 'ü', 'q'][i % 8] + str(i)  # noqa
    depth = 4 if tier == 'quick' else 5
    for si, shape in enumerate(shapes):
        root = label([shape] if False else shape, names_odd if si % 3 == 0 else names_plain, docs=si % 4 == 1)
        res.count('tree_nodes=%d' % sum(1 for _ in all_nodes(root)))
        # breadth-first exhaustive histories (indices into the linked rows), bounded fan-out
        frontier = [[]]
        for d in range(depth):
            nxt = []
            for hist in frontier:
                it = iter(hist)

                def picker(linked, rows, it=it):
                    try:
                        i = next(it)
                    except StopIteration:
                        return None
                    return linked[i] if i < len(linked) else None
                req, snaps, idmap = run_history(res, root, picker, len(hist), 'init', r)
                reqs.append((req, snaps, idmap))
                nlinks = len([row for row in snaps[-1][0] if 'kind' in row])
                for i in range(nlinks):
                    nxt.append(hist + [i])
                if len(hist) >= 2:
                    res.nt((si, tuple(hist)))
            frontier = nxt[:60 if tier == 'quick' else 400]
    # larger random trees, long random histories incl. expand_all / collapse_all
    for t in range(80 if tier == 'quick' else 600):
        def rand_shape(depth_left, budget):
            kids = []
            while budget[0] > 0 and depth_left > 0 and r.random() < 0.6:
                budget[0] -= 1
                kids.append(rand_shape(depth_left - 1, budget))
            return kids
        root = label(rand_shape(5, [r.randint(5, 25)]), names_odd if t % 2 else names_plain, docs=t % 3 == 0)

        def picker(linked, rows):
            c = r.random()
            if c < 0.05:
                return 'expand_all'
            if c < 0.08:
                return 'collapse_all'
            return r.choice(linked) if linked else None
        req, snaps, idmap = run_history(res, root, picker, 40, r.choice(['init', 'init', 'expand_all']), r)
        reqs.append((req, snaps, idmap))
        res.nt(('random', t))
        res.count('random_histories')
    # assume_children: every node has a link; expanding a childless node changes only the state (oracle only: outside the model)
    for t in range(60 if tier == 'quick' else 500):
        def rand_shape2(depth_left, budget):
            kids = []
            while budget[0] > 0 and depth_left > 0 and r.random() < 0.6:
                budget[0] -= 1
                kids.append(rand_shape2(depth_left - 1, budget))
            return kids
        root = label(rand_shape2(4, [r.randint(3, 12)]), names_plain, docs=t % 2 == 0)

        def picker2(linked, rows):
            return r.choice(linked) if linked else None
        run_history(res, root, picker2, 14, 'init', r, assume=True)
        res.nt(('assume_children', t))
        res.count('assume_children_histories')
    res.sample({'model_request': reqs[5][0], 'impl_rows_after_last_click': reqs[5][1][-1][0]})
    res.sample({'model_request': reqs[-1][0]})
    if have_driver:
        resp = common.run_driver([q for q, _, _ in reqs])
        for (q, snaps, idmap), rp in zip(reqs, resp):
            if 'ok' not in rp:
                res.harness_errors.append('driver: %r' % (rp,))
                break
            res.corr_checked += 1
            msnaps = rp['ok']
            if len(msnaps) != len(snaps):
                res.corr_mismatch.append({'case': q, 'impl': len(snaps), 'model': len(msnaps), 'diff': 'snapshot count'})
                continue
            for k, ((rows, cookie), ms) in enumerate(zip(snaps, msnaps)):
                irows = [[idmap[row['id']], 'kind' in row, row.get('kind') == 'tree-c'] +
                         ([[idmap[x] for x in row['path']]] if 'path' in row else [None]) for row in rows]
                mrows = [[x[0], x[1], x[2], x[3] if x[1] else None] for x in ms['rows']]
                ipaths = sorted([idmap[x] for x in p] for p in state_paths(indep_decode(cookie))) if cookie else None
                mpaths = sorted(ms['paths'])
                if irows != mrows or ipaths != mpaths:
                    res.corr_mismatch.append({'case': q, 'step': k, 'impl': {'rows': irows, 'paths': ipaths},
                                              'model': {'rows': mrows, 'paths': mpaths}, 'diff': 'rows/state'})
                    break
    res.assumptions += ['zlib, json and binascii are external: the codec theorem has their round-trip laws as '
                        'hypotheses; the harness decodes links and cookies with an independent decoder',
                        'clicks are restricted to links the tag generated (the property\'s quantifier)']
    res.partial.append('state-machine refinement (history_invariant) is validated by correspondence and the '
                       'set-of-paths oracle; the codec round trip is proved for all byte strings')


def search_more(res, tier):
    r2 = common.Result('C20')
    run(r2, 'quick', False)
    return r2.oracle_fail[:5]


def replay(path):
    print('re-run bin/check C20 with the same VERIF_SEED; the failing tree and click list are in the replay file')
    return 1
