"""C20 — tree state survives its cookie encoding and tracks expand/collapse clicks.

Correspondence: Lean `TreeCodec.encodeStr/decodeStr` vs TreeTag.encode_str / decode path, and
Lean `TreeState` (apply_diff, rows, links, expand_all) vs the real `<dtml-tree>` driven through the
links it generates.  Oracle: a set-of-paths reference in Python and an independent cookie decoder.
"""
import base64
import collections
import itertools
import json
import re
import signal
import threading
import zlib

import common


# --------------------------------------------------------------------------- time limit
#
# Nothing of the code under test is waited for without bound: every compilation, rendering and codec call runs under a
# watchdog.  The alarm raises a BaseException (the tag swallows `Exception` in places), which is turned into an ordinary
# exception outside the library: the callers report it like any other failed request.  After a few of them the search
# is given up (the failures found so far are the verdict).

LIMIT = 10.0
MAX_HANGS = 3
_hangs = [0]


class _Alarm(BaseException):
    pass


class DidNotReturn(Exception):
    pass


class GiveUp(BaseException):
    pass


def _on_alarm(signum, frame):
    raise _Alarm()


def limited(fn, *a, **kw):
    """fn(*a, **kw) with a time limit; DidNotReturn when it is exceeded"""
    if _hangs[0] >= MAX_HANGS:
        raise GiveUp()
    if threading.current_thread() is not threading.main_thread():
        return fn(*a, **kw)
    # CPU time of this process (a machine busy with the other checks must not look like a request that does not return),
    # with a wall-clock allowance of six times that as the backstop for a request that blocks without computing
    old = signal.signal(signal.SIGALRM, _on_alarm)
    oldv = signal.signal(signal.SIGVTALRM, _on_alarm)
    signal.setitimer(signal.ITIMER_REAL, 6 * LIMIT)
    signal.setitimer(signal.ITIMER_VIRTUAL, LIMIT)
    try:
        try:
            return fn(*a, **kw)
        finally:
            signal.setitimer(signal.ITIMER_VIRTUAL, 0)
            signal.setitimer(signal.ITIMER_REAL, 0)
            signal.signal(signal.SIGVTALRM, oldv)
            signal.signal(signal.SIGALRM, old)
    except _Alarm:
        _hangs[0] += 1
        raise DidNotReturn('no result within %g s of CPU time / %g s (time limit)' % (LIMIT, 6 * LIMIT)) from None


# --------------------------------------------------------------------------- codec

def indep_decode(text):
    """decode a tree cookie / link value without TreeTag: url-safe '-' for '+', no padding; the text inside is JSON in
    UTF-8 (lone surrogates, which JSON may carry escaped or a lenient encoder raw, are accepted either way)"""
    s = text.replace('-', '+')
    s += '=' * (-len(s) % 4)
    return json.loads(zlib.decompress(base64.b64decode(s)).decode('utf-8', 'surrogatepass'))


SCALAR = (str, int, float, type(None))      # what an id may be: the JSON scalars (bool is an int)


def link_path(text):
    """the path a link value encodes; a value that cannot be decoded is a path no node has"""
    try:
        path = indep_decode(text)
        return path if isinstance(path, list) and all(isinstance(x, SCALAR) for x in path) else ['<not a path>']
    except Exception:
        return ['<undecodable>']


# ---- node ids of every kind ("for ... any node ids")
#
# An id is whatever the id method of the application's object returns and JSON can carry as a scalar.  Strings are built
# from atoms of nine categories (every code-point class of Python's str, and every character that means something to one
# of the layers an id travels through: JSON text, UTF-8, zlib, base64, a URL query, a cookie, HTML attributes);
# non-strings are the other JSON scalars.  The expected behaviour is the same for all of them: the id is opaque.
ID_ATOMS = collections.OrderedDict([
    # unpaired surrogates: what os.listdir / os.fsdecode hand out for file names that are not valid UTF-8
    ('surrogate', ['\udce9', '\udc80', '\udcff', '\udfff', '\udc00', '\ud800', '\udbff', '\udc00\ud800',
                   '\udcff\udcfe']),
    ('astral', ['\U0001f600', '\U00010000', '\U0010ffff', '\U0001f1e9\U0001f1ea', '\U000e0041']),
    ('bmp', ['\uffff', '\ufffe', '\ufeff', '\ufffd', '\u2028', '\u2029', '\u0100', '\u07ff', '\u0800', '\ud7ff',
             '\ue000', '\u4e2d', '\u200b', '\u202e', '\u3000']),
    ('latin1', ['\xe9', 'e\u0301', '\x7f', '\x80', '\x9f', '\xa0', '\xad', '\xff', '\xdf', '\u0130']),
    ('control', ['\x00', '\x01', '\t', '\n', '\r', '\r\n', '\x0b', '\x0c', '\x1b', '\x1f']),
    ('json', ['"', '\\', '\\u0041', '\\n', '\\"', '/', '\\/', 'null', 'true', '[]', '[1,2]', '{"a":1}', '1e5', ',']),
    ('markup', ['<', '>', '&', '&amp;', '&#233;', '&lt;b&gt;', "'", '<b>', '<!--', '-->']),
    ('url', ['%', '%41', '%00', '+', '-', '=', '?', '#', ';', '&x=1', '..', '~', 'tree-e=', ':', '@']),
    ('alike', ['', ' ', '  ', ' a', 'a ', 'a', 'A', 'root', 'Root', '0', '00', '1', '01', '1.0', 'None', 'tree-s']),
])
# what the page parser of this harness keys on (and a high surrogate followed by a low one, which JSON reads as ONE
# character: left out, see `partial`)
ID_FORBIDDEN = re.compile(r'<a|</?tr|href=|<i title|\[\[|\]\]|[\ud800-\udbff][\udc00-\udfff]')
# the other JSON scalars, and strings that look like them
ID_SCALARS = [0, 1, -1, 7, 10, 2 ** 31, 2 ** 53 + 1, 2 ** 64, -2 ** 70, 10 ** 30, 0.5, -2.25, 1e300, 1e-7, 5e-324, 0.1,
              1.0000000000000002, -0.0, 3.0, None, True, False, '', '0', '1', '-1', '0.5', 'None', 'null', 'True', '3.0', ' 1']
ID_FALSY = ['', 0, None, False, 0.0]


def wild_id(r, cat, taken):
    """a string id containing at least one atom of category `cat` (None: any), not equal to any id in `taken`"""
    cats = list(ID_ATOMS)
    for attempt in range(200):
        parts = [r.choice(ID_ATOMS[cat or r.choice(cats)])]
        for _ in range(r.choice((0, 0, 1, 1, 2, 3))):
            parts.append(r.choice(ID_ATOMS[r.choice(cats)]) if r.random() < 0.6 else r.choice(('a', 'B', '7', 'x-y', '_')))
        r.shuffle(parts)
        s = ''.join(parts)
        if r.random() < 0.12:
            s = s * r.randint(10, 60)       # long ids: cookies and links beyond the 57 / 76 byte lines of the codec
        if attempt > 100:
            s += str(attempt)
        if not ID_FORBIDDEN.search(s) and s not in taken:
            return s
    return 'id%d' % len(taken)


def scalar_ids(r, n, avoid=()):
    """n ids among the JSON scalars, pairwise different under == (1 == 1.0 == True is ONE id)"""
    out = []
    pool = list(ID_SCALARS)
    r.shuffle(pool)
    for v in pool:
        if len(out) >= n:
            break
        if not any(v == o for o in out + list(avoid)):
            out.append(v)
    k = 100
    while len(out) < n:
        k += 1
        out.append(k if k % 2 else k + 0.5)
    return out


def cookie_paths(cookie):
    """the set of expanded paths a state cookie describes, or None when it cannot be decoded"""
    try:
        return state_paths(indep_decode(cookie))
    except Exception:
        return None


def same_state(a, b):
    """equal, and equal in type at every id (1 and 1.0 and True are different things to have come back)"""
    if isinstance(a, (list, tuple)) and isinstance(b, (list, tuple)):
        return len(a) == len(b) and all(same_state(x, y) for x, y in zip(a, b))
    return type(a) is type(b) and a == b and repr(a) == repr(b)


def codec_part(res, r, tier, have_driver):
    import TreeDisplay.TreeTag as TT
    lens = list(range(0, 401)) if tier == 'thorough' else list(range(0, 130)) + [170, 171, 172, 227, 228, 229, 399, 400]
    blobs = []
    for n in lens:
        blobs.append(bytes(r.randrange(256) for _ in range(n)))
        if n % 7 == 0:
            blobs.append(bytes([0xfb, 0xef, 0xbe] * (n // 3)) + b'\xff' * (n % 3))   # encodes to '+', '/'
    reqs = []
    orig_dec, orig_loads = TT.decompress, TT.json.loads
    for b in blobs:
        res.evaluations += 1
        try:
            enc = limited(TT.encode_str, b)
            # real decode path up to decompress: patch decompress/json to expose the bytes
            try:
                TT.decompress = lambda x: json.dumps(list(x))
                back = bytes(limited(TT.decode_seq, enc.decode('ascii')))
            finally:
                TT.decompress = orig_dec
        except Exception as e:
            res.oracle_fail.append({'case': {'bytes_hex': b.hex()}, 'what': 'encoding / decoding %d bytes raised %s: %.200s' % (
                len(b), type(e).__name__, e)})
            continue
        if back != b:
            res.oracle_fail.append({'case': {'bytes_hex': b.hex()}, 'what': 'decode(encode(bytes)) != bytes '
                                    '(len %d): got %d bytes' % (len(b), len(back))})
        ref = base64.b64encode(b).decode('ascii').rstrip('=').replace('+', '-')
        if enc.decode('ascii') != ref:
            res.oracle_fail.append({'case': {'bytes_hex': b.hex()}, 'what': 'encoding differs from url-safe '
                                    'unpadded base64: %r vs %r' % (enc[:40], ref[:40])})
        reqs.append(({'op': 'b64', 'bytes': list(b)}, b, enc.decode('ascii')))
        res.count('codec_len_%s' % ('le57' if len(b) <= 57 else 'gt57'))
        if len(b) > 57:
            res.nt(('codec', len(b)))
    # states of every size and with odd ids through the whole cookie codec
    for n in range(0, 40 if tier == 'quick' else 200):
        ids = ['n%d' % i for i in range(n)] + ['nöde-é中', 'x' * 80, 'a"b\\c', '']
        state = [['root', [[i, []] for i in ids[:n + 1]]]]
        res.evaluations += 1
        try:
            c = limited(TT.encode_seq, state)
            same = limited(TT.decode_seq, c) == state and indep_decode(c) == state
        except Exception as e:
            res.oracle_fail.append({'case': {'state': state}, 'what': 'cookie round trip raised %s: %.200s' % (
                type(e).__name__, e)})
            continue
        if not same:
            res.oracle_fail.append({'case': {'state': state}, 'what': 'cookie round trip changed the state'})
    # ids of every kind through the whole cookie codec: each atom of ID_ATOMS and each of the other JSON scalars as the
    # root id, as first of 1 / 4 / 25 sibling ids and inside the ids two levels further down
    vals = [a for atoms in ID_ATOMS.values() for a in atoms] + [v for v in ID_SCALARS if v == v]
    for vi, a in enumerate(vals):
        for size in (1, 4, 25) if (tier != 'quick' or vi % 3 == 0) else (1, 4):
            if isinstance(a, str):
                sibs = [a + str(k) if k else a for k in range(size)]
                deep = [[a + '~' + a, [[a + 'x' + a, []]]]]
            else:
                sibs = [a] + ['s%d' % k for k in range(1, size)]
                deep = [[a, [[a, []]]]]
            state = [[a, [[x, deep if k == 0 else []] for k, x in enumerate(sibs)]]]
            res.evaluations += 1
            res.count('codec_id_states')
            try:
                c = limited(TT.encode_seq, state)
                back = limited(TT.decode_seq, c)
                ind = indep_decode(c)
            except Exception as e:
                res.oracle_fail.append({'case': {'state': state}, 'what': 'cookie round trip of a state with the id %s '
                                        'raised %s: %.200s' % (ascii(a), type(e).__name__, ascii(str(e)))})
                continue
            if not (isinstance(c, str) and re.fullmatch(r'[A-Za-z0-9/\-]*', c)):
                res.oracle_fail.append({'case': {'state': state}, 'what': 'cookie value %.60r is not url-safe base64 text' % (c,)})
            elif not same_state(back, state) or not same_state(ind, state):
                res.oracle_fail.append({'case': {'state': state}, 'what': 'cookie round trip changed a state with the id %s: '
                                        'decoded %.300s' % (ascii(a), ascii(back))})
    if have_driver:
        resp = common.run_driver([q for q, _, _ in reqs])
        for (q, b, enc), rp in zip(reqs, resp):
            res.corr_checked += 1
            m = rp.get('ok')
            if not m or m['enc'] != enc or m['dec'] != list(b):
                res.corr_mismatch.append({'case': {'bytes_hex': b.hex()}, 'impl': enc[:60],
                                          'model': (m or rp), 'diff': 'codec'})


# --------------------------------------------------------------------------- tree state

class Node:
    def __init__(self, nid, kids):
        self.nid = nid
        self.kids = kids            # the live list handed to the tag (tpValues returns this very object)
        self.spec = tuple(kids)     # what the reference reads: frozen when the tree is built

    def tpValues(self):
        return self.kids

    def tpId(self):
        return self.nid

    def tpURL(self):
        return 'u'


class Doc:
    """a leaf object without a tpValues method (a document among folders): the tag supports it through hasattr()"""
    kids = ()
    spec = ()

    def __init__(self, nid):
        self.nid = nid

    def tpId(self):
        return self.nid

    def tpURL(self):
        return 'u'


class Resp:
    def __init__(self):
        self.cookies = {}

    def setCookie(self, k, v, **kw):
        self.cookies[k] = v


ROW = re.compile(r'<tr>(.*?)</tr>', re.S)
LINK = re.compile(r'<a name="([^"]*)" href="([^"?]*)\?(tree-[ec])=([^#"]*)#([^"]*)">')
TEXT = re.compile(r'\[\[(.*?)\]\]', re.S)
_tmpl = []


def render(root, cookie, param, assume=False):
    from DocumentTemplate import HTML
    if not _tmpl:
        for src in ('<dtml-tree>[[<dtml-var nid>]]</dtml-tree>', '<dtml-tree assume_children=1>[[<dtml-var nid>]]</dtml-tree>'):
            t = HTML(src)
            limited(t.cook)         # compiled here, under the time limit (not lazily inside the first request)
            _tmpl.append(t)
    resp = Resp()
    md = {'URL': 'http://host/app/tree', 'RESPONSE': resp}
    if cookie is not None:
        md['tree-s'] = cookie
    if param:
        md[param[0]] = param[1]
    out = limited(_tmpl[1 if assume else 0], root, md)
    rows = []
    for m in ROW.finditer(out):
        cell = m.group(1)
        t = TEXT.search(cell)
        lk = LINK.search(cell)
        row = {'id': t.group(1) if t else None, 'links': len(LINK.findall(cell))}
        if lk:
            row['kind'] = lk.group(3)
            row['enc'] = lk.group(4)
            row['path'] = link_path(lk.group(4))
            row['anchor'] = (lk.group(1), lk.group(5))
        rows.append(row)
    return rows, resp.cookies.get('tree-s')


def gen_trees(tier, r):
    """all tree shapes with up to 7 nodes and depth <= 4 (thorough) / a seeded sample (quick)"""
    shapes = []

    def trees(n, depth):
        # ordered trees with n nodes, height <= depth
        if n == 1:
            return [[]]
        if depth == 0:
            return []
        res = []
        for parts in compositions(n - 1):
            opts = [trees(p, depth - 1) for p in parts]
            if any(not o for o in opts):
                continue
            for combo in itertools.product(*opts):
                res.append(list(combo))
        return res

    def compositions(n):
        if n == 0:
            return [[]]
        out = []
        for first in range(1, n + 1):
            for rest in compositions(n - first):
                out.append([first] + rest)
        return out
    for n in range(1, 8):
        for t in trees(n, 4):
            shapes.append(t)
    if tier == 'quick':
        r.shuffle(shapes)
        shapes = shapes[:200]
    return shapes


def label(shape, names, docs=False):
    """shape (nested lists of children) -> Node tree with ids from names (preorder); with docs, leaves lack tpValues"""
    counter = itertools.count()

    def mk(kids, top=False):
        i = next(counter)
        if docs and not kids and not top:
            return Doc(names(i))
        return Node(names(i), [mk(k) for k in kids])
    return mk(shape, True)


def to_model(node, idmap):
    return [idmap[node.nid], [to_model(k, idmap) for k in node.spec]]


def all_nodes(node):
    yield node
    for k in node.spec:
        yield from all_nodes(k)


def expected_rows(root, expanded, assume=False):
    rows = []

    def walk(node, path):
        p = path + (node.nid,)
        # with assume_children a node that has not been expanded is ASSUMED to have children and carries an expand link;
        # once expanded, the tag knows: a childless node then shows nothing below it and carries no link any more
        has = bool(node.spec) or (assume and p not in expanded)
        exp = bool(node.spec) and p in expanded
        rows.append((node.nid, has, exp, p))
        if exp:
            for k in node.spec:
                walk(k, p)
    for k in root.spec:
        walk(k, (root.nid,))
    return rows


def state_paths(state):
    out = set()

    def walk(entries, pre):
        for e in entries:
            p = pre + (e[0],)
            out.add(p)
            if len(e) > 1:
                walk(e[1], p)
    walk(state, ())
    return out


def run_history(res, root, history_picker, steps, start, r, assume=False):
    """drive the real tag through `steps` clicks; returns (model request, impl snapshots)"""
    idmap = {n.nid: i for i, n in enumerate(all_nodes(root))}
    expanded = set()
    clicks = []
    snaps = []

    def request(cookie, param, what):
        try:
            return render(root, cookie, param, assume)
        except Exception as e:      # a page that fails shows no rows at all
            res.oracle_fail.append({'case': {'tree': repr_tree(root), 'clicks': clicks + [what], 'assume_children': assume,
                                             'leaves_without_tpValues': any(isinstance(n, Doc) for n in all_nodes(root))},
                                    'what': 'the last request raised %s: %.200s' % (type(e).__name__, e)})
            return None
    req = {'op': 'tree', 'start': start, 'tree': to_model(root, idmap), 'clicks': clicks}
    if start == 'expand_all':
        got = request(None, ('expand_all', 1), {'kind': 'expand_all'})
        expanded = {p for p in paths_with_kids(root)}
    else:
        got = request(None, None, {'kind': 'GET'})
    if got is None:
        return None, snaps, idmap
    rows, cookie = got
    snaps.append((rows, cookie))
    check_snapshot(res, root, rows, cookie, expanded, clicks, assume)
    for _ in range(steps):
        linked = [row for row in rows if 'kind' in row]
        choice = history_picker(linked, rows)
        if choice is None:
            break
        if choice in ('expand_all', 'collapse_all'):
            click = {'kind': choice}
            got = request(cookie, (choice, 1), click)
            if got is None:
                break
            expanded = {p for p in paths_with_kids(root)} if choice == 'expand_all' else set()
        else:
            path = tuple(choice['path'])
            if any(x not in idmap for x in path):
                break       # a link that names no node of this tree: reported by check_snapshot above; nothing to click
            kind = 'e' if choice['kind'] == 'tree-e' else 'c'
            click = {'kind': kind, 'path': [idmap[x] for x in path]}
            got = request(cookie, (choice['kind'], choice['enc']), click)
            if got is None:
                break
            if kind == 'e':
                expanded.add(path)
            else:
                expanded = {p for p in expanded if p[:len(path)] != path}
        rows, cookie = got
        clicks.append(click)
        res.evaluations += 1
        snaps.append((rows, cookie))
        check_snapshot(res, root, rows, cookie, expanded, clicks, assume)
    return req, snaps, idmap


def paths_with_kids(root):
    out = []

    def walk(node, path):
        p = path + (node.nid,)
        if node.spec:
            out.append(p)
        for k in node.spec:
            walk(k, p)
    for k in root.spec:
        walk(k, (root.nid,))
    return out


def check_snapshot(res, root, rows, cookie, expanded, clicks, assume=False):
    """the property on the implementation, against the set-of-paths reference"""
    def fail(what):
        res.oracle_fail.append({'case': {'tree': repr_tree(root), 'clicks': clicks, 'assume_children': assume,
                                         'leaves_without_tpValues': any(isinstance(n, Doc) for n in all_nodes(root))},
                                'what': what})
    want = expected_rows(root, expanded, assume)
    got = [(row['id'], 'kind' in row, row.get('kind') == 'tree-c', tuple(row['path']) if 'path' in row else None)
           for row in rows]
    if [g[0] for g in got] != [w[0] for w in want]:
        fail('rows shown %s, expected %s' % ([g[0] for g in got], [w[0] for w in want]))
        return
    for g, w, row in zip(got, want, rows):
        if g[1] != w[1] or row['links'] != (1 if w[1] else 0):
            fail('node %r: %d links, has children=%s' % (g[0], row['links'], w[1]))
        elif w[1]:
            if g[3] != w[3]:
                fail('link of node %r encodes path %s, expected %s' % (g[0], g[3], w[3]))
            if g[2] != w[2]:
                fail('link of node %r is %s but the node is %s' % (
                    g[0], 'collapse' if g[2] else 'expand', 'expanded' if w[2] else 'collapsed'))
    if cookie is None:
        fail('no state cookie written')
        return
    sp = cookie_paths(cookie)
    if sp is None:
        fail('the state cookie %r cannot be decoded' % cookie[:80])
        return
    sp = {p for p in sp if len(p) > 1}
    # only what can be seen counts: expansion recorded under a collapsed ancestor must be gone
    if sp != set(expanded):
        fail('cookie describes %s, expected %s' % (sorted(sp), sorted(expanded)))


# --------------------------------------------------------------------------- tag options on live application data
#
# The histories above use the bare tag.  Here the SAME live object tree is rendered again and again (one request per click,
# plus reloads and other pages showing the same objects through differently configured tags) under the tag's options:
# reverse / sort, branches= / branches_expr=, id=, root given as client / by name / by expr, header + footer, leaves,
# single, skip_unauthorized under an item guard, urlparam, nowrap.  What the rows must be is computed from an immutable
# description (`Sp`) of the tree, never from the live objects: the tag is handed the application's own containers and
# whatever it does to them shows up as wrong rows on the next request.

Sp = collections.namedtuple('Sp', 'label sid key kids doc')     # kids: tuple of Sp; doc: leaf without a branches method
View = collections.namedtuple('View', 'root order sortattr branches idopt extra urlparam nowrap')

STORES = ('own', 'fresh', 'tuple', 'seq')
ORDERS = ('', 'r', 's', 'sr')
BRANCHES = ('', 'branches=getKids', 'branches_expr="getKids()"', 'branches_expr="kids"')
EXTRAS = ('', 'hf', 'leaves', 'single', 'skip', 'guard')
PLAIN_EXTRAS = ('', 'hf', 'guard')        # these show the same rows for the same state: pages with them may be mixed
URL_PARAM = 'x=1&amp;y=2'


class RoSeq:
    """a read-only sequence (len + index only), like a lazy query result"""

    def __init__(self, items):
        self._t = tuple(items)

    def __len__(self):
        return len(self._t)

    def __getitem__(self, i):
        return self._t[i]


class _Base:
    _decoy_branches = _decoy_id = False

    def __init__(self, sp, store, fresh):
        self.label = sp.label
        self.ident = sp.sid
        self.key = sp.key
        self._store = store
        self._fresh = fresh

    def tpURL(self):
        return 'u'

    def skey(self):
        return self.key


class _Kids:
    def tpValues(self):
        if self._decoy_branches:
            # the application keeps its children elsewhere (every page names the method): the default method misleads
            return [DECOY]
        # 'own' / 'tuple' / 'seq': the container object itself, the same one on every call; 'fresh': a new list per call
        return list(self._store) if self._fresh else self._store

    def getKids(self):
        return list(self._store) if self._fresh else self._store

    kids = property(getKids)


class _TpId:
    def tpId(self):
        # with _decoy_id every page names the id attribute (id=ident); the default method gives every node the same id
        return 'same' if self._decoy_id else self.ident


class LiveNode(_Base, _Kids, _TpId):
    pass


class LiveDoc(_Base, _TpId):
    pass


class OidNode(_Base, _Kids):
    """no tpId: the tag falls back to the persistent object id"""


class OidDoc(_Base):
    pass


def build_live(sp, store, oid, decoy_branches=False, decoy_id=False):
    kids = [build_live(k, store, oid, decoy_branches, decoy_id) for k in sp.kids]
    cont = {'own': list, 'fresh': list, 'tuple': tuple, 'seq': RoSeq}[store](kids)
    cls = ((OidDoc if oid else LiveDoc) if sp.doc else (OidNode if oid else LiveNode))
    ob = cls(sp, cont, store == 'fresh')
    ob.sp = sp
    ob._decoy_branches = decoy_branches
    ob._decoy_id = decoy_id
    if oid:
        ob._p_oid = base64.b64decode(sp.sid)
    return ob


DECOY = LiveDoc(Sp('DECOY', 'DECOY', 0, (), True), (), False)
# what `this` is when the tag is told its root by name or by expression: some other object with children of its own
DECOY_CLIENT = build_live(Sp('DECOY-ROOT', 'DECOY-ROOT', 0, (Sp('DECOY-KID', 'DECOY-KID', 0, (), False),), False), 'own', False)


_NO = object()


def gen_spec(r, nodes, depth, idkind, docs, strkeys, cat=None, force=None):
    """random tree description; sort keys distinct among siblings and in an order of their own.  Ids: unique in the tree
    ('plain' 'odd' 'int' 'oid'; 'wild' = strings with an atom of category `cat`; 'scalar' = the other JSON scalars and
    their look-alikes) or unique among siblings only ('dup': the same few ids under every parent, children named like
    their parent or like the root).  force = ('root' | 'child' | 'deep', value): that id for the root / the first child
    of the root / the first grandchild"""
    odd = ['r', 'nöde é', 'x' * 60, 'a-b', '0', 'Z z', 'ü', 'q']
    counter = itertools.count()
    ints = r.sample(range(-5, 90), nodes + 2)
    fv = [force[1]] if force else []
    pool = None
    if idkind == 'wild':
        pool = []
        for _ in range(nodes + 2):
            pool.append(wild_id(r, cat, pool + fv))
    elif idkind == 'scalar':
        pool = scalar_ids(r, nodes + 2, fv)
    dup_pool = ['p', 'q', 'p ', 'P', 0, '0', '\xe9', 'e\u0301', '', '\udce9']
    if idkind == 'dup':
        r.shuffle(dup_pool)

    def shape(depth_left, budget, top=False):
        kids = []
        while budget[0] > 0 and depth_left > 0 and (r.random() < 0.65 or (top and not kids)):
            budget[0] -= 1
            kids.append(shape(depth_left - 1, budget))
        return kids

    def mk(kids, key, given=_NO, top=False, lvl=0):
        i = next(counter)
        label = (odd[i % 8] + str(i)) if idkind == 'odd' else 'n%d' % i
        if idkind == 'int':
            sid = ints[i]
        elif idkind == 'oid':
            # 8-byte object ids as the ZODB hands them out, some with bytes that encode to '+' and '/'
            raw = (i + 1).to_bytes(8, 'big') if i % 3 else bytes([0, 0, 0, 0, 0xfb, 0xef, 0xbe, i])
            sid = base64.b64encode(raw).decode('ascii')
        elif pool is not None:
            sid = pool[i]
        elif idkind == 'dup':
            sid = dup_pool[0] if given is _NO else given
        else:
            sid = label
        keys = r.sample(range(100), len(kids))
        if strkeys:
            keys = ['k%02d' % k for k in keys]
        gives = [_NO] * len(kids)
        if idkind == 'dup':
            # the parent's own id first in line (prob. 1/2), then the rest of the pool; more children than the pool: numbers
            names = [x for x in dup_pool if x != sid]
            r.shuffle(names)
            names = ([sid] + names) if r.random() < 0.5 else (names + [sid])
            gives = (names + list(range(100, 100 + len(kids))))[:len(kids)]
            r.shuffle(gives)
        if force and kids and ((force[0] == 'child' and lvl == 0) or (force[0] == 'deep' and lvl == 1 and not forced)):
            forced.append(1)
            gives[0] = force[1]
            gives[1:] = [100 + j if g is not _NO and g == force[1] else g for j, g in enumerate(gives[1:])]
        subs = tuple(mk(k, keys[j], gives[j], lvl=lvl + 1) for j, k in enumerate(kids))
        if given is not _NO and idkind != 'dup':
            sid = given
        return Sp(label, sid, key, subs, bool(docs and not kids and not top and r.random() < 0.6))
    forced = []
    return mk(shape(depth, [nodes - 1], True), 0, force[1] if force and force[0] == 'root' else _NO, True)


def sp_nodes(sp):
    yield sp
    for k in sp.kids:
        yield from sp_nodes(k)


def sp_repr(sp):
    return [sp.sid if sp.sid == sp.label else [sp.label, sp.sid], sp.key, [sp_repr(k) for k in sp.kids]]


def view_source(v):
    a = []
    if v.root == 'name':
        a.append('root')
    elif v.root == 'expr':
        a.append('expr="root"')
    if v.branches:
        a.append(v.branches)
    if 's' in v.order:
        a.append('sort=' + v.sortattr)
    if 'r' in v.order:
        a.append('reverse=1')
    if v.idopt:
        a.append(v.idopt)
    if v.extra == 'hf':
        a.append('header=hdr footer=ftr')
    elif v.extra == 'leaves':
        a.append('leaves=lv')
    elif v.extra == 'single':
        a.append('single=1')
    elif v.extra == 'skip':
        a.append('skip_unauthorized=1')
    if v.urlparam:
        a.append('urlparam="%s"' % URL_PARAM)
    if v.nowrap:
        a.append('nowrap=1')
    return '<dtml-tree%s>[[<dtml-var label>]]</dtml-tree>' % ''.join(' ' + x for x in a)


_refused = set()        # labels the item guard refuses, set per history
_views = {}
_docs = {}


def template_for(v):
    from DocumentTemplate import HTML
    from DocumentTemplate.DT_Util import ValidationError
    if not _docs:
        for name, mark in (('hdr', 'H'), ('ftr', 'F'), ('lv', 'L')):
            _docs[name] = HTML('<dtml-var standard_html_header>[[#%s#<dtml-var label>]]<dtml-var standard_html_footer>' % mark)
            limited(_docs[name].cook)

        class Guarded(HTML):
            """a template class with the two security hooks of DT_String: items are refused by label"""

            def guarded_getitem(self, seq, i):
                ob = seq[i]
                if getattr(ob, 'label', None) in _refused:
                    raise ValidationError('refused')
                return ob

            def guarded_getattr(self, ob, name, *default):
                return getattr(ob, name, *default)
        _docs['Guarded'] = Guarded
    if v not in _views:
        # compiled once, then shared by every tree and history that uses this configuration
        t = (_docs['Guarded'] if v.extra in ('skip', 'guard') else HTML)(view_source(v))
        limited(t.cook)
        _views[v] = t
    return _views[v]


# the id is written into the anchor as it is: it may hold quotes, blanks, line ends (everything but ID_FORBIDDEN)
LINK2 = re.compile(r'<a name="(.*?)" href="([^"?]*)\?([^"#]*?)(tree-[ec])=([^#"&]*)#(.*?)"><i title="', re.S)


def render_view(v, root, cookie, param):
    tmpl = template_for(v)
    resp = Resp()
    md = {'URL': 'http://host/app/tree', 'RESPONSE': resp, 'hdr': _docs['hdr'], 'ftr': _docs['ftr'], 'lv': _docs['lv']}
    if cookie is not None:
        md['tree-s'] = cookie
    if param:
        md[param[0]] = param[1]
    out = limited(tmpl, root, md) if v.root == 'this' else limited(tmpl, DECOY_CLIENT, md, root=root)
    return page_tokens(out), resp.cookies.get('tree-s')


def page_tokens(out):
    """the rows of a page: node rows (label, number of links, the link taken apart) and header / footer / leaves rows"""
    toks = []
    for m in ROW.finditer(out):
        cell = m.group(1)
        t = TEXT.search(cell)
        text = t.group(1) if t else None
        if text is not None and text[:3] in ('#H#', '#F#', '#L#'):
            toks.append({'t': text[1], 'label': text[3:], 'links': cell.count('<a ')})
            continue
        row = {'t': 'row', 'label': text, 'links': cell.count('<a ')}
        lk = LINK2.search(cell)
        if lk:
            row['kind'] = lk.group(4)
            row['enc'] = lk.group(5)
            row['path'] = link_path(lk.group(5))
            row['anchor'] = (lk.group(1), lk.group(6))
            row['href'] = (lk.group(2), lk.group(3))
        toks.append(row)
    return toks


def expected_tokens(spec, expanded, v, refused):
    """what the page must show, from the immutable description: the root's children and, depth first, the children of
    every expanded node; each sibling group in the order the tag was asked for (the branches' own order, ascending by the
    sort attribute, reversed); refused items left out under skip_unauthorized; header / footer around every group shown;
    with `leaves` every childless node can be expanded too and then shows the leaves document"""
    toks = []

    def visible(node):
        ks = [k for k in node.kids if not (v.extra == 'skip' and k.label in refused)]
        if 's' in v.order:
            ks = sorted(ks, key=lambda k: k.key)
        if 'r' in v.order:
            ks = ks[::-1]
        return ks

    def group(node, p, ks):
        if v.extra == 'hf':
            toks.append(('H', node.label))
        for k in ks:
            walk(k, p)
        if v.extra == 'hf':
            toks.append(('F', node.label))

    def walk(node, path):
        p = path + (node.sid,)
        ks = visible(node)
        link = bool(ks) or v.extra == 'leaves'
        exp = link and p in expanded
        toks.append(('row', node.label, link, exp, p))
        if exp:
            if ks:
                group(node, p, ks)
            else:
                toks.append(('L', node.label))
    ks = visible(spec)
    if ks:
        group(spec, (spec.sid,), ks)
    return toks


def sp_paths_with_kids(spec):
    out = set()

    def walk(node, path):
        p = path + (node.sid,)
        if node.kids:
            out.add(p)
        for k in node.kids:
            walk(k, p)
    for k in spec.kids:
        walk(k, (spec.sid,))
    return out


def data_changed(root):
    """labels of the nodes whose own container no longer holds its children in the application's order"""
    out = []

    def walk(ob):
        kids = list(ob._store)
        if [getattr(k, 'label', repr(k)[:30]) for k in kids] != [k.label for k in ob.sp.kids]:
            out.append(ob.label)
            return
        for k in kids:
            walk(k)
    walk(root)
    return out


def exact(path):
    """a path with the type of every id: 1, 1.0, True and '1' are four different ids to find in a link or a cookie"""
    return tuple((type(x).__name__, repr(x)) for x in path)


def check_view(res, case, root, spec, v, toks, cookie, expanded, refused, check_cookie):
    def fail(what):
        c = dict(case)
        c['page'] = view_source(v)
        changed = data_changed(root)
        if changed:
            what += ' [the children lists of %s, owned by the application, were changed by rendering]' % changed
        res.oracle_fail.append({'case': c, 'what': what})
    want = expected_tokens(spec, expanded, v, refused)
    got_seq = [(t['t'], t['label']) for t in toks]
    want_seq = [(w[0], w[1]) for w in want]
    if got_seq != want_seq:
        show = lambda seq: [(l if k == 'row' else '%s(%s)' % (k, l)) for k, l in seq]  # noqa
        fail('rows shown %s, expected %s' % (show(got_seq), show(want_seq)))
        return False
    ok = True
    for t, w in zip(toks, want):
        if w[0] != 'row':
            if t['links']:
                fail('%s document row of %r carries a link' % (w[0], w[1]))
                ok = False
            continue
        _, label, link, exp, p = w
        if ('kind' in t) != link or t['links'] != (1 if link else 0):
            fail('node %r: %d links, has children=%s' % (label, t['links'], link))
            ok = False
        elif link:
            if exact(t['path']) != exact(p):
                fail('link of node %r encodes path %s, expected %s' % (label, t['path'], list(p)))
                ok = False
            if (t['kind'] == 'tree-c') != exp:
                fail('link of node %r is %s but the node is %s' % (
                    label, 'collapse' if t['kind'] == 'tree-c' else 'expand', 'expanded' if exp else 'collapsed'))
                ok = False
            if t['anchor'] != (str(p[-1]), str(p[-1])):
                fail('link of node %r is anchored at %r, expected %r' % (label, t['anchor'], str(p[-1])))
                ok = False
            if t['href'] != ('tree', (URL_PARAM + '&') if v.urlparam else ''):
                fail('link of node %r leads to %r, expected the page itself%s' % (
                    label, t['href'], ' with the urlparam' if v.urlparam else ''))
                ok = False
    if check_cookie:
        if v.extra == 'single':
            pass        # nothing is remembered between requests: the links alone carry the one open branch
        elif cookie is None:
            fail('no state cookie written')
            ok = False
        else:
            sp = cookie_paths(cookie)
            if sp is None:
                fail('the state cookie %r cannot be decoded' % cookie[:80])
                return False
            sp = {p for p in sp if len(p) > 1}
            if {exact(q) for q in sp} != {exact(q) for q in expanded}:
                fail('cookie describes %s, expected %s' % (sorted(sp, key=repr), sorted(expanded, key=repr)))
                ok = False
    return ok


def run_view_history(res, r, spec, store, oid, cfg, views, refused, steps, tag, all_prob=(0.06, 0.10)):
    """one browser session on ONE live object tree: the main page is clicked through; between clicks the page is reloaded
    or another page (another tag configuration, same objects, same cookie) is looked at"""
    root = build_live(spec, store, oid, cfg['decoy_branches'], cfg['decoy_id'])
    main = views[0]
    _refused.clear()
    _refused.update(refused)
    clicks = []
    case = {'tree [id, sort key, children]': sp_repr(spec), 'children_container': store,
            'other_pages': [view_source(o) for o in views[1:]], 'refused_items': sorted(refused), 'requests': clicks}

    def request(v, cookie, param):
        res.evaluations += 1
        try:
            return render_view(v, root, cookie, param)
        except Exception as e:      # a page that fails shows no rows at all
            try:
                msg = str(e)[:200]
            except Exception:
                msg = '<no message>'
            c = dict(case)
            c['page'] = view_source(v)
            res.oracle_fail.append({'case': c, 'what': 'the last request raised %s: %s' % (type(e).__name__, msg)})
            return None
    expanded = set()
    all_exp = sp_paths_with_kids(spec)
    may_expand_all = not refused        # see `rule`: expand_all under an item guard is left out (reported)
    cookie = None
    clicks.append('GET')
    got = request(main, cookie, None)
    if got is None or not check_view(res, case, root, spec, main, got[0], got[1], expanded, refused, True):
        return
    toks, cookie = got
    for _ in range(steps):
        if r.random() < 0.4:
            o = r.choice(views)
            clicks.append(('GET other page %d' % views.index(o)) if o is not main else 'reload')
            got = request(o, cookie, None)
            # a page with `single` remembers nothing: without a click in the request every branch is closed
            seen = set() if o.extra == 'single' else expanded
            if got is None or not check_view(res, case, root, spec, o, got[0], got[1], seen, refused, False):
                return
            if o is not main:
                res.count('view_other_page_renderings')
        linked = [t for t in toks if 'kind' in t]
        c = r.random()
        if c < all_prob[0] and may_expand_all:
            param, what = ('expand_all', 1), 'expand_all'
            expanded = set(all_exp)
        elif c < all_prob[1]:
            param, what = ('collapse_all', 1), 'collapse_all'
            expanded = set()
        elif linked:
            t = r.choice(linked)
            path = tuple(t['path'])
            param, what = (t['kind'], t['enc']), '%s %s' % (t['kind'], list(path))
            if main.extra == 'single':
                # only one branch open at a time: the one leading to the node clicked
                top = len(path) if t['kind'] == 'tree-e' else len(path) - 1
                expanded = {path[:i] for i in range(2, top + 1)}
            elif t['kind'] == 'tree-e':
                expanded.add(path)
            else:
                expanded = {p for p in expanded if p[:len(path)] != path}
        else:
            break
        clicks.append(what)
        got = request(main, cookie, param)
        if got is None or not check_view(res, case, root, spec, main, got[0], got[1], expanded, refused, True):
            return
        toks, cookie = got
    if len(clicks) >= 3:
        res.nt(('view', tag))
    if main.order == 'r' and store == 'own' and len(clicks) >= 4:
        res.sample({'session_on_live_objects': dict(case, page=view_source(main))})


def pick_refused(r, spec):
    labels = [n.label for n in sp_nodes(spec)][1:]
    return set(r.sample(labels, min(len(labels), r.randint(1, 3)))) if labels else set()


def compatible(main, o, store):
    """may page `o` be looked at in a session that clicks through page `main` on the same objects?"""
    if (main.extra in PLAIN_EXTRAS) != (o.extra in PLAIN_EXTRAS):
        return False
    if main.extra not in PLAIN_EXTRAS and o.extra != main.extra:
        return False
    # left out (reported): `sort` sorts a list handed out by the branches method in place, so a page without sort shows
    # the application's children in sorted order from then on
    if store == 'own' and ('s' in main.order) != ('s' in o.order):
        return False
    return True


def options_part(res, r, tier):
    def rand_view(store, oid, docs, cfg):
        order = r.choice(ORDERS)
        if store == 'seq' and 's' in order:
            order = order.replace('s', '')       # left out (reported): sort needs item assignment
        branches = r.choice(BRANCHES[1:] if cfg['decoy_branches'] else BRANCHES)
        if docs and branches.startswith('branches_expr'):
            branches = 'branches=getKids'        # an expression naming a method a leaf lacks is the template's own error
        extra = r.choice(EXTRAS + ('', ''))
        idopt = 'id=ident' if cfg['decoy_id'] else '' if oid else r.choice(('', 'id=ident'))
        return View(r.choice(('this', 'name', 'expr')), order, r.choice(('key', 'skey')), branches,
                    idopt, extra, r.random() < 0.3, r.random() < 0.3)

    def session(spec, store, oid, main, tag, steps, n_other, all_prob=(0.06, 0.10)):
        # objects whose default methods mislead whenever the page names its own (the other pages then name them too)
        cfg = {'decoy_branches': bool(main.branches), 'decoy_id': bool(main.idopt)}
        others = []
        docs = any(n.doc for n in sp_nodes(spec))
        for _ in range(40):
            if len(others) >= n_other:
                break
            o = rand_view(store, oid, docs, cfg)
            if compatible(main, o, store) and o != main:
                others.append(o)
        refused = pick_refused(r, spec) if main.extra == 'skip' else set()
        res.count('view_order=%s' % (main.order or 'none'))
        res.count('view_container=%s' % store)
        res.count('view_extra=%s' % (main.extra or 'none'))
        res.count('view_branches=%s' % (main.branches.split('=')[0] or 'tpValues'))
        res.count('view_root=%s' % main.root)
        res.count('view_histories')
        run_view_history(res, r, spec, store, oid, cfg, [main] + others, refused, steps, tag, all_prob)

    big = tier != 'quick'
    # every order x every kind of children container x every way of naming the branches, bare otherwise
    for order, store, branches in itertools.product(ORDERS, STORES, BRANCHES):
        if store == 'seq' and 's' in order:
            continue
        for rep in range(3 if big else 1):
            spec = gen_spec(r, r.randint(5, 10), 3, r.choice(('plain', 'odd', 'int')), False, r.random() < 0.5)
            main = View(r.choice(('this', 'name', 'expr')), order, r.choice(('key', 'skey')), branches, '', '', False, False)
            session(spec, store, False, main, ('grid', order, store, branches, rep), 6, r.randint(0, 1))
    # every further option x every order, on the application's own lists and on tuples
    for extra, order, store in itertools.product(EXTRAS[1:], ORDERS, ('own', 'tuple')):
        for rep in range(3 if big else 1):
            idkind = r.choice(('plain', 'odd', 'int', 'oid'))
            spec = gen_spec(r, r.randint(5, 11), 3, idkind, r.random() < 0.4, False)
            oid = idkind == 'oid'
            docs = any(n.doc for n in sp_nodes(spec))
            main = View(r.choice(('this', 'name', 'expr')), order, 'key', 'branches=getKids' if docs else r.choice(BRANCHES),
                        '' if oid else r.choice(('', 'id=ident')), extra, r.random() < 0.5, r.random() < 0.5)
            session(spec, store, oid, main, ('extra', extra, order, store, rep), 8, r.randint(0, 2))
    # random sessions
    for t in range(1200 if big else 160):
        idkind = r.choice(('plain', 'odd', 'int', 'oid'))
        spec = gen_spec(r, r.randint(4, 18), 4, idkind, r.random() < 0.4, r.random() < 0.5)
        store = r.choice(STORES)
        docs = any(n.doc for n in sp_nodes(spec))
        main = rand_view(store, idkind == 'oid', docs, {'decoy_branches': False, 'decoy_id': False})
        session(spec, store, idkind == 'oid', main, ('random', t), r.randint(3, 14), r.randint(0, 2))
    # ---- node ids of every kind ("for ... any node ids"): the id is opaque to the tag, whatever it is made of
    bare = View('this', '', 'key', '', '', '', False, False)

    def id_session(idkind, tag, cat=None, force=None, plain=False, steps=None):
        spec = gen_spec(r, r.randint(5, 11), 3, idkind, (not plain) and r.random() < 0.3, False, cat=cat, force=force)
        docs = any(n.doc for n in sp_nodes(spec))
        store = 'own' if plain else r.choice(('own', 'fresh', 'tuple', 'seq'))
        if plain:
            main = bare
        else:
            main = rand_view(store, False, docs, {'decoy_branches': False, 'decoy_id': False})
            if main.extra == 'skip':
                main = main._replace(extra='guard')
        res.count('id_sessions_%s%s%s' % (idkind, '_' + cat if cat else '', '_forced_%s' % force[0] if force else ''))
        session(spec, store, False, main, ('ids', idkind, cat, repr(force), tag), steps or r.randint(6, 12),
                0 if plain else r.randint(0, 2), (0.12, 0.18))
    reps = 4 if big else 1
    for cat in ID_ATOMS:
        for rep in range(reps):
            # the bare tag, the tag with random options, and one long history
            id_session('wild', (rep, 0), cat=cat, plain=True)
            id_session('wild', (rep, 1), cat=cat)
            id_session('wild', (rep, 2), cat=cat, steps=r.randint(25, 40))
    for rep in range(3 * reps):
        id_session('scalar', (rep, 0), plain=True)
        id_session('scalar', (rep, 1))
        id_session('dup', (rep, 0), plain=True)
        id_session('dup', (rep, 1))
        id_session('wild', (rep, 3), steps=r.randint(25, 40))
    # falsy ids (and their truthy twins) at the root, directly below it and deeper
    for v in ID_FALSY + [1, True, -0.0, ' ', '0']:
        for where in ('root', 'child', 'deep'):
            for rep in range(reps):
                id_session(r.choice(('plain', 'scalar', 'dup')), (rep, where), force=(where, v), plain=rep % 2 == 0)


# --------------------------------------------------------------------------- requests during which something fails
#
# Every session above is fault-free: each object answers every question the tag asks.  Here the application fails in the
# middle of a request, at every point at which the tag asks it something -- while a node's ROW is drawn (the section reads
# an attribute), in the HEADER / FOOTER / LEAVES document of an expanded node, when the BRANCHES of a node are fetched,
# when a node is asked for its ID, when an ITEM is fetched through the item guard --, by each mechanism -- the security
# hook of the template class refuses the attribute (ValidationError), the object's own code raises ValidationError (a
# nested call was not allowed), the object's own code raises an application error --, under skip_unauthorized and without
# it, combined with header + footer, leaves, sort / reverse, every way of naming the branches and every container.  The
# faults come and go between the requests of one session (permissions change, a back end is down for a moment).
#
# What the property asks of such a request: EITHER it fails as a whole with the error the application raised (nothing is
# shown, no cookie is written: the browser keeps the page and the cookie it had, and the next click is one on THAT page),
# OR a page comes back -- and then that page is a page like any other: its rows are the rows of the reference, every link
# toggles precisely the node in whose row it stands, the cookie describes the expanded set, the table is closed.  Only
# under skip_unauthorized ("don't raise an error if unauthorized items are encountered; skip them") may rows be missing:
# the nodes at which a ValidationError was raised during this request, with everything below them.  Afterwards, with
# the fault gone, the very same objects and templates must again show exactly what the reference says.

FView = collections.namedtuple('FView', 'root order sortattr branches idopt skip hf leaves hooks urlparam nowrap')
FAULT_POINTS = ('row', 'header', 'footer', 'leaves', 'branches', 'id')
FAULT_MECHS = ('guard', 've', 'err')
FAULT_ATTR = {'f_row': 'row', 'f_hdr': 'header', 'f_ftr': 'footer', 'f_lv': 'leaves',
              'tpValues': 'branches', 'getKids': 'branches', 'kids': 'branches'}

_faults = {}            # label -> (point, mechanism), set per session
_armed = [False]        # are the faults there during this request?
_fired = []             # (label, point, mechanism) of every fault that was raised during this request


class AppError(Exception):
    """what the application's own code raises when it fails"""


def _trip(ob, point):
    f = _faults.get(getattr(ob, 'label', None)) if _armed[0] else None
    if f and f[0] == point and f[1] != 'guard':
        from DocumentTemplate.DT_Util import ValidationError
        _fired.append((ob.label, point, f[1]))
        raise ValidationError('not allowed here') if f[1] == 've' else AppError('the back end of %s is down' % ob.label)


class _FaultAttrs:
    f_row = property(lambda self: _trip(self, 'row') or '')
    f_hdr = property(lambda self: _trip(self, 'header') or '')
    f_ftr = property(lambda self: _trip(self, 'footer') or '')
    f_lv = property(lambda self: _trip(self, 'leaves') or '')

    def tpId(self):
        _trip(self, 'id')
        return super().tpId()


class _FaultKids:
    def tpValues(self):
        _trip(self, 'branches')
        return super().tpValues()

    def getKids(self):
        _trip(self, 'branches')
        return super().getKids()

    kids = property(getKids)


class FaultNode(_FaultAttrs, _FaultKids, LiveNode):
    pass


class FaultDoc(_FaultAttrs, LiveDoc):
    pass


def build_faulty(sp, store, decoy_branches, decoy_id):
    kids = [build_faulty(k, store, decoy_branches, decoy_id) for k in sp.kids]
    cont = {'own': list, 'fresh': list, 'tuple': tuple, 'seq': RoSeq}[store](kids)
    ob = (FaultDoc if sp.doc else FaultNode)(sp, cont, store == 'fresh')
    ob.sp = sp
    ob._decoy_branches = decoy_branches
    ob._decoy_id = decoy_id
    return ob


def fview_source(v):
    a = []
    if v.root == 'name':
        a.append('root')
    elif v.root == 'expr':
        a.append('expr="root"')
    if v.branches:
        a.append(v.branches)
    if 's' in v.order:
        a.append('sort=' + v.sortattr)
    if 'r' in v.order:
        a.append('reverse=1')
    if v.idopt:
        a.append(v.idopt)
    if v.hf:
        a.append('header=hdr2 footer=ftr2')
    if v.leaves:
        a.append('leaves=lv2')
    if v.skip:
        a.append('skip_unauthorized=1')
    if v.urlparam:
        a.append('urlparam="%s"' % URL_PARAM)
    if v.nowrap:
        a.append('nowrap=1')
    return '<dtml-tree%s>[[<dtml-var label>]]<dtml-var f_row></dtml-tree>' % ''.join(' ' + x for x in a)


_fviews = {}
_fdocs = {}


def ftemplate_for(v):
    from DocumentTemplate import HTML
    from DocumentTemplate.DT_Util import ValidationError
    if not _fdocs:
        for name, mark, attr in (('hdr2', 'H', 'f_hdr'), ('ftr2', 'F', 'f_ftr'), ('lv2', 'L', 'f_lv')):
            _fdocs[name] = HTML('<dtml-var standard_html_header>[[#%s#<dtml-var label>]]<dtml-var %s>'
                                '<dtml-var standard_html_footer>' % (mark, attr))
            limited(_fdocs[name].cook)

        class Hooked(HTML):
            """a template class with the two security hooks of DT_String: items are refused by label, attributes by
            (label, what the attribute is asked for) while the session's faults are there"""

            def guarded_getitem(self, seq, i):
                ob = seq[i]
                if getattr(ob, 'label', None) in _refused:
                    _fired.append((ob.label, 'item', 'guard'))
                    raise ValidationError('refused')
                return ob

            def guarded_getattr(self, ob, name, *default):
                f = _faults.get(getattr(ob, 'label', None)) if _armed[0] else None
                if f and f[1] == 'guard' and FAULT_ATTR.get(name) == f[0]:
                    _fired.append((ob.label, f[0], 'guard'))
                    raise ValidationError(name)
                return getattr(ob, name, *default)
        _fdocs['Hooked'] = Hooked
    if v not in _fviews:
        t = (_fdocs['Hooked'] if v.hooks else HTML)(fview_source(v))
        limited(t.cook)
        _fviews[v] = t
    return _fviews[v]


def frender(v, root, cookie, param):
    tmpl = ftemplate_for(v)
    resp = Resp()
    md = {'URL': 'http://host/app/tree', 'RESPONSE': resp, 'hdr2': _fdocs['hdr2'], 'ftr2': _fdocs['ftr2'],
          'lv2': _fdocs['lv2']}
    if cookie is not None:
        md['tree-s'] = cookie
    if param:
        md[param[0]] = param[1]
    out = limited(tmpl, root, md) if v.root == 'this' else limited(tmpl, DECOY_CLIENT, md, root=root)
    return page_tokens(out), resp.cookies.get('tree-s'), (out.count('<table'), out.count('</table>'))


def fault_expected(spec, expanded, v, refused):
    """(kind, label, link, expanded, path, labels of the node and its ancestors below the root) of every row the page
    must show, from the immutable description: the root's children and, depth first, what is below every expanded node
    -- header, its children in the order asked for (or the leaves document when it has none), footer"""
    toks = []

    def visible(node):
        ks = [k for k in node.kids if not (v.skip and k.label in refused)]
        if 's' in v.order:
            ks = sorted(ks, key=lambda k: k.key)
        if 'r' in v.order:
            ks = ks[::-1]
        return ks

    def below(node, p, ks, chain):
        if v.hf:
            toks.append(('H', node.label, None, None, p, chain))
        for k in ks:
            walk(k, p, chain)
        if not ks:
            toks.append(('L', node.label, None, None, p, chain))
        if v.hf:
            toks.append(('F', node.label, None, None, p, chain))

    def walk(node, path, chain):
        p = path + (node.sid,)
        c = chain + (node.label,)
        ks = visible(node)
        link = bool(ks) or v.leaves
        exp = link and p in expanded
        toks.append(('row', node.label, link, exp, p, c))
        if exp:
            below(node, p, ks, c)
    ks = visible(spec)
    if ks:
        below(spec, (spec.sid,), ks, (spec.label,))
    return toks


def path_labels(spec, path):
    """labels of the nodes on a path of ids (the root's first), None when the path names no node"""
    if not path or exact(path[:1]) != exact((spec.sid,)):
        return None
    node, out = spec, [spec.label]
    for x in path[1:]:
        nxt = [k for k in node.kids if exact((k.sid,)) == exact((x,))]
        if not nxt:
            return None
        node = nxt[0]
        out.append(node.label)
    return out


def check_fault_page(fail, spec, v, toks, cookie, tables, expanded, refused, may_miss, check_cookie):
    """a page that came back.  may_miss: labels of the nodes which (with everything below them) may be missing from it;
    returns the expanded set the browser now holds, or None when the page is wrong"""
    want = fault_expected(spec, expanded, v, refused)
    show = lambda seq: [(l if k == 'row' else '%s(%s)' % (k, l)) for k, l in seq]  # noqa
    got_seq = [(t['t'], t['label']) for t in toks]
    pairs = []
    i = 0
    for w in want:
        if i < len(toks) and got_seq[i] == (w[0], w[1]):
            pairs.append((toks[i], w))
            i += 1
        elif not (may_miss and set(w[5]) & may_miss):
            i = -1
            break
    if i != len(toks):
        fail('rows shown %s, expected %s%s' % (show(got_seq), show([(w[0], w[1]) for w in want]),
                                               (' (of which %s and what is below them may be missing)' % sorted(may_miss))
                                               if may_miss else ''))
        return None
    ok = True
    for t, w in pairs:
        if w[0] != 'row':
            if t['links']:
                fail('%s document row of %r carries a link' % (w[0], w[1]))
                ok = False
            continue
        _, label, link, exp, p, _c = w
        if ('kind' in t) != link or t['links'] != (1 if link else 0):
            fail('node %r: %d links, has children=%s' % (label, t['links'], link))
            ok = False
        elif link:
            if exact(t['path']) != exact(p):
                fail('link of node %r encodes path %s, expected %s' % (label, t['path'], list(p)))
                ok = False
            if (t['kind'] == 'tree-c') != exp:
                fail('link of node %r is %s but the node is %s' % (
                    label, 'collapse' if t['kind'] == 'tree-c' else 'expand', 'expanded' if exp else 'collapsed'))
                ok = False
            if t['anchor'] != (str(p[-1]), str(p[-1])):
                fail('link of node %r is anchored at %r, expected %r' % (label, t['anchor'], str(p[-1])))
                ok = False
            if t['href'] != ('tree', (URL_PARAM + '&') if v.urlparam else ''):
                fail('link of node %r leads to %r, expected the page itself%s' % (
                    label, t['href'], ' with the urlparam' if v.urlparam else ''))
                ok = False
    if tables != (1, 1):
        fail('the page opens %d tables and closes %d' % tables)
        ok = False
    if not check_cookie:
        return set(expanded) if ok else None
    if cookie is None:
        fail('no state cookie written')
        return None
    sp = cookie_paths(cookie)
    if sp is None:
        fail('the state cookie %r cannot be decoded' % cookie[:80])
        return None
    sp = {p for p in sp if len(p) > 1}
    a = {exact(q): q for q in sp}
    b = {exact(q): q for q in expanded}
    for k in set(a) ^ set(b):
        labels = path_labels(spec, a.get(k) or b.get(k))
        if not (may_miss and labels and set(labels[1:]) & may_miss):
            fail('cookie describes %s, expected %s' % (sorted(sp, key=repr), sorted(expanded, key=repr)))
            return None
    return sp if ok else None


def run_fault_session(res, r, spec, store, v, faults, refused, steps, tag):
    """one browser session on ONE live object tree during which the application's faults come and go"""
    root = build_faulty(spec, store, bool(v.branches), bool(v.idopt))
    _refused.clear()
    _refused.update(refused)
    _faults.clear()
    _faults.update(faults)
    clicks = []
    case = {'tree [id, sort key, children]': sp_repr(spec), 'children_container': store, 'page': fview_source(v),
            'template_class_with_security_hooks': v.hooks, 'refused_items': sorted(refused),
            'faults {node: (raised while, by)}': {k: list(f) for k, f in sorted(faults.items())},
            'requests (+ = the faults are there)': clicks}

    def fail(what):
        changed = data_changed(root)
        if changed:
            what += ' [the children lists of %s, owned by the application, were changed by rendering]' % changed
        res.oracle_fail.append({'case': dict(case), 'what': what})

    def request(cookie, param, armed, expanded, check_cookie=True):
        """-> ('page', toks, cookie, expanded now) | ('refused',) | None when the property is broken"""
        res.evaluations += 1
        _armed[0] = armed
        del _fired[:]
        try:
            toks, newc, tables = frender(v, root, cookie, param)
        except Exception as e:
            _armed[0] = False
            from DocumentTemplate.DT_Util import ValidationError
            kinds = {'ValidationError' if f[2] in ('guard', 've') else 'AppError' for f in _fired}
            if ('ValidationError' in kinds and isinstance(e, ValidationError)) or ('AppError' in kinds and isinstance(e, AppError)):
                res.count('fault_requests_that_failed_as_a_whole')
                return ('refused',)
            try:
                msg = str(e)[:200]
            except Exception:
                msg = '<no message>'
            fail('the last request raised %s: %s%s' % (type(e).__name__, msg, (
                ' (the application had raised %s)' % sorted(kinds)) if kinds else ''))
            return None
        _armed[0] = False
        fired = list(_fired)
        # rows may be missing only under skip_unauthorized, and only the nodes at which a ValidationError was raised
        may_miss = {f[0] for f in fired if f[2] in ('guard', 've')} if v.skip else set()
        if v.skip:
            may_miss -= {f[0] for f in fired if f[1] == 'item'}     # refused items are not in the reference's rows anyway
        now = check_fault_page(fail, spec, v, toks, newc, tables, expanded, refused, may_miss, check_cookie)
        if now is None:
            return None
        if fired and [f for f in fired if f[1] != 'item' or not v.skip]:
            res.count('fault_requests_that_showed_a_page')
        return ('page', toks, newc, now)

    expanded = set()
    all_exp = sp_paths_with_kids(spec)
    cookie = None
    toks = None
    n_refused = n_pages = 0
    for step in range(steps + 1):
        armed = r.random() < 0.55
        if toks is None:
            param, what, target = None, 'GET', set(expanded)
        else:
            linked = [t for t in toks if 'kind' in t]
            opens = [t for t in linked if t['kind'] == 'tree-e']
            c = r.random()
            if c < 0.05 and not refused:        # see `rule`: expand_all under an item guard is left out (reported)
                param, what, target = ('expand_all', 1), 'expand_all', set(all_exp)
            elif c < 0.08:
                param, what, target = ('collapse_all', 1), 'collapse_all', set()
            elif linked:
                t = r.choice(opens) if opens and r.random() < 0.6 else r.choice(linked)
                path = tuple(t['path'])
                param, what = (t['kind'], t['enc']), '%s %s' % (t['kind'], list(path))
                target = (expanded | {path}) if t['kind'] == 'tree-e' else {p for p in expanded if p[:len(path)] != path}
            else:
                param, what, target = None, 'reload', set(expanded)
        clicks.append(('+ ' if armed else '  ') + what)
        got = request(cookie, param, armed, target)
        if got is None:
            return
        if got[0] == 'page':
            _, toks, cookie, expanded = got
            n_pages += 1
            continue
        # the request failed as a whole: the browser still has the old page and the old cookie.  Half of the time the
        # user reloads once the fault is gone: exactly the old state must be shown (the first page of all: a plain GET)
        n_refused += 1
        if r.random() < 0.5:
            clicks.append('  reload')
            got = request(cookie, None, False, set(expanded), check_cookie=False)
            if got is None:
                return
            if got[0] == 'page':        # (an item refused without skip_unauthorized stays refused)
                if toks is None:
                    toks = got[1]
                    cookie = got[2]
                n_pages += 1
    if n_refused and n_pages >= 2:
        res.nt(('faults', tag))
    if n_refused and n_pages >= 3:
        res.sample({'session_with_faults': dict(case)}, cap=8)


def faults_part(res, r, tier):
    def rand_fview(store, docs, skip, hooks):
        order = r.choice(ORDERS)
        if store == 'seq' and 's' in order:
            order = order.replace('s', '')       # left out (reported): sort needs item assignment
        branches = r.choice(BRANCHES)
        if docs and branches.startswith('branches_expr'):
            branches = 'branches=getKids'        # an expression naming a method a leaf lacks is the template's own error
        return FView(r.choice(('this', 'name', 'expr')), order, r.choice(('key', 'skey')), branches,
                     r.choice(('', '', 'id=ident')), skip, r.random() < 0.4, r.random() < 0.35, hooks,
                     r.random() < 0.2, r.random() < 0.2)

    def points_for(v, node, top):
        pts = []
        if not top:
            pts += ['row', 'row']
            if not v.idopt:
                pts.append('id')
            if v.leaves and not node.kids:
                pts += ['leaves', 'leaves']
        if not node.doc:
            pts.append('branches')
        if v.hf and (node.kids or v.leaves):
            pts += ['header', 'footer']
        return pts

    def session(tag, skip, hooks, point=None, mech=None, steps=None):
        for attempt in range(30):
            spec = gen_spec(r, r.randint(4, 12), 3, r.choice(('plain', 'odd', 'int')), r.random() < 0.3, r.random() < 0.5)
            store = r.choice(STORES)
            docs = any(n.doc for n in sp_nodes(spec))
            v = rand_fview(store, docs, skip, hooks)
            if point in ('header', 'footer'):
                v = v._replace(hf=True)
            if point == 'leaves':
                v = v._replace(leaves=True)
            if point == 'id':
                v = v._replace(idopt='')
            nodes = list(sp_nodes(spec))
            faults = {}
            # the fault asked for at a node near the root (so that it is met), then up to two more anywhere
            for k in range(r.randint(1, 3)):
                cand = nodes[:1 + len(spec.kids)] if k == 0 else nodes
                node = r.choice(cand)
                pts = points_for(v, node, node is spec)
                if k == 0 and point:
                    pts = [p for p in pts if p == point]
                if not pts or node.label in faults:
                    continue
                p = r.choice(pts)
                ms = [m for m in FAULT_MECHS if (m != 'guard' or (hooks and p != 'id'))]
                m = mech if (k == 0 and mech in ms) else r.choice(ms)
                faults[node.label] = (p, m)
            if not faults or (point and not any(f[0] == point for f in faults.values())):
                continue
            # items refused by the item guard as well, now and then (not together with leaves: what a node is whose
            # children are all refused is not said anywhere)
            refused = pick_refused(r, spec) if (hooks and not v.leaves and r.random() < 0.3) else set()
            refused -= set(faults)
            for f in faults.values():
                res.count('fault_%s_by_%s%s' % (f[0], f[1], '_skip' if skip else ''))
            res.count('fault_sessions')
            run_fault_session(res, r, spec, store, v, faults, refused, steps or r.randint(5, 12), tag)
            return
    big = tier != 'quick'
    # every point x every mechanism x with / without skip_unauthorized
    for point, mech, skip in itertools.product(FAULT_POINTS, FAULT_MECHS, (True, False)):
        if mech == 'guard' and point == 'id':
            continue
        for rep in range(8 if big else 3):
            session(('grid', point, mech, skip, rep), skip, mech == 'guard' or r.random() < 0.5, point, mech)
    # random sessions
    for t in range(2500 if big else 300):
        session(('random', t), r.random() < 0.6, r.random() < 0.7, steps=r.randint(4, 16))


# --------------------------------------------------------------------------- states of every size
#
# "for any state size": the state is made large in every way a state can be large -- ONE long id, MANY short ids (wide),
# long paths (deep chains), ids that JSON escapes to six bytes per character, ids that do not compress (the cookie itself
# becomes large) -- and its JSON text is made to hit the sizes 2**k - 1, 2**k, 2**k + 1 exactly (k = 8 .. 21 quick,
# .. 24 thorough): whatever buffer, limit or chunk length a layer has, the ladder crosses it.  Each state goes through the
# library's encoder and decoder, through the library's decoder after an INDEPENDENT encoder (zlib at another level,
# base64 from the standard library) and through the independent decoder after the library's encoder.  Then the tag itself:
# trees whose ids are that long / whose nodes are that many, driven through the links the tag generated, checked by the
# same set-of-paths reference as every other history.

def indep_encode(state, level):
    raw = zlib.compress(json.dumps(state).encode('utf-8'), level)
    return base64.b64encode(raw).decode('ascii').rstrip('=').replace('+', '-')


SIZE_FORMS = ('one_id', 'wide', 'deep', 'escaped', 'incompressible', 'clicked_path')


def sized_state(r, form, target):
    """a state of the given form whose JSON text (as json.dumps writes it) has exactly `target` bytes, or as near above
    as the form allows; returns (state, size)"""
    def size(st):
        return len(json.dumps(st).encode('utf-8'))

    def pad(build, unit=1):
        # build(n) must grow by `unit` bytes per step of n
        base = size(build(0))
        n = max(0, (target - base + unit - 1) // unit)
        st = build(n)
        return st, size(st)
    if form == 'one_id':
        return pad(lambda n: [['root', [['k' * n, [['c']]]]]])
    if form == 'clicked_path':      # what a tree-e / tree-c value carries: a flat list of ids
        return pad(lambda n: ['root', 'f' * n, 'c'])
    if form == 'escaped':           # json writes \uXXXX: six bytes per character
        ch = r.choice(['\xe9', '中', '￿', '\x00'])
        return pad(lambda n: [['root', [[ch * n, []], ['z', []]]]], 6)
    if form == 'incompressible':
        letters = 'abcdefghijklmnopqrstuvwxyzABCDEFGHIJKLMNOPQRSTUVWXYZ0123456789-_.~'
        body = ''.join(r.choice(letters) for _ in range(max(0, target - 40)))
        return pad(lambda n: [['root', [[body + 'p' * n, []], ['z']]]])
    if form == 'wide':              # many expanded siblings with short ids
        per = size([['n000000', []]]) - 2 + 2       # entry + ', '
        count = max(1, (target - 40) // per)
        kids = [['n%06d' % i, []] for i in range(count)]
        return pad(lambda n: [['root', kids + [['p' * n, []]]]])
    if form == 'deep':              # a chain of expanded nodes (bounded depth: JSON nesting), the ids share the size
        depth = r.choice((3, 8, 20, 60))
        each = max(1, (target - 40) // depth)

        def build(n):
            st = [['leaf' + 'p' * n, []]]
            for d in range(depth):
                st = [['d%d-' % d + 'y' * each, st]]
            return [['root', st]]
        return pad(build)
    raise ValueError(form)


def size_codec_part(res, r, tier):
    import TreeDisplay.TreeTag as TT
    top = 21 if tier == 'quick' else 24
    ladder = [2 ** k + d for k in range(8, top + 1) for d in (-1, 0, 1)]
    cases = [('one_id', t) for t in ladder]
    for form in SIZE_FORMS[1:]:
        cap = 2 ** 20 + 1 if (form == 'incompressible' and tier == 'quick') else 2 ** top + 1
        own = [t for t in ladder if t <= cap]
        # quick: each other form at a seeded third of the ladder, always including the largest sizes
        pick = own if tier != 'quick' else sorted(set(r.sample(own, len(own) // 3) + own[-2:]))
        cases += [(form, t) for t in pick]
    for form, target in cases:
        state, sz = sized_state(r, form, target)
        desc = {'sized_state': form, 'json_bytes': sz}
        res.evaluations += 1
        res.count('codec_sized_states')
        res.count('codec_size_2^%02d' % (sz.bit_length() - 1))
        res.nt(('sized', form, sz))

        def fail(what):
            res.oracle_fail.append({'case': desc, 'what': 'state of form %r whose JSON text has %d bytes: %s' % (form, sz, what)})
        try:
            c = limited(TT.encode_seq, state)
            back = limited(TT.decode_seq, c)
        except Exception as e:
            fail('cookie round trip raised %s: %.200s' % (type(e).__name__, e))
            continue
        if not (isinstance(c, str) and re.fullmatch(r'[A-Za-z0-9/\-]*', c)):
            fail('cookie value %.60r is not url-safe base64 text' % (c,))
            continue
        if back != state:
            fail('decode_seq(encode_seq(state)) != state: decoded %.80r' % (back,))
        try:
            if indep_decode(c) != state:
                fail('the cookie written does not describe the state (independent decoder)')
        except Exception as e:
            fail('the cookie written cannot be decoded independently: %s: %.200s' % (type(e).__name__, e))
        for level in (r.choice((0, 1)), 9):     # level 0: stored, the cookie is longer than the state
            if level == 0 and sz > 2 ** 20 and tier == 'quick':
                level = 1
            try:
                back2 = limited(TT.decode_seq, indep_encode(state, level))
            except Exception as e:
                fail('decode_seq of an independently encoded cookie (zlib level %d) raised %s: %.200s' % (
                    level, type(e).__name__, e))
                continue
            if back2 != state:
                fail('decode_seq of an independently encoded cookie (zlib level %d) gave %.80r' % (level, back2))


def size_tree_part(res, r, tier):
    """browser sessions on trees whose expansion state is large; returns model requests for the correspondence"""
    reqs = []
    plans = []
    tops = (15, 17, 18, 19, 20, 21) if tier == 'quick' else tuple(range(12, 24))
    for k in tops:
        total = 2 ** k + r.randint(1, 2 ** (k - 2))
        plans.append((r.choice(('flat', 'chain', 'bushy')), total, r.random() < 0.3))
    plans.append(('flat', 2 ** 18 + 2 ** 16, False))       # each shape at least once beyond 2**18
    plans.append(('chain', 2 ** 19 + 7, False))
    plans.append(('many', 2 ** 18 + 2 ** 17, False))        # thousands of expanded nodes with ordinary ids
    if tier != 'quick':
        # (the tag's work grows with the square of the number of expanded folders - 8000 of them take about 3 s -, so
        # this is the largest state the time limit leaves room for; its speed is no part of the property)
        plans.append(('many', 2 ** 20, False))
    for shape_kind, total, escaped in plans:
        if shape_kind == 'flat':
            m = r.randint(2, 12)
            shape = [[[]] for _ in range(m)]                # m folders with one child each
        elif shape_kind == 'chain':
            shape = []
            for _ in range(r.randint(2, 10)):
                shape = [shape, []]                         # a folder with a sub-folder and a leaf, nested
        elif shape_kind == 'bushy':
            def rs(depth_left, budget):
                kids = []
                while budget[0] > 0 and depth_left > 0 and r.random() < 0.65:
                    budget[0] -= 1
                    kids.append(rs(depth_left - 1, budget))
                return kids
            shape = rs(4, [r.randint(6, 16)]) or [[[]]]
        else:
            shape = [[[]] for _ in range(max(2, total // 110))]
        folders = max(1, sum(1 for _ in _shape_folders(shape)))
        if shape_kind == 'many':
            idlen = 100
        else:
            idlen = max(1, total // folders // (6 if escaped else 1))
        fill = r.choice(['\xe9', '中']) if escaped else r.choice('xyq')
        names = lambda i, idlen=idlen, fill=fill: 'v%d-' % i + fill * idlen   # noqa
        root = label(shape, names)
        desc = {'large_ids': shape_kind, 'nodes': sum(1 for _ in all_nodes(root)), 'id_chars': idlen, 'id_fill': ascii(fill),
                'shape': repr(shape) if shape_kind != 'many' else '%d folders with one child each' % len(shape)}
        expand_first = [0.85]

        def picker(linked, rows):
            if not linked:
                return None
            c = r.random()
            if c < 0.04:
                return 'expand_all'
            opens = [x for x in linked if x['kind'] == 'tree-e']
            if opens and r.random() < expand_first[0]:
                return r.choice(opens)
            return r.choice(linked)
        n0 = len(res.oracle_fail)
        if shape_kind == 'many':
            steps, start = 3, 'expand_all'
        else:
            steps, start = min(40, 2 * folders + 4), r.choice(('init', 'init', 'expand_all'))
        req, snaps, idmap = run_history(res, root, picker, steps, start, r)
        for f in res.oracle_fail[n0:]:      # the ids are megabytes: describe the case instead of printing it
            clicks = f['case'].get('clicks') if isinstance(f.get('case'), dict) else None
            f['case'] = dict(desc, clicks=len(clicks or ()))
            f['what'] = '%.600s' % re.sub(r'(.)\1{11,}', lambda m: '%s{x%d}' % (m.group(1), len(m.group(0))), f['what'])
        if snaps and snaps[-1][1]:
            res.count('large_state_cookie_json_2^%02d' % _state_bits(snaps))
        if req is not None and shape_kind != 'many':
            reqs.append((req, snaps, idmap))
        res.nt(('large_ids', shape_kind, total))
        res.count('large_state_histories')
    return reqs


def _shape_folders(shape):
    for k in shape:
        if k:
            yield k
            yield from _shape_folders(k)


def _state_bits(snaps):
    best = 0
    for _, cookie in snaps:
        try:
            s = cookie.replace('-', '+')
            best = max(best, len(zlib.decompress(base64.b64decode(s + '=' * (-len(s) % 4)))))
        except Exception:
            pass
    return max(best, 1).bit_length() - 1


def repr_tree(node):
    return [node.nid, [repr_tree(k) for k in node.spec]]


def run(res, tier, have_driver):
    _hangs[0] = 0
    try:
        _run(res, tier, have_driver)
    except GiveUp:
        # MAX_HANGS requests did not return within the time limit: each is an oracle failure already; stop searching
        res.extra['search_given_up'] = '%d requests exceeded the time limit of %g s' % (_hangs[0], LIMIT)


def _run(res, tier, have_driver):
    r = common.rng('C20')
    res.rule = ('codec: byte strings of every length 0..129 (thorough 0..400) plus boundary lengths, url-unsafe '
                'patterns, states with long / non-ASCII / empty ids; state: tree shapes with <= 7 nodes and depth <= 4 '
                '(quick: 200 seeded shapes; thorough: all), click histories on the links the tag generated '
                '(exhaustive breadth-first up to depth 4 quick / 5 thorough on small trees, random up to 40 on larger '
                'random trees), expand_all / collapse_all; leaves without a branches method; assume_children; '
                'tag options on live application data (oracle only): browser sessions of 3..14 clicks on ONE object '
                'tree that is rendered again for every request, with reloads and other pages (other tag configurations, '
                'compiled once and shared by all sessions) showing the same objects in between; options = '
                '{no order, reverse, sort, sort+reverse} x children handed out as {the container\'s own list (same '
                'object on every call), a fresh list, a tuple, a read-only sequence} x {tpValues, branches=, '
                'branches_expr calling a method, branches_expr naming an attribute} (full grid), root as client / by '
                'name / by expr (with a decoy client), id= (with misleading tpId) / tpId / persistent oid / int ids, '
                'sort attribute plain or method, header+footer, leaves, single, skip_unauthorized with 1..3 refused '
                'items under an item guard, guard refusing nothing, urlparam, nowrap; expected rows / links / cookie '
                'come from an immutable description of the tree (never from the live objects) and the documented '
                'meaning of each option; a request that raises is a failure.  Node ids of every kind (the id is opaque): '
                'codec states and browser sessions (bare tag, random options, histories of 25..40 requests, expand_all / '
                'collapse_all more often) whose ids are strings built from atoms of 9 categories -- unpaired surrogates '
                '(surrogateescape file names), astral, BMP edge values / separators / BOM, Latin-1 and combining forms '
                '(NFC vs NFD siblings), control characters incl. NUL and line ends, JSON syntax and escapes, markup, URL '
                'and cookie syntax, look-alikes (\'\', blanks, leading / trailing blanks, case twins, \'0\' \'00\' '
                '\'1.0\') -- some repeated to 10..60 times their length; the other JSON scalars as ids (0, negative, '
                '> 2**53, > 2**64, floats incl. denormal / 1e300 / -0.0, None, True / False, and the strings that look '
                'like them; links and cookie are compared with the TYPE of every id); ids unique among siblings only '
                '(children named like their parent, like the root, same names under every parent); falsy ids and '
                'their twins (\'\', 0, None, False, 0.0, -0.0, 1, True, \' \', \'0\') forced at the root, below the root and '
                'deeper.  States of every size: codec states in six forms (one long id, many short ids, deep chains, '
                'ids JSON escapes to six bytes a character, ids that do not compress, a clicked path) whose JSON text '
                'has exactly 2**k - 1, 2**k, 2**k + 1 bytes for k = 8..21 (thorough ..24), through the library\'s '
                'encoder + decoder, the library\'s decoder after an independent encoder (zlib level 0 / 1 / 9) and the '
                'independent decoder; browser sessions on trees whose state grows to 2**15 .. 2**21 bytes (flat, '
                'chained, bushy trees with ids of up to hundreds of thousands of characters, ASCII or escaped; thousands '
                'of expanded nodes with ordinary ids), against the set-of-paths reference.  Every compilation, rendering and codec call runs under a time limit of 10 s: no result = '
                'failure, three of them end the search.  Requests during which the application fails (oracle only): '
                'browser sessions of 4..16 requests on one live object tree in which 1..3 nodes fail while the tag asks '
                'them something -- while the node\'s row is drawn, in the header / footer / leaves document of the '
                'expanded node, when its branches are fetched (method, expression, attribute), when it is asked for its '
                'id, when the item guard hands it out -- by {the security hook of the template class refusing the '
                'attribute, the object raising ValidationError itself, the object raising an application error}, with '
                'and without skip_unauthorized (full grid point x mechanism x skip, then random sessions), combined with '
                'header+footer, leaves, sort / reverse, every way of naming root / branches / id and every container, '
                'with and without the security hooks; the faults are there in about half of the requests of a session '
                'and gone in the others.  Such a request either fails as a whole with the error the application raised '
                '(nothing shown, no cookie: the next click is one on the page the browser still has, and a reload '
                'without the fault must show exactly the old state), or a page comes back, and then its rows are those '
                'of the reference, every link carries the path of its own row\'s node and the right direction, the '
                'cookie describes the expanded set and the table is closed; only under skip_unauthorized may the nodes '
                'at which a ValidationError was raised in this request be missing (with what is below them).  '
                'Left out because the unchanged library '
                'fails them (reported, see partial): prefix=, sort on equal keys, sort on a read-only sequence, a page '
                'without sort after a page with sort on the container\'s own list, expand_all with refused items, bytes '
                'ids, ids in which a high surrogate is followed by a low one; '
                'non-trivial = history with >= 2 clicks of which one collapses a node with an expanded descendant, '
                'codec input > 57 bytes, or an option session with >= 3 requests')
    codec_part(res, r, tier, have_driver)
    shapes = gen_trees(tier, r)
    reqs = []
    names_plain = lambda i: 'n%d' % i   # noqa
    names_odd = lambda i: ['r', 'nöde é', 'x' * 60, 'a-b', '0', 'Z z', 'ü', 'q'][i % 8] + str(i)  # noqa
    depth = 4 if tier == 'quick' else 5
    for si, shape in enumerate(shapes):
        root = label([shape] if False else shape, names_odd if si % 3 == 0 else names_plain, docs=si % 4 == 1)
        res.count('tree_nodes=%d' % sum(1 for _ in all_nodes(root)))
        # breadth-first exhaustive histories (indices into the linked rows), bounded fan-out
        frontier = [[]]
        for d in range(depth):
            nxt = []
            for hist in frontier:
                it = iter(hist)

                def picker(linked, rows, it=it):
                    try:
                        i = next(it)
                    except StopIteration:
                        return None
                    return linked[i] if i < len(linked) else None
                req, snaps, idmap = run_history(res, root, picker, len(hist), 'init', r)
                if req is None:
                    continue
                reqs.append((req, snaps, idmap))
                nlinks = len([row for row in snaps[-1][0] if 'kind' in row])
                for i in range(nlinks):
                    nxt.append(hist + [i])
                if len(hist) >= 2:
                    res.nt((si, tuple(hist)))
            frontier = nxt[:60 if tier == 'quick' else 400]
    # larger random trees, long random histories incl. expand_all / collapse_all
    for t in range(80 if tier == 'quick' else 600):
        def rand_shape(depth_left, budget):
            kids = []
            while budget[0] > 0 and depth_left > 0 and r.random() < 0.6:
                budget[0] -= 1
                kids.append(rand_shape(depth_left - 1, budget))
            return kids
        root = label(rand_shape(5, [r.randint(5, 25)]), names_odd if t % 2 else names_plain, docs=t % 3 == 0)

        def picker(linked, rows):
            c = r.random()
            if c < 0.05:
                return 'expand_all'
            if c < 0.08:
                return 'collapse_all'
            return r.choice(linked) if linked else None
        req, snaps, idmap = run_history(res, root, picker, 40, r.choice(['init', 'init', 'expand_all']), r)
        if req is not None:
            reqs.append((req, snaps, idmap))
        res.nt(('random', t))
        res.count('random_histories')
    # assume_children: every node has a link; expanding a childless node changes only the state (oracle only: outside the model)
    for t in range(60 if tier == 'quick' else 500):
        def rand_shape2(depth_left, budget):
            kids = []
            while budget[0] > 0 and depth_left > 0 and r.random() < 0.6:
                budget[0] -= 1
                kids.append(rand_shape2(depth_left - 1, budget))
            return kids
        root = label(rand_shape2(4, [r.randint(3, 12)]), names_plain, docs=t % 2 == 0)

        def picker2(linked, rows):
            return r.choice(linked) if linked else None
        run_history(res, root, picker2, 14, 'init', r, assume=True)
        res.nt(('assume_children', t))
        res.count('assume_children_histories')
    # the tag's options, on live application data rendered again and again (oracle only: outside the model)
    options_part(res, common.rng('C20/options'), tier)
    # requests during which the application fails (oracle only: outside the model)
    faults_part(res, common.rng('C20/faults'), tier)
    # states of every size: the codec on a ladder of exact sizes in six forms, the tag on trees with large / many ids
    rs = common.rng('C20/sizes')
    size_codec_part(res, rs, tier)
    reqs += size_tree_part(res, rs, tier)
    if len(reqs) > 5:
        res.sample({'model_request': reqs[5][0], 'impl_rows_after_last_click': reqs[5][1][-1][0]})
        res.sample({'model_request': reqs[-1][0]})
    if have_driver:
        resp = common.run_driver([q for q, _, _ in reqs])
        for (q, snaps, idmap), rp in zip(reqs, resp):
            if 'ok' not in rp:
                res.harness_errors.append('driver: %r' % (rp,))
                break
            res.corr_checked += 1
            msnaps = rp['ok']
            if len(msnaps) != len(snaps):
                res.corr_mismatch.append({'case': q, 'impl': len(snaps), 'model': len(msnaps), 'diff': 'snapshot count'})
                continue
            for k, ((rows, cookie), ms) in enumerate(zip(snaps, msnaps)):
                irows = [[idmap[row['id']], 'kind' in row, row.get('kind') == 'tree-c'] +
                         ([[idmap[x] for x in row['path']]] if 'path' in row else [None]) for row in rows]
                mrows = [[x[0], x[1], x[2], x[3] if x[1] else None] for x in ms['rows']]
                ipaths = sorted([idmap.get(x, -1) for x in p] for p in (cookie_paths(cookie) or ())) if cookie else None
                mpaths = sorted(ms['paths'])
                if irows != mrows or ipaths != mpaths:
                    res.corr_mismatch.append({'case': q, 'step': k, 'impl': {'rows': irows, 'paths': ipaths},
                                              'model': {'rows': mrows, 'paths': mpaths}, 'diff': 'rows/state'})
                    break
    res.assumptions += ['zlib, json and binascii are external: the codec theorem has their round-trip laws as '
                        'hypotheses; the harness decodes links and cookies with an independent decoder',
                        'clicks are restricted to links the tag generated (the property\'s quantifier)']
    res.partial.append('state-machine refinement (history_invariant) is validated by correspondence and the '
                       'set-of-paths oracle; the codec round trip is proved for all byte strings')
    res.partial.append('tag options (reverse, sort, branches, id, header/footer, leaves, single, skip_unauthorized, '
                       'urlparam) are outside the Lean model: decided by the oracle on live object trees only.  Not '
                       'generated because the unchanged library fails them: <dtml-tree prefix=p> (RuntimeError: '
                       'dictionary changed size during iteration, every input); sort=attr with two equal keys '
                       '(TypeError comparing the nodes, and the application\'s list is left holding (key, node) '
                       'pairs); sort on a sequence without item assignment (TypeError); sort reorders a list handed '
                       'out by the branches method in place, so another page without sort shows that order; '
                       'expand_all under skip_unauthorized writes the ids of refused nodes (and of their descendants) '
                       'into the cookie; an id of type bytes (the link code decodes it, but the state cookie cannot be '
                       'written: TypeError from json on the first request); a str id in which a high surrogate is '
                       'directly followed by a low surrogate as two code points (JSON reads the two escapes back as '
                       'ONE astral character: the node can never be expanded); ids that are not JSON scalars (a tuple '
                       'comes back as a list)')
    res.partial.append('requests during which the application fails are decided by the oracle only (either the request '
                       'fails as a whole with the application\'s error, or the page that comes back is right); not '
                       'generated there: single, assume_children, items refused by the item guard together with leaves '
                       '(nothing says what a node is whose children are all refused), a failing sort attribute (the tag '
                       'swallows the error of a sort method and then compares the methods)')


def search_more(res, tier):
    r2 = common.Result('C20')
    run(r2, 'quick', False)
    return r2.oracle_fail[:5]


def replay(path):
    print('re-run bin/check C20 with the same VERIF_SEED; the failing tree and click list are in the replay file')
    return 1
