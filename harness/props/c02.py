"""C02 — names resolve by documented source precedence; block bindings are scoped.

A. Precedence: the name `n` (and the private name `_p`) defined by every subset of the seven sources — call keywords,
   template variables, last client, first client, call mapping, construction keywords, construction mapping — as a plain
   value, a callable (logged) or a document template; expected winner computed from the documented order; a callable is
   called exactly once and only the winner; a template value is rendered in the caller's namespace with its own defaults
   on top.
B. Scoping: random nestings (depth <= 3) of in / with / let / if (cached condition) / try-except that rebind a, b, c, with
   probes before, inside and after every block; expected values from a scope-stack evaluator over the generator's own
   structure.
C. Callables: by name in a tag -> called; in an expression -> passed uncalled.
   The try tag in every form: handlers naming the class / a base class / another class, in every order, with or without a
   handler for everything, else part, try / finally, failures inside and outside binding blocks, failures handled by an
   enclosing tag.
D. Templates re-entered from inside blocks that shadow their defaults.   E. Objects that gain an attribute while rendering.
F. Realisations of the sources (real classes only; the model knows one kind of object and one kind of mapping): every kind
   of Python object (attributes in the instance / class / base class / property / __getattr__ / slots; empty container,
   __bool__ false, zero number, empty dict / list subclass, equal to everything) at every place an object enters the
   namespace (client, client tuple positions, with, with only, in, client of an explicitly called sub-template), every kind
   of mapping (dict, dict subclass plain / __missing__ / overridden __getitem__, OrderedDict, UserDict, ChainMap,
   mappingproxy, __getitem__-only class, mappings of length 0 that still answer) at every place a mapping enters it (call
   mapping, with mapping, in mapping, mapping of an explicitly called sub-template, construction mapping), values that are
   '' / 0 / None / [] / false objects / callables that are false as objects / bound methods / callables returning a callable /
   callables and templates whose own code raises KeyError or NameError (the error is the outcome: no lower source answers
   instead), namespace objects made in expressions (_.namespace(n=m): m uncalled), seven ways to ask for a name
   (var, entity, var missing=, expression, _[name], _.getitem(name, 0), _.has_key(name)); a grid (kind x place x value kind)
   plus random nestings, each compiled program rendered under several realisations in a row; expected = reference resolver
   using getattr / [] / call on a second copy of the objects.
G. Template objects with a history (real classes only): populations of 2-6 templates of both classes (HTML, String) that are
   pickled / loaded (protocols 0, 2, highest), copy.copy'ed, copy.deepcopy'ed, have their __getstate__ moved into an instance
   made by the constructor or by __new__, get variables (var) and defaults (default) set, get new text / new defaults
   (munge), in every order, and are rendered in between directly (every subset of the sources) and by name from a template
   of either class; a grid (class pair x way a came back x way b came back x subset of b's lower sources x var / default set
   on a) plus random histories; expected = one {defaults, variables} record per object + the documented order.
H. Sources that change while rendering (real classes only): templates whose tags store values in / delete values from the call
   mapping (REQUEST.set), the dictionaries of with mapping / in mapping, and give new attributes to clients / with / in objects -
   inside try bodies that fail afterwards (handled by default / by name / by base class / by a second handler / by an enclosing
   tag / not at all), inside handlers, else and finally parts, inside with / in / let / if blocks and sub-templates called by
   name; grid (enclosing block x changed source x kind of change x form of the try tag) plus random nestings; expected = one
   plain dict per source + a list of layers pushed and popped by the block structure alone.
Correspondence: the programs of A-D on the Lean interpreter model (results + call traces).
"""
import itertools
import json
import zlib

import common
import interp
import proggen

SOURCES = ['kw', 'vars', 'client2', 'client1', 'mapping', 'ckw', 'cmapping']     # highest priority first


# --------------------------------------------------------------------------- A: precedence

def precedence_case(subset, kind, private_subset, single_client_tuple=False):
    """returns (case, expected_output, expected_calls)"""
    templates = [None]
    fn_id = [0]
    src_val = {}

    def value_for(src):
        if kind == 'plain':
            return {'s': 'S_' + src}
        if kind == 'fn':
            fn_id[0] += 1
            return {'f': fn_id[0], 'r': {'s': 'S_' + src}}
        # a document template: shows a name only it defines, a name both define, a name only the caller defines
        blocks = [['lit', 'T_%s(' % src], ['var', ['n', 'who'], False, None, None], ['lit', ','],
                  ['var', ['n', 'own'], False, None, None], ['lit', ','],
                  ['var', ['n', 'only_caller'], False, None, None], ['lit', ')']]
        templates.append({'blocks': blocks, 'globals': [], 'vars': [], 'source': proggen.print_blocks(blocks),
                          'ckw': [['who', {'s': 'sub'}], ['own', {'s': 'own_' + src}]], 'cmapping': []})
        return {'T': len(templates) - 1}

    per = {s: [] for s in SOURCES}
    for s in SOURCES:
        if s in subset:
            v = value_for(s)
            src_val[s] = v
            per[s].append(['n', v])
        if s in private_subset:
            per[s].append(['_p', {'s': 'P_' + s}])
    main_blocks = [['lit', '['], ['var', ['n', 'n'], False, 'UNDEF', None], ['lit', '|'],
                   ['var', ['n', '_p'], False, 'NOPRIV', None], ['lit', ']']]
    kw = per['kw'] + [['who', {'s': 'caller'}], ['only_caller', {'s': 'oc'}]]
    templates[0] = {'blocks': main_blocks, 'globals': [], 'vars': per['vars'], 'source': proggen.print_blocks(main_blocks),
                    'ckw': per['ckw'], 'cmapping': per['cmapping']}
    clients = []
    if per['client1'] or 'client1' in subset or single_client_tuple:
        clients.append({'o': 901, 'a': per['client1']})
    if per['client2']:
        if not clients:
            clients.append({'o': 901, 'a': []})
        clients.append({'o': 902, 'a': per['client2']})
    case = {'templates': templates, 'main': 0, 'clients': clients, 'mapping': per['mapping'], 'kw': kw,
            'classes': proggen.class_table(), 'denied': [], 'guard': False, 'utf8': True}
    # the documented rule
    winner = next((s for s in SOURCES if s in subset), None)
    calls = []
    if winner is None:
        out_n = 'UNDEF'
    elif kind == 'plain':
        out_n = 'S_' + winner
    elif kind == 'fn':
        out_n = 'S_' + winner
        calls = [src_val[winner]['f']]
    else:
        out_n = 'T_%s(sub,own_%s,oc)' % (winner, winner)
    # private names are never taken from client objects, nor from the construction-time mapping
    pw = next((s for s in SOURCES if s in private_subset and s not in ('client1', 'client2', 'cmapping')), None)
    out_p = 'P_' + pw if pw else 'NOPRIV'
    return case, '[%s|%s]' % (out_n, out_p), calls


def precedence_items(r, tier):
    items = []
    all_subsets = []
    for k in range(len(SOURCES) + 1):
        all_subsets += [set(c) for c in itertools.combinations(SOURCES, k)]
    for kind in ('plain', 'fn', 'tmpl'):
        for sub in all_subsets:
            priv = set(r.sample(SOURCES, r.randint(0, 4)))
            items.append(('A', ) + precedence_case(sub, kind, priv, r.random() < 0.3) + ((kind, tuple(sorted(sub))),))
    # private names: every subset
    for sub in all_subsets:
        items.append(('A', ) + precedence_case(set(r.sample(SOURCES, 2)), 'plain', sub) + (('priv', tuple(sorted(sub))),))
    return items


# --------------------------------------------------------------------------- B: scoping

class Raised(Exception):
    def __init__(self, cls):
        self.cls = cls


# the classes the generated templates raise -> the names an except tag can use for them
B_BASES = {'KeyError': ['KeyError', 'LookupError', 'Exception'], 'IndexError': ['IndexError', 'LookupError', 'Exception'],
           'ValueError': ['ValueError', 'Exception'], 'ZeroDivisionError': ['ZeroDivisionError', 'ArithmeticError', 'Exception'],
           'TypeError': ['TypeError', 'Exception']}


class Scope:
    """scope-stack evaluator over the generator's structure"""

    def __init__(self, top, templates=None):
        self.frames = [top]
        self.calls = []
        self.out = []
        self.templates = templates or []

    def raw(self, n):
        for f in reversed(self.frames):
            if n in f:
                return f[n]
        raise KeyError(n)

    def get(self, n):
        v = self.raw(n)
        if isinstance(v, dict) and 'f' in v:
            self.calls.append(v['f'])
            return v['r']
        if isinstance(v, dict) and 'T' in v:
            # a document template: rendered with the current namespace, its own defaults laid on top
            t = self.templates[v['T']]
            saved, self.out = self.out, []
            self.frames.append({k: x for k, x in t.get('ckw', [])})
            self.run(t['blocks'])
            self.frames.pop()
            text, self.out = ''.join(self.out), saved
            return {'s': text}
        return v

    def run(self, blocks):
        for b in blocks:
            k = b[0]
            if k == 'lit':
                self.out.append(b[1])
            elif k == 'var':
                try:
                    v = self.get(b[1][1])
                except KeyError:
                    v = {'s': b[3]}
                self.out.append(v['s'] if isinstance(v, dict) else str(v))
            elif k == 'call':
                e = b[1][1]
                self.raw(e[1])                      # an expression naming a callable: not called
            elif k == 'let':
                d = {}
                self.frames.append(d)
                for n, s in b[1]:
                    if s[0] == 'n':
                        d[n] = self.get(s[1])
                    elif s[1][0] == 'lit':
                        d[n] = s[1][1]
                    else:
                        d[n] = self.raw(s[1][1])    # expr="name": uncalled
                self.run(b[2])
                self.frames.pop()
            elif k == 'with':
                o = self.get(b[1][1])
                self.frames.append({kk: vv for kk, vv in o['a'] if not kk.startswith('_')})
                self.run(b[4])
                self.frames.pop()
            elif k == 'in':
                seq = self.get(b[1][1])
                self.frames.append({b[1][1]: seq})
                for it in seq['l']:
                    self.frames.append({kk: vv for kk, vv in it['a'] if not kk.startswith('_')})
                    self.run(b[3])
                    self.frames.pop()
                self.frames.pop()
            elif k == 'cond':
                cache = {}
                self.frames.append(cache)
                for s, body in b[1]:
                    if s[0] == 'n':
                        try:
                            v = self.get(s[1])
                            cache[s[1]] = v
                        except KeyError:
                            v = None
                    else:
                        v = self.raw(s[1][1])       # expr="name": the callable itself, true
                    if (v.get('s', 'x') != '') if isinstance(v, dict) else v:
                        self.run(body)
                        break
                else:
                    if b[2] is not None:
                        self.run(b[2])
                self.frames.pop()
            elif k == 'unless':
                cache = {}
                self.frames.append(cache)
                try:
                    v = self.get(b[1][1])
                    cache[b[1][1]] = v
                except KeyError:
                    v = None
                if not ((v.get('s', 'x') != '') if isinstance(v, dict) else v):
                    self.run(b[2])
                self.frames.pop()
            elif k == 'try':
                # whatever the body had bound when it raised is gone in the handler and after the tag; the handler: the first
                # one that names the class of the exception or one of its base classes, or has no name; none: the exception
                # goes on to the enclosing tags
                mark, depth = len(self.out), len(self.frames)
                try:
                    self.run(b[1])
                except Raised as e:
                    del self.frames[depth:]
                    handler = next((hb for nm, hb in b[2] if nm == '' or nm in B_BASES[e.cls]), None)
                    if handler is None:
                        raise
                    del self.out[mark:]
                    self.frames.append({'error_type': {'s': e.cls}})
                    self.run(handler)
                    self.frames.pop()
                else:
                    if b[3] is not None:
                        self.run(b[3])
            elif k == 'tryfin':
                depth = len(self.frames)
                try:
                    self.run(b[1])
                except Raised:
                    del self.frames[depth:]
                    self.run(b[2])
                    raise
                self.run(b[2])
            elif k == 'raise':
                raise Raised(b[1])
            else:
                raise ValueError(k)


def probes(r):
    out = []
    for n in r.sample(['a', 'b', 'c', 'error_type', 'sequence-index'], r.randint(1, 3)):
        out += [['lit', '<%s=' % n[0]], ['var', ['n', n], False, '-', None], ['lit', '>']]
    return out


def scoped_blocks(r, depth, counters):
    out = probes(r)
    for _ in range(r.randint(1, 2)):
        if depth == 0:
            break
        k = r.choice(['let', 'with', 'in', 'cond', 'try', 'letexpr', 'tryleak', 'tryforms'])
        counters['n'] += 1
        tag = '%s%d' % (k[0].upper(), counters['n'])
        inner = scoped_blocks(r, depth - 1, counters)
        if k == 'let':
            names = r.sample(['a', 'b', 'c'], r.randint(1, 2))
            binds = [[n, ['e', ['lit', {'s': tag + n}]]] for n in names]
            if r.random() < 0.4:
                binds.append([r.choice(['a', 'b']), ['n', r.choice(['fa', 'b', 'c'])]])
            out.append(['let', binds, inner])
        elif k == 'letexpr':
            # an expression naming a callable binds the callable itself; a later name lookup calls it
            out.append(['let', [[r.choice(['a', 'b']), ['e', ['name', 'fa']]]], inner])
        elif k == 'with':
            out.append(['with', ['n', r.choice(['wo1', 'wo2'])], False, False, inner])
        elif k == 'in':
            out.append(['in', ['n', r.choice(['seq1', 'seq2'])], {}, inner, None])
        elif k == 'cond':
            out.append(['cond', [[['n', r.choice(['fa', 'fz', 'nodef'])], inner],
                                 [r.choice([['n', 'fa'], ['e', ['name', 'fz']]]), inner]], None])
        elif k == 'tryleak':
            # an exception raised INSIDE a binding block (at some iteration / nesting), handled outside it: every binding of
            # the abandoned blocks must be gone in the handler and afterwards
            boom = probes(r) + [['raise', r.choice(['KeyError', 'ValueError']), None, [['lit', 'm']]]]
            w = r.choice(['in', 'in', 'with', 'let', 'in-in'])
            if w == 'in':
                guarded = [['in', ['n', r.choice(['seq1', 'seq2'])], {}, boom, None]]
            elif w == 'in-in':
                guarded = [['in', ['n', 'seq1'], {}, [['in', ['n', 'seq2'], {}, boom, None]], None]]
            elif w == 'with':
                guarded = [['with', ['n', r.choice(['wo1', 'wo2'])], False, False, boom]]
            else:
                guarded = [['let', [['a', ['e', ['lit', {'s': tag + 'a'}]]]], boom]]
            out.append(['try', probes(r) + guarded, [['', inner]], None])
        elif k == 'tryforms':
            # every form of the try tag: handlers that name the class, a base class, another class (in every order, with or
            # without a handler for everything), an else part, try / finally; the body fails inside a binding block, outside
            # one, or not at all; a failure no handler of the tag is for is handled by a tag around it
            cls = r.choice(sorted(B_BASES))
            boom = probes(r) + ([['raise', cls, None, [['lit', 'm']]]] if r.random() < 0.7 else [])
            w = r.choice(['plain', 'in', 'with', 'let'])
            if w == 'in':
                boom = [['in', ['n', r.choice(['seq1', 'seq2'])], {}, boom, None]]
            elif w == 'with':
                boom = [['with', ['n', r.choice(['wo1', 'wo2'])], False, False, boom]]
            elif w == 'let':
                boom = [['let', [[r.choice(['a', 'b']), ['e', ['lit', {'s': tag + 'x'}]]]], boom]]
            names = sorted({n for v in B_BASES.values() for n in v})
            hs = [[n, [['lit', '<%s.%s:' % (tag, n)]] + probes(r) + [['lit', '>']]] for n in r.sample(names, r.randint(0, 2))]
            if r.random() < 0.5 or not hs:
                hs.append(['', inner])
            else:
                hs[-1][1] = hs[-1][1] + inner
            t = ['try', probes(r) + boom, hs, probes(r) if r.random() < 0.4 else None]
            if r.random() < 0.3:
                t = ['tryfin', [t], [['lit', '<fin:']] + probes(r) + [['lit', '>']]]
            if hs[-1][0] != '':
                t = ['try', [t], [['', probes(r)]], None]
            out.append(t)
        else:
            out.append(['try', [['raise', r.choice(['KeyError', 'ValueError']), None, [['lit', 'm']]]],
                        [['', inner]], None])
        out += probes(r)
    return out


def scoping_case(r):
    counters = {'n': 0}
    blocks = scoped_blocks(r, r.choice([1, 2, 3, 3]), counters)
    top = {'a': {'s': 'A0'}, 'b': {'s': 'B0'}, 'c': {'s': 'C0'},
           'fa': {'f': 1, 'r': {'s': 'FA'}}, 'fz': {'f': 2, 'r': {'s': ''}},
           'wo1': {'o': 11, 'a': [['a', {'s': 'W1a'}], ['_priv', {'s': 'x'}]]},
           'wo2': {'o': 12, 'a': [['b', {'s': 'W2b'}], ['c', {'f': 3, 'r': {'s': 'W2c'}}]]},
           'seq1': {'l': [{'o': 21, 'a': [['a', {'s': 'I1a'}]]}, {'o': 22, 'a': [['b', {'s': 'I2b'}]]}]},
           'seq2': {'l': [{'o': 23, 'a': [['c', {'s': 'I3c'}], ['a', {'f': 4, 'r': {'s': 'I3a'}}]]}]}}
    case = {'templates': [{'blocks': blocks, 'globals': [], 'vars': [], 'source': proggen.print_blocks(blocks)}],
            'main': 0, 'clients': [], 'mapping': [], 'kw': [[k, v] for k, v in top.items()],
            'classes': proggen.class_table(), 'denied': [], 'guard': False, 'utf8': True}
    sc = Scope(dict(top))
    # sequence-index is bound by dtml-in only: give the evaluator the same view
    sc2 = ScopeSeq(dict(top))
    sc2.run(blocks)
    return case, ''.join(sc2.out), sc2.calls, ('B', tuple(sorted({b for b in _kinds(blocks)})))


class ScopeSeq(Scope):
    """adds the sequence variables frame of dtml-in (only sequence-index is probed)"""

    def run(self, blocks):
        for b in blocks:
            if b[0] == 'in':
                seq = self.get(b[1][1])
                self.frames.append({b[1][1]: seq})
                sv = {}
                self.frames.append(sv)
                for i, it in enumerate(seq['l']):
                    sv['sequence-index'] = i
                    self.frames.append({kk: vv for kk, vv in it['a'] if not kk.startswith('_')})
                    self.run(b[3])
                    self.frames.pop()
                self.frames.pop()
                self.frames.pop()
            else:
                Scope.run(self, [b])


def _kinds(blocks):
    for b in blocks:
        if b[0] == 'raise':
            yield 'raise'
        if b[0] in ('let', 'with', 'in', 'cond', 'try', 'tryfin'):
            yield b[0]
            if b[0] == 'cond':
                for s, body in b[1]:
                    yield from _kinds(body)
            elif b[0] == 'try':
                yield from _kinds(b[1])
                for nm, hb in b[2]:
                    yield 'except-default' if nm == '' else 'except-named'
                    yield from _kinds(hb)
                if b[3] is not None:
                    yield 'try-else'
                    yield from _kinds(b[3])
            elif b[0] == 'tryfin':
                yield from _kinds(b[1])
                yield from _kinds(b[2])
            else:
                yield from _kinds(b[{'let': 2, 'with': 4, 'in': 3}[b[0]]])


# --------------------------------------------------------------------------- C: callables

def callable_cases():
    f = {'f': 1, 'r': 0}          # a callable returning a false value
    out = []
    for blocks, exp, calls, key in [
        ([['cond', [[['n', 'f'], [['lit', 'T']]]], [['lit', 'F']]]], 'F', [1], 'if-name'),
        ([['cond', [[['e', ['name', 'f']], [['lit', 'T']]]], [['lit', 'F']]]], 'T', [], 'if-expr'),
        ([['var', ['n', 'f'], False, None, None]], '0', [1], 'var-name'),
        ([['call', ['e', ['name', 'f']]]], '', [], 'call-expr'),
        ([['call', ['n', 'f']]], '', [1], 'call-name'),
        ([['var', ['e', ['call', ['name', 'f']]], False, None, None]], '0', [1], 'var-expr-call'),
        ([['unless', ['e', ['name', 'f']], [['lit', 'U']]]], '', [], 'unless-expr'),
        ([['unless', ['n', 'f'], [['lit', 'U']]]], 'U', [1], 'unless-name'),
        ([['let', [['x', ['n', 'f']]], [['var', ['n', 'x'], False, None, None], ['var', ['n', 'x'], False, None, None]]]],
         '00', [1], 'let-name'),
        ([['let', [['x', ['e', ['name', 'f']]]], [['var', ['n', 'x'], False, None, None],
                                                   ['var', ['n', 'x'], False, None, None]]]], '00', [1, 1], 'let-expr'),
        ([['cond', [[['e', ['under', 'f']], [['lit', 'T']]]], [['lit', 'F']]]], 'F', [1], 'if-underscore-getitem'),
    ]:
        for where in ('kw', 'mapping', 'client'):
            case = {'templates': [{'blocks': blocks, 'globals': [], 'vars': [], 'source': proggen.print_blocks(blocks)}],
                    'main': 0, 'clients': [{'o': 900, 'a': [['f', f]]}] if where == 'client' else [],
                    'mapping': [['f', f]] if where == 'mapping' else [], 'kw': [['f', f]] if where == 'kw' else [],
                    'classes': proggen.class_table(), 'denied': [], 'guard': False, 'utf8': True}
            out.append(('C', case, exp, calls, ('C', key, where)))
    return out


# --------------------------------------------------------------------------- D: re-entered templates

def reentry_case(r):
    """a template that reaches itself again (directly, or through a second template) from inside a block that rebinds one
    of its defaults: the inner invocation must still see its OWN defaults on top"""
    indirect = r.random() < 0.4

    def wrapper(stop, inner):
        k = r.choice(['let', 'with', 'in'])
        shadow = {'s': 'SH' + k}
        if k == 'let':
            return ['let', [[stop, ['e', ['lit', 1]]], ['d', ['e', ['lit', shadow]]]], inner], None
        oid = r.randint(30, 60)
        while 'w%d' % oid in extra:      # two wrappers of one case must not share a name
            oid += 1
        o = {'o': oid, 'a': [[stop, 1], ['d', shadow]] + ([['e', {'s': 'SHe'}]] if r.random() < 0.5 else [])}
        name = 'w%d' % oid
        if k == 'with':
            return ['with', ['n', name], False, False, inner], (name, o)
        return ['in', ['n', name], {}, inner, None], (name, {'l': [o]})

    extra = {}

    def body(me, nxt, stop):
        w, bind = wrapper(stop, [['var', ['n', nxt], False, None, None]])
        if bind:
            extra[bind[0]] = bind[1]
        return [['lit', '(%s:' % me], ['var', ['n', 'd'], False, '-', None], ['lit', ','], ['var', ['n', 'e'], False, '-', None],
                ['unless', ['n', stop], [w]], ['lit', ')']]
    if indirect:
        ta = body('A', 'B', 'stopA')
        tb = body('B', 'A', 'stopB')
    else:
        ta = body('A', 'A', 'stopA')
        tb = [['lit', 'unused']]
    main = [['lit', '['], ['var', ['n', 'A'], False, None, None], ['lit', ']']]
    templates = [
        {'blocks': main, 'globals': [], 'vars': [], 'source': proggen.print_blocks(main)},
        {'blocks': ta, 'globals': [], 'vars': [], 'source': proggen.print_blocks(ta),
         'ckw': [['d', {'s': 'Adef'}]] + ([['e', {'s': 'Ae'}]] if r.random() < 0.5 else []), 'cmapping': []},
        {'blocks': tb, 'globals': [], 'vars': [], 'source': proggen.print_blocks(tb),
         'ckw': [['d', {'s': 'Bdef'}]] if r.random() < 0.7 else [], 'cmapping': []},
    ]
    top = {'A': {'T': 1}, 'B': {'T': 2}, 'e': {'s': 'Etop'}}
    top.update(extra)
    case = {'templates': templates, 'main': 0, 'clients': [], 'mapping': [], 'kw': [[k, v] for k, v in top.items()],
            'classes': proggen.class_table(), 'denied': [], 'guard': False, 'utf8': True}
    sc = ScopeSeq(dict(top), templates)
    sc.run(main)
    return case, ''.join(sc.out), sc.calls, ('D', indirect, proggen.print_blocks(ta)[:60])


# --------------------------------------------------------------------------- E: objects that change while rendering

def dynamic_cases(res):
    """a name is looked up while the client / with / in object does not have it (a lower-priority source answers), then a
    method called from the template gives the object that attribute: the higher-priority source must answer from then on"""
    from DocumentTemplate import HTML

    class Order:
        def __init__(self):
            self.calls = 0

        def compute(self):
            self.calls += 1
            self.total = 'total of the order'
            return ''

    cases = [
        ('client', '<dtml-var total>|<dtml-call compute><dtml-var total>', lambda o: ((o,), {'total': 'call mapping'}, {}),
         'call mapping|total of the order'),
        ('client-default', '<dtml-var total>|<dtml-call compute><dtml-var total>', lambda o: ((o,), {}, {}), 'default|total of the order'),
        ('with', '<dtml-with o><dtml-var total>|<dtml-call compute><dtml-var total></dtml-with>', lambda o: ((), {}, {'o': o, 'total': 'kw'}),
         'kw|total of the order'),
        ('in', '<dtml-in l><dtml-var total>|<dtml-call compute><dtml-var total></dtml-in>', lambda o: ((), {'total': 'm'}, {'l': [o]}),
         'm|total of the order'),
        ('if', '<dtml-with o><dtml-if total>Y<dtml-else>N</dtml-if><dtml-call compute><dtml-if total>Y<dtml-else>N</dtml-if></dtml-with>',
         lambda o: ((), {}, {'o': o}), 'NY'),
    ]
    for name, src, build, want in cases:
        o = Order()
        client, mapping, kw = build(o)
        t = HTML(src, total='default') if name == 'client-default' else HTML(src)
        try:
            got = t(client[0] if client else None, mapping, **kw)
        except Exception as e:  # noqa
            got = 'RAISED %s: %s' % (type(e).__name__, e)
        res.evaluations += 1
        res.nt(('dynamic', name))
        res.count('part=E')
        if got != want:
            res.oracle_fail.append({'case': {'part': 'E', 'key': name, 'source': src},
                                    'what': 'an attribute the object gained during the rendering: expected %r, got %r' % (want, got)})


# --------------------------------------------------------------------------- F: realisations of the sources
#
# The model-tied parts A-E realise every source in one way only: clients / with / in objects are instances with the names in
# their __dict__ (always true), mappings are plain dicts, values are non-empty strings.  The property speaks of "the client
# object", "the call mapping", "the value": a source DEFINES a name when Python's own lookup on it answers — getattr(ob, name)
# for an object, m[name] for a mapping — whatever else the source is (empty container, false, zero, equal to everything, a
# dict subclass that computes or normalises its answers, a mapping that is no dict at all), and a value wins whatever its
# truth value is.  Part F runs the real classes on Python objects of all these kinds at every place a source enters the
# namespace (call arguments, client tuples, with / in blocks with and without `mapping`, sub-templates called explicitly
# with a client and `_` or with a mapping of their own, construction-time mapping) and compares with a reference resolver
# that walks the documented order using nothing but getattr / [] / call on a SECOND copy of the same objects.

F_NAMES = ['n', 'title', 'x', 'm']

ATTR_KINDS = ['instance', 'class', 'inherited', 'property', 'getattr', 'slots', 'full-container', 'empty-container',
              'bool-false', 'zero-int', 'empty-dict', 'empty-list', 'eq-anything']
# mapping kinds; the second field: iterating it yields exactly the names it answers (usable as construction-time mapping,
# which the constructor copies key by key); third: bool(m) is true
MAP_KINDS = {'dict': (True, True), 'dict-sub': (True, True), 'ordereddict': (True, True), 'userdict': (True, True),
             'chainmap': (True, True), 'proxy': (True, True), 'dict-missing': (False, True), 'dict-getitem': (False, True),
             'userdict-missing': (False, True), 'getitem-only': (False, True),
             'dict-missing-empty': (False, False), 'getitem-len0': (False, False)}
VALUE_KINDS = ['str', 'empty', 'zero', 'none', 'emptylist', 'falsyobj', 'fn', 'fn-falsy', 'fn-empty', 'method', 'fn-fn',
               'fn-keyerror', 'fn-nameerror', 'tmpl-keyerror']
RAISING_KINDS = ('fn-keyerror', 'fn-nameerror', 'tmpl-keyerror')
RAISING_TEMPLATE = '<dtml-var inner_undefined>'
PROBE_FORMS = ['var', 'ent', 'missing', 'expr', 'item', 'item0', 'has']


class FFn:
    """a callable object (optionally false as an object) that logs its calls"""

    def __init__(self, label, ret, log, falsy=False):
        self.label, self.ret, self.log, self.falsy = label, ret, log, falsy

    def __call__(self):
        self.log.append(self.label)
        if isinstance(self.ret, BaseException):
            raise self.ret
        return self.ret

    def __bool__(self):
        return not self.falsy

    def __str__(self):
        return 'uncalled:' + self.label
    __repr__ = __str__


class FHelper:
    """provider of a bound method"""

    def __init__(self, label, log):
        self.label, self.log = label, log

    def run(self):
        self.log.append(self.label)
        return 'called:' + self.label

    def __repr__(self):
        return 'H(%s)' % self.label


class FFalsy:
    def __init__(self, label):
        self.label = label

    def __bool__(self):
        return False

    def __str__(self):
        return 'falsyobj:' + self.label
    __repr__ = __str__


def f_template_str(source):
    """str() of an HTML template object (what an expression that merely names it prints): its source as HTML text"""
    import html
    return html.escape(source, quote=False).replace('"', '&quot;')


class FRaisingTemplate:
    """reference-side stand-in of a template VALUE whose text is RAISING_TEMPLATE: rendering it asks for a name nothing
    defines; as an object it prints as its source"""

    def __call__(self):
        raise KeyError('inner_undefined')

    def __str__(self):
        return f_template_str(RAISING_TEMPLATE)


class FSub:
    """reference-side stand-in of a sub-template; as an object it prints as its source"""

    def __init__(self, idx, source):
        self.idx, self.source = idx, source

    def __str__(self):
        return f_template_str(self.source)


def f_value(v, log, engine=False):
    k, label = v
    if k == 'fn-fn':
        # a callable returning a callable: looked up by name it is called ONCE
        return FFn(label, FFn(label + '.inner', 'called twice:' + label, log), log)
    if k == 'fn-keyerror':
        # the winner is a callable whose own code fails with KeyError / NameError: the error is the outcome
        return FFn(label, KeyError('inner.' + label), log)
    if k == 'fn-nameerror':
        return FFn(label, NameError('inner.' + label), log)
    if k == 'tmpl-keyerror':
        if engine:
            from DocumentTemplate import HTML
            return HTML(RAISING_TEMPLATE)
        return FRaisingTemplate()
    if k == 'str':
        return label
    if k == 'empty':
        return ''
    if k == 'zero':
        return 0
    if k == 'none':
        return None
    if k == 'emptylist':
        return []
    if k == 'falsyobj':
        return FFalsy(label)
    if k == 'fn':
        return FFn(label, 'called:' + label, log)
    if k == 'fn-falsy':
        return FFn(label, 'called:' + label, log, falsy=True)
    if k == 'fn-empty':
        return FFn(label, '', log)
    if k == 'method':
        return FHelper(label, log).run
    raise ValueError(k)


def f_attr_source(kind, label, attrs):
    """an object whose attributes are `attrs` (name -> Python value), realised as `kind`"""
    d = dict(attrs)
    ns = {'__repr__': lambda self: '<%s %s>' % (kind, label)}
    base, args, inst = (), (), True
    if kind in ('class', ):
        ns.update(d)
        inst = False
    elif kind == 'inherited':
        base, inst = (type('Base', (), dict(d)),), False
    elif kind == 'property':
        for k, v in d.items():
            ns[k] = property(lambda self, _v=v: _v)
        inst = False
    elif kind == 'getattr':
        def __getattr__(self, name):
            try:
                return d[name]
            except KeyError:
                raise AttributeError(name)
        ns['__getattr__'] = __getattr__
        inst = False
    elif kind == 'slots':
        ns['__slots__'] = tuple(d)
    elif kind == 'full-container':
        ns['__len__'] = lambda self: 3
    elif kind == 'empty-container':
        ns['__len__'] = lambda self: 0
        ns['__iter__'] = lambda self: iter(())
    elif kind == 'bool-false':
        ns['__bool__'] = lambda self: False
    elif kind == 'zero-int':
        base, args = (int,), (0,)
    elif kind == 'empty-dict':
        base = (dict,)
    elif kind == 'empty-list':
        base = (list,)
    elif kind == 'eq-anything':
        ns['__eq__'] = lambda self, other: True
        ns['__ne__'] = lambda self, other: False
        ns['__hash__'] = lambda self: 0
    elif kind != 'instance':
        raise ValueError(kind)
    o = type('K_' + kind.replace('-', '_'), base, ns)(*args)
    if inst:
        for k, v in d.items():
            setattr(o, k, v)
    return o


def f_map_source(kind, label, items):
    """a mapping that answers m[name] for `items` (name -> Python value), realised as `kind`"""
    import collections
    import types
    d = dict(items)

    def answer(key):
        try:
            return d[key]
        except KeyError:
            raise KeyError(key)
    if kind == 'dict':
        return d
    if kind == 'dict-sub':
        return type('PlainSub', (dict,), {})(d)
    if kind == 'ordereddict':
        return collections.OrderedDict(d)
    if kind == 'userdict':
        return collections.UserDict(d)
    if kind == 'chainmap':
        return collections.ChainMap({}, d)
    if kind == 'proxy':
        return types.MappingProxyType(d)
    if kind in ('dict-missing', 'dict-missing-empty'):
        # answers computed on demand: `name in m` is false, m.get(name) is None, m[name] answers
        cls = type('Computed', (dict,), {'__missing__': lambda self, key: answer(key)})
        return cls({} if kind.endswith('empty') else {'stored by ' + label: 1})
    if kind == 'userdict-missing':
        cls = type('UComputed', (collections.UserDict,), {'__missing__': lambda self, key: answer(key)})
        return cls({'stored by ' + label: 1})
    if kind == 'dict-getitem':
        # keys normalised on lookup: stored under another spelling than the one asked for
        cls = type('Normalised', (dict,), {'__getitem__': lambda self, key: dict.__getitem__(self, 'k:' + key)})
        return cls({'k:' + k: v for k, v in d.items()})
    if kind == 'getitem-only':
        return type('Lookup', (), {'__getitem__': lambda self, key: answer(key)})()
    if kind == 'getitem-len0':
        return type('LazyRecord', (), {'__getitem__': lambda self, key: answer(key), '__len__': lambda self: 0})()
    raise ValueError(kind)


def f_build_source(desc, log, engine=False):
    """desc: ['attr', kind, label, {name: value-desc}] | ['map', kind, label, {...}] | ['seq', [desc, ...]]"""
    if desc[0] == 'seq':
        return [f_build_source(x, log, engine) for x in desc[1]]
    vals = {k: f_value(v, log, engine) for k, v in desc[3].items()}
    return (f_attr_source if desc[0] == 'attr' else f_map_source)(desc[1], desc[2], vals)


# ---- programs: nodes
#   ['probe', form, name]
#   ['let', [[name, how, arg]], body]            how: 'lit' (arg = text) | 'name' (looked up, called) | 'expr' (uncalled)
#   ['with', source-name, 'attr'|'map'|'ns', only, body]      ('ns': <dtml-with "_.namespace(name=...)">, source-name = [name, how,
#        arg]: how 'lit' name='arg' | 'expr' name=arg, the value of the name `arg` as an expression sees it: uncalled)
#   ['in', source-name, 'attr'|'map', body]
#   ['if', name, body, else-body]
#   ['sub', how, index, client-source-name | None, mapping-source-name | None, [[name, text]] ]
#        how: 'name' <dtml-var subI> | 'call' subI(client, _, **kw) | 'fresh' subI(client, mapping, **kw)

def f_src(nodes):
    out = []
    for b in nodes:
        k = b[0]
        if k == 'probe':
            form, n = b[1], b[2]
            out.append('[%s.%s=' % (n, form))
            out.append({'var': '<dtml-var %s>', 'ent': '&dtml-%s;', 'missing': '<dtml-var %s missing="UNDEF">',
                        'expr': '<dtml-var "%s">', 'item': '<dtml-var "_[\'%s\']">',
                        'item0': '<dtml-var "_.getitem(\'%s\', 0)">',
                        'has': '<dtml-if "_.has_key(\'%s\')">1<dtml-else>0</dtml-if>'}[form] % n)
            out.append(']')
        elif k == 'let':
            args = ' '.join('%s="\'%s\'"' % (n, a) if how == 'lit' else '%s=%s' % (n, a) if how == 'name'
                            else '%s="%s"' % (n, a) for n, how, a in b[1])
            out.append('<dtml-let %s>%s</dtml-let>' % (args, f_src(b[2])))
        elif k == 'with':
            if b[2] == 'ns':
                out.append('<dtml-with "_.namespace(%s=%s)"%s>' % (
                    b[1][0], "'%s'" % b[1][2] if b[1][1] == 'lit' else b[1][2], ' only' if b[3] else ''))
            else:
                out.append('<dtml-with %s%s%s>' % (b[1], ' mapping' if b[2] == 'map' else '', ' only' if b[3] else ''))
            out.append(f_src(b[4]) + '</dtml-with>')
        elif k == 'in':
            out.append('<dtml-in %s%s>(%s)</dtml-in>' % (b[1], ' mapping' if b[2] == 'map' else '', f_src(b[3])))
        elif k == 'if':
            out.append('<dtml-if %s>T%s<dtml-else>F%s</dtml-if>' % (b[1], f_src(b[2]), f_src(b[3])))
        elif k == 'sub':
            how, idx, cl, mp, kw = b[1:]
            if how == 'name':
                out.append('{<dtml-var sub%d>}' % idx)
            else:
                args = [cl or 'None', '_' if how == 'call' else mp] + ["%s='%s'" % (n, t) for n, t in kw]
                out.append('{<dtml-var "sub%d(%s)">}' % (idx, ', '.join(args)))
        else:
            raise ValueError(k)
    return ''.join(out)


class FRef:
    """the documented resolution, on Python objects: a stack of ('attr', object) / ('map', mapping) layers searched from the
    top with getattr / []; by name in a tag: callables are called, templates rendered on the current stack with their own
    defaults on top; in expressions: the value itself"""

    def __init__(self, prog, layers, subs):
        self.prog, self.stack, self.subs = prog, list(layers), subs
        self.out = []

    def raw(self, name):
        for kind, src in reversed(self.stack):
            try:
                if kind == 'attr':
                    if name.startswith('_'):
                        continue
                    return getattr(src, name)
                return src[name]
            except (AttributeError, KeyError):
                continue
        raise KeyError(name)

    def defined(self, name):
        try:
            self.raw(name)
            return True
        except KeyError:
            return False

    def expr_name(self, name):
        try:
            return self.raw(name)
        except KeyError:
            raise NameError(name)

    def called(self, name):
        v = self.raw(name)
        if isinstance(v, FSub):
            return self.sub(v.idx, None, None)
        if callable(v):
            return v()
        return v

    def sub(self, idx, clients, kw, fresh=None):
        """sub-template idx on the current namespace (or, fresh = [mapping layers], on a namespace of its own)"""
        t = self.prog['subs'][idx]
        saved_out, self.out = self.out, []
        saved_stack = self.stack
        if fresh is not None:
            self.stack = list(fresh)
        mark = len(self.stack)
        if fresh is None:
            self.stack.append(('map', self.subs[idx]['ckw']))
        else:
            # its own defaults UNDER the mapping it is given: the top-level order
            self.stack.insert(0, ('map', self.subs[idx]['ckw']))
        for c in clients or ():
            self.stack.append(('attr', c))
        if kw:
            self.stack.append(('map', dict(kw)))
        try:
            self.run(t['nodes'])
            return ''.join(self.out)
        finally:
            self.out = saved_out
            if fresh is None:
                del self.stack[mark:]
            self.stack = saved_stack

    def run(self, nodes):
        for b in nodes:
            k = b[0]
            if k == 'probe':
                form, n = b[1], b[2]
                if form in ('var', 'ent', 'item'):
                    v = str(self.called(n))
                elif form == 'missing':
                    v = str(self.called(n)) if self.defined(n) else 'UNDEF'
                elif form == 'expr':
                    v = str(self.expr_name(n))
                elif form == 'item0':
                    v = str(self.raw(n))
                else:
                    v = '1' if self.defined(n) else '0'
                self.out.append('[%s.%s=%s]' % (n, form, v))
            elif k == 'let':
                d = {}
                self.stack.append(('map', d))
                try:
                    for n, how, a in b[1]:
                        d[n] = a if how == 'lit' else self.called(a) if how == 'name' else self.expr_name(a)
                    self.run(b[2])
                finally:
                    self.stack.pop()
            elif k == 'with':
                if b[2] == 'ns':
                    layer = ('map', {b[1][0]: b[1][2] if b[1][1] == 'lit' else self.expr_name(b[1][2])})
                else:
                    layer = (b[2], self.called(b[1]))
                saved = self.stack
                if b[3]:
                    self.stack = []
                self.stack.append(layer)
                try:
                    self.run(b[4])
                finally:
                    self.stack.pop()
                    self.stack = saved
            elif k == 'in':
                for item in self.called(b[1]):
                    self.stack.append((b[2], item))
                    self.out.append('(')
                    try:
                        self.run(b[3])
                    finally:
                        self.stack.pop()
                    self.out.append(')')
            elif k == 'if':
                cache = {}
                self.stack.append(('map', cache))
                try:
                    try:
                        v = self.called(b[1])
                        cache[b[1]] = v
                    except KeyError as e:
                        if e.args[0] != b[1]:
                            raise           # the KeyError of a callable's own code is not "name undefined"
                        v = None
                    self.out.append('T' if v else 'F')
                    self.run(b[2] if v else b[3])
                finally:
                    self.stack.pop()
            elif k == 'sub':
                how, idx, cl, mp, kw = b[1:]
                if how == 'name':
                    self.out.append('{%s}' % self.called('sub%d' % idx))
                    continue
                self.expr_name('sub%d' % idx)
                clients = [self.expr_name(cl)] if cl else []
                fresh = None
                if how == 'fresh':
                    fresh = [('map', self.expr_name(mp))]
                self.out.append('{%s}' % self.sub(idx, clients, kw, fresh))
            else:
                raise ValueError(k)


def f_expected(prog, world):
    """reference outcome: ('ok', text) | ('raise', class name, undefined name), and the calls made"""
    log = []
    blocks = {k: f_build_source(d, log) for k, d in world['blocks'].items()}
    subs = [{'ckw': {k: f_value(v, log) for k, v in t['ckw'].items()}} for t in prog['subs']]
    kw = {k: f_value(v, log) for k, v in world['kw'].items()}
    kw.update(blocks)
    for i in range(len(prog['subs'])):
        kw['sub%d' % i] = FSub(i, f_src(prog['subs'][i]['nodes']))
    layers = []
    if prog['cmapping']:
        layers.append(('map', f_build_source(prog['cmapping'], log)))
    layers.append(('map', {k: f_value(v, log) for k, v in prog['ckw'].items()}))
    if world['mapping']:
        layers.append(('map', f_build_source(world['mapping'], log)))
    for c in world['clients']:
        layers.append(('attr', f_build_source(c, log)))
    layers.append(('map', {k: f_value(v, log) for k, v in prog['vars'].items()}))
    layers.append(('map', kw))
    ref = FRef(prog, layers, subs)
    try:
        ref.run(prog['nodes'])
        return ('ok', ''.join(ref.out)), log
    except (KeyError, NameError) as e:
        # a name no source defines: KeyError(name) from a tag, Python's own NameError from an expression
        return ('raise', type(e).__name__, e.args[0]), log


def f_compile(prog):
    """the real templates of a program: compiled once, rendered under every world of the program"""
    from DocumentTemplate import HTML
    log = []
    subs = [HTML(f_src(t['nodes']), **{k: f_value(v, log, True) for k, v in t['ckw'].items()}) for t in prog['subs']]
    ckw = {k: f_value(v, log, True) for k, v in prog['ckw'].items()}
    if prog['cmapping']:
        main = HTML(f_src(prog['nodes']), f_build_source(prog['cmapping'], log, True), **ckw)
    else:
        main = HTML(f_src(prog['nodes']), **ckw)
    if prog['vars']:
        main.var(**{k: f_value(v, log, True) for k, v in prog['vars'].items()})
    return main, subs, log


def f_render(compiled, world):
    main, subs, log = compiled
    del log[:]
    kw = {k: f_value(v, log, True) for k, v in world['kw'].items()}
    kw.update({k: f_build_source(d, log, True) for k, d in world['blocks'].items()})
    for i, t in enumerate(subs):
        kw['sub%d' % i] = t
    clients = [f_build_source(c, log, True) for c in world['clients']]
    client = None
    if world['client_form'] == 'tuple':
        client = tuple(clients)
    elif clients:
        client = clients[0]
    mapping = f_build_source(world['mapping'], log, True) if world['mapping'] else None
    try:
        if mapping is None and world.get('omit_mapping'):
            got = ('ok', main(client, **kw))
        else:
            got = ('ok', main(client, mapping, **kw))
    except Exception as e:  # noqa
        got = ('raise', type(e).__name__, str(e)[:200])
    return got, list(log)


def f_all_probes(names):
    return [['probe', f, n] for n in names for f in PROBE_FORMS]


def f_grid():
    """every kind of object x every place an object enters the namespace, every kind of mapping x every place a mapping
    enters it, x {plain, false, callable, false callable} values: the source under test is the highest one defining `n`
    (a lower-priority source defines it too), and does not define `x` (the lower one answers)"""
    low = {'n': ['str', 'low.n'], 'x': ['str', 'low.x'], 'title': ['str', 'low.title']}
    for vk in VALUE_KINDS:
        # a namespace object made in an expression: _.namespace(n=m) binds the value of m as the expression sees it
        prog = {'nodes': [['with', ['n', 'expr', 'm'], 'ns', False, f_all_probes(['n', 'x'])],
                          ['with', ['n', 'expr', 'm'], 'ns', True, f_all_probes(['n'])], ['probe', 'var', 'n']],
                'subs': [], 'ckw': dict(low), 'cmapping': None, 'vars': {}}
        world = {'kw': {'m': [vk, 'kw.m'], 'n': ['str', 'kw.n']}, 'clients': [], 'client_form': 'single', 'mapping': None,
                 'blocks': {}}
        yield ('ns', 'with-namespace', 'value', vk), prog, world
    # a template bound that way is still rendered on the CURRENT namespace when looked up by name
    prog = {'nodes': [['with', ['n', 'expr', 'sub0'], 'ns', False,
                       [['probe', 'var', 'n'], ['probe', 'item', 'n'], ['probe', 'expr', 'n'],
                        ['let', [['x', 'lit', 'let.x']], [['probe', 'var', 'n'], ['if', 'n', [['probe', 'var', 'n']], []]]]]]],
            'subs': [{'nodes': f_all_probes(['x', 'title']), 'ckw': {'title': ['str', 'sub.title']}}],
            'ckw': dict(low), 'cmapping': None, 'vars': {}}
    yield ('ns', 'with-namespace', 'template', 'str'), prog, {'kw': {'x': ['str', 'kw.x']}, 'clients': [],
                                                                'client_form': 'single', 'mapping': None, 'blocks': {}}
    for vk in ('str', 'empty', 'none', 'fn', 'fn-falsy', 'fn-keyerror', 'tmpl-keyerror'):
        val = {'n': [vk, 'T.n']}
        for pos in ('client', 'client-1tuple', 'client-last', 'client-first', 'with', 'with-only', 'in', 'sub-client',
                    'fresh-client', 'if-inside-with'):
            for kind in ATTR_KINDS:
                prog = {'nodes': f_all_probes(['n', 'x']), 'subs': [], 'ckw': dict(low), 'cmapping': None, 'vars': {}}
                world = {'kw': {}, 'clients': [], 'client_form': 'single', 'mapping': None, 'blocks': {}}
                t = ['attr', kind, 'T', val]
                other = ['attr', 'instance', 'O', {'title': ['str', 'O.title']}]
                if pos.startswith('client'):
                    world['mapping'] = ['map', 'dict', 'M', {'n': ['str', 'M.n'], 'x': ['str', 'M.x']}]
                    world['clients'] = {'client-last': [other, t], 'client-first': [t, other]}.get(pos, [t])
                    world['client_form'] = 'single' if pos == 'client' else 'tuple'
                    prog['nodes'] = f_all_probes(['n', 'x', 'title'])
                elif pos in ('with', 'with-only'):
                    world['blocks'] = {'w1': t}
                    world['kw'] = {'n': ['str', 'kw.n']}
                    inner = f_all_probes(['n']) + ([] if pos == 'with-only' else f_all_probes(['x']))
                    prog['nodes'] = [['probe', 'var', 'n'], ['with', 'w1', 'attr', pos == 'with-only', inner],
                                     ['probe', 'var', 'n']]
                elif pos == 'if-inside-with':
                    world['blocks'] = {'w1': t}
                    world['kw'] = {'n': ['str', 'kw.n']}
                    prog['nodes'] = [['with', 'w1', 'attr', False, [['if', 'n', f_all_probes(['n']), f_all_probes(['n'])]]],
                                     ['if', 'n', [['probe', 'var', 'n']], []]]
                elif pos == 'in':
                    world['blocks'] = {'obs1': ['seq', [t, other, t]]}
                    world['kw'] = {'n': ['str', 'kw.n']}
                    prog['nodes'] = [['in', 'obs1', 'attr', f_all_probes(['n', 'x'])], ['probe', 'var', 'n']]
                else:
                    world['blocks'] = {'w1': t, 'm1': ['map', 'dict', 'M', {'n': ['str', 'M.n'], 'x': ['str', 'M.x']}]}
                    world['kw'] = {'x': ['str', 'kw.x']}
                    # explicitly called with the caller's namespace: `x` comes from the caller; with a mapping of its own: the
                    # caller's namespace is not visible, m1 answers `x`
                    prog['subs'] = [{'nodes': f_all_probes(['n', 'x', 'title']),
                                     'ckw': {'n': ['str', 'sub.n'], 'title': ['str', 'sub.title']}}]
                    prog['nodes'] = [['sub', 'call' if pos == 'sub-client' else 'fresh', 0, 'w1', 'm1', []],
                                     ['probe', 'var', 'n']]
                yield ('attr', pos, kind, vk), prog, world
        for pos in ('mapping', 'with-mapping', 'with-mapping-only', 'in-mapping', 'fresh-mapping', 'cmapping',
                    'let-inside-with-mapping'):
            for kind, (iterable, truthy) in MAP_KINDS.items():
                if pos == 'cmapping' and not iterable:
                    continue            # the constructor copies the names the mapping lists
                if pos in ('mapping', 'fresh-mapping') and not truthy:
                    # left out: see F_UNCHANGED_LIBRARY_GAP below
                    continue
                prog = {'nodes': f_all_probes(['n', 'x']), 'subs': [], 'ckw': dict(low), 'cmapping': None, 'vars': {}}
                world = {'kw': {}, 'clients': [], 'client_form': 'single', 'mapping': None, 'blocks': {}}
                t = ['map', kind, 'T', val]
                if pos == 'mapping':
                    world['mapping'] = t
                elif pos == 'cmapping':
                    prog['cmapping'] = t
                    # `n` is defined by nothing else; `title` by nothing at all
                    prog['ckw'] = {'x': ['str', 'low.x']}
                    prog['nodes'] = f_all_probes(['n', 'x']) + [['probe', 'missing', 'title'], ['probe', 'has', 'title']]
                elif pos in ('with-mapping', 'with-mapping-only'):
                    only = pos.endswith('only')
                    world['blocks'] = {'m1': t}
                    world['kw'] = {'n': ['str', 'kw.n']}
                    inner = f_all_probes(['n']) + ([] if only else f_all_probes(['x']))
                    prog['nodes'] = [['probe', 'var', 'n'], ['with', 'm1', 'map', only, inner], ['probe', 'var', 'n']]
                elif pos == 'let-inside-with-mapping':
                    world['blocks'] = {'m1': t}
                    world['kw'] = {'n': ['str', 'kw.n']}
                    prog['nodes'] = [['with', 'm1', 'map', False,
                                      [['probe', 'var', 'n'], ['let', [['x', 'name', 'n'], ['title', 'expr', 'n']],
                                                               f_all_probes(['n']) + [['probe', 'var', 'x'],
                                                                                      ['probe', 'var', 'title']]],
                                       ['let', [['n', 'lit', 'let.n']], [['probe', 'var', 'n']]], ['probe', 'var', 'n']]],
                                     ['probe', 'var', 'n']]
                elif pos == 'in-mapping':
                    world['blocks'] = {'rows1': ['seq', [t, ['map', 'dict', 'O', {'x': ['str', 'O.x']}], t]]}
                    world['kw'] = {'n': ['str', 'kw.n']}
                    prog['nodes'] = [['in', 'rows1', 'map', f_all_probes(['n', 'x'])], ['probe', 'var', 'n']]
                else:
                    world['blocks'] = {'m1': t}
                    world['kw'] = {'x': ['str', 'kw.x']}
                    prog['subs'] = [{'nodes': f_all_probes(['n', 'x', 'title']),
                                     'ckw': {'n': ['str', 'sub.n'], 'x': ['str', 'sub.x'], 'title': ['str', 'sub.title']}}]
                    prog['nodes'] = [['sub', 'fresh', 0, None, 'm1', []], ['probe', 'var', 'n']]
                yield ('map', pos, kind, vk), prog, world


# On the UNCHANGED library a call mapping that is false as an object is not consulted at all (String.__call__: `if mapping:
# push(mapping)`), although m[name] answers: e.g. HTML('<dtml-var n>', n='default')(None, Computed()) with
# class Computed(dict): __missing__ = lambda self, k: 'computed' prints 'default'.  The kinds 'dict-missing-empty' and
# 'getitem-len0' are therefore used for with / in blocks only (where they are consulted) and not as call mapping.
F_UNCHANGED_LIBRARY_GAP = 'falsy call mapping is dropped'


def f_random_values(r, label, p=0.5, names=F_NAMES):
    out = {}
    for n in names:
        if r.random() < p:
            vk = 'str' if r.random() < 0.5 else r.choice(VALUE_KINDS)
            if vk in RAISING_KINDS and r.random() < 0.85:
                vk = 'str'          # a raising winner ends the rendering: keep them rare
            out[n] = [vk, '%s.%s' % (label, n)]
    return out


def f_random_probes(r, k=2, forms=PROBE_FORMS):
    return [['probe', r.choice(forms), r.choice(F_NAMES)] for _ in range(r.randint(1, k))]


def f_random_nodes(r, depth, subs_ok=True):
    out = f_random_probes(r)
    for _ in range(r.randint(1, 2)):
        if depth == 0:
            break
        k = r.choice(['with-attr', 'with-map', 'in-attr', 'in-map', 'let', 'if', 'with-ns', 'with-only', 'sub'])
        if k == 'sub' and not subs_ok:
            k = 'let'
        inner = f_random_nodes(r, depth - 1, subs_ok)
        if k == 'with-attr':
            out.append(['with', r.choice(['w1', 'w2']), 'attr', False, inner])
        elif k == 'with-map':
            out.append(['with', r.choice(['m1', 'm2']), 'map', False, inner])
        elif k == 'with-only':
            # nothing outside is visible: probes only, mostly of the forms that do not end the rendering on an undefined name
            kind = r.choice(['attr', 'map'])
            out.append(['with', r.choice(['w1', 'w2'] if kind == 'attr' else ['m1', 'm2']), kind, True,
                        f_random_probes(r, 3, ['missing', 'has', 'missing', 'has', 'var', 'expr'])])
        elif k == 'with-ns':
            n = r.choice(F_NAMES)
            if r.random() < 0.5:
                out.append(['with', [n, 'lit', 'ns.' + n], 'ns', False, inner])
            else:
                # the value of another name, as an expression sees it (a callable stays uncalled), bound to n
                # (a sub-template bound that way: in the grid; here it could reach itself through the names it shows)
                out.append(['with', [n, 'expr', r.choice(F_NAMES)], 'ns', False, inner])
        elif k == 'in-attr':
            out.append(['in', 'obs1', 'attr', inner])
        elif k == 'in-map':
            out.append(['in', 'rows1', 'map', inner])
        elif k == 'let':
            binds = []
            for n in r.sample(F_NAMES, r.randint(1, 2)):
                how = r.choice(['lit', 'lit', 'name', 'expr'])
                binds.append([n, how, 'let.' + n if how == 'lit' else r.choice(F_NAMES)])
            out.append(['let', binds, inner])
        elif k == 'if':
            out.append(['if', r.choice(F_NAMES), inner, f_random_probes(r)])
        else:
            how = r.choice(['name', 'call', 'call', 'fresh'])
            kw = [[n, 'subkw.' + n] for n in F_NAMES if r.random() < 0.2]
            # sub1 has probes only: it can run on a namespace of its own, where the block sources are not visible
            out.append(['sub', how, 1 if how == 'fresh' else r.randint(0, 1),
                        r.choice([None, 'w1', 'w2']) if how != 'name' else None,
                        r.choice(['m1', 'm2']) if how == 'fresh' else None, kw if how != 'name' else []])
        out += f_random_probes(r, 1)
    return out


def f_random_program(r):
    prog = {'nodes': f_random_nodes(r, r.choice([1, 2, 2, 3])),
            'subs': [{'nodes': f_random_nodes(r, 1, subs_ok=False), 'ckw': f_random_values(r, 'sub0', 0.4)},
                     {'nodes': f_random_probes(r, 4), 'ckw': f_random_values(r, 'sub1', 0.8)}],
            # the lowest sources define most names: an undefined name ends the rendering
            'ckw': f_random_values(r, 'ckw', 0.85), 'vars': f_random_values(r, 'vars', 0.15), 'cmapping': None}
    if r.random() < 0.5:
        kind = r.choice([k for k, (it, _) in MAP_KINDS.items() if it])
        prog['cmapping'] = ['map', kind, 'cmapping', f_random_values(r, 'cmapping', 0.6)]
    return prog


def f_random_world(r):
    def attr(label):
        return ['attr', r.choice(ATTR_KINDS), label, f_random_values(r, label)]

    def mp(label, call=False):
        kinds = [k for k, (_, truthy) in MAP_KINDS.items() if truthy or not call]
        return ['map', r.choice(kinds), label, f_random_values(r, label)]
    world = {'kw': f_random_values(r, 'kw', 0.2), 'clients': [attr('client%d' % i) for i in range(r.choice([0, 1, 1, 2, 3]))],
             'mapping': mp('mapping', True) if r.random() < 0.7 else None, 'omit_mapping': r.random() < 0.5,
             # m1 / m2 may become the mapping of a sub-template with a namespace of its own: same restriction as the call mapping
             'blocks': {'w1': attr('w1'), 'w2': attr('w2'), 'm1': mp('m1', True), 'm2': mp('m2', True),
                        'obs1': ['seq', [attr('obs1_%d' % i) for i in range(r.randint(1, 3))]],
                        'rows1': ['seq', [mp('rows1_%d' % i) for i in range(r.randint(1, 3))]]}}
    world['client_form'] = 'tuple' if len(world['clients']) != 1 or r.random() < 0.3 else 'single'
    if not world['clients']:
        world['client_form'] = 'single'
    return world


def source_kind_cases(res, r, tier, out=None):
    """part F on the real classes; failures go to res.oracle_fail (or `out`)"""
    fails = res.oracle_fail if out is None else out
    n_prog = 150 if tier == 'quick' else 1500

    def one(key, prog, compiled, world):
        (exp, exp_calls) = f_expected(prog, world)
        got, got_calls = f_render(compiled, world)
        res.evaluations += 1
        res.nt(('F',) + key)
        res.count('part=F')
        res.count('F:place=%s' % key[1] if key[0] != 'random' else 'F:random')
        if exp[0] == 'raise':
            res.count('F:expected-' + exp[1])
        if exp[0] == 'raise':
            ok = got[:2] == exp[:2] and exp[2] in got[2]
        else:
            ok = got == exp and got_calls == exp_calls
        if not ok:
            fails.append({'case': {'part': 'F', 'key': key, 'source': f_src(prog['nodes']),
                                   'sub_templates': [[f_src(t['nodes']), t['ckw']] for t in prog['subs']],
                                   'construction': {'keywords': prog['ckw'], 'mapping': prog['cmapping'], 'vars': prog['vars']},
                                   'world': world},
                          'what': 'sources realised as %s: the documented order (getattr / [] on each source, highest first) gives '
                                  '%r with calls %r; the engine gives %r with calls %r' % (
                                      key, exp, exp_calls, got, got_calls)})
    for key, prog, world in f_grid():
        one(key, prog, f_compile(prog), world)
    for i in range(n_prog):
        prog = f_random_program(r)
        compiled = f_compile(prog)
        # the same compiled templates under several realisations of the sources, one after the other
        for j in range(4):
            world = f_random_world(r)
            kinds = sorted({c[1] for c in world['clients']} | ({world['mapping'][1]} if world['mapping'] else set()))
            for c in world['clients']:
                res.count('F:random-client-kind=' + c[1])
            if world['mapping']:
                res.count('F:random-mapping-kind=' + world['mapping'][1])
            one(('random', zlib.crc32(f_src(prog['nodes']).encode()) % 100000, j, tuple(kinds)), prog, compiled, world)


# --------------------------------------------------------------------------- G: template objects with a history
#
# Parts A-F render freshly constructed templates.  The property speaks of "variables set on THE template" and of a template's
# "own defaults": both are state of one template object, and a template object has a life - it is pickled and loaded, copied
# (copy.copy / copy.deepcopy), has its state moved into a new instance (__getstate__ -> __dict__ of an instance made by the
# constructor or by __new__), gets variables (var) and defaults (default) set, has its text or its defaults replaced (munge),
# and all that happens to SEVERAL templates (of both classes) living side by side.  Part G generates such populations with
# their histories and renders members in between: directly under every subset of the sources, and by name from a template of
# either class.  Reference: a plain record per object {defaults, variables} - a copy of an object has equal but separate
# records, var / default change the record of the object they are called on and of no other, munge with new defaults starts
# the record anew - and the documented order over (kw, variables, clients last first, mapping, defaults).

G_CLASSES = ('HTML', 'String')
G_NAMES = ('x', 'y', 'z')
# ways an object comes back from its state; second field: the copy shares its members with the original (a shallow copy), so
# the copy takes the original's place in the population
G_CLONES = {'pickle0': False, 'pickle2': False, 'pickle-highest': False, 'deepcopy': False, 'copy': True,
            'state-into-constructed': True, 'state-into-new': True, 'deep-state-into-new': False}


def g_source(cls, probes):
    out = []
    for n, missing in probes:
        if cls == 'HTML':
            out.append('[%s=<dtml-var %s%s>]' % (n, n, ' missing="UNDEF"' if missing else ''))
        else:
            out.append('[%s=%%(%s%s)s]' % (n, n, ' missing=UNDEF' if missing else ''))
    return ''.join(out)


class GClient:
    def __init__(self, d):
        self.__dict__.update(d)


class GModel:
    """reference: one record per template object"""

    def __init__(self):
        self.pool = []

    @staticmethod
    def merged(cmapping, ckw):
        d = dict(ckw)
        for k, v in (cmapping or {}).items():
            if not k.startswith('_') and k not in d:
                d[k] = v
        return d

    def step(self, st):
        """-> None | expected outcome of a rendering step"""
        import copy
        k = st[0]
        if k == 'new':
            self.pool.append({'cls': st[1], 'probes': st[2], 'defaults': self.merged(st[3], st[4]), 'vars': {}})
        elif k == 'clone':
            c = copy.deepcopy(self.pool[st[1]])
            if st[3]:
                self.pool[st[1]] = c
            else:
                self.pool.append(c)
        elif k == 'var':
            self.pool[st[1]]['vars'].update(st[2])
        elif k == 'default':
            self.pool[st[1]]['defaults'].update(st[2])
        elif k == 'munge':
            o = self.pool[st[1]]
            o['probes'] = st[2]
            if st[3] is not None or st[4]:
                o['defaults'], o['vars'] = self.merged(st[3], st[4]), {}
        elif k == 'render':
            o = self.pool[st[1]]
            layers = [st[4], o['vars']] + list(reversed(st[2] or [])) + [st[3] or {}, o['defaults']]
            return self.show(o['probes'], layers)
        elif k == 'render-sub':
            # by name from another template: the caller's namespace with the sub-template's own defaults (and the variables set
            # on it) laid on top
            o = self.pool[st[1]]
            outer_cls, clients, mapping, kw, outer_ckw = st[2:]
            layers = [o['vars'], o['defaults'], kw] + list(reversed(clients or [])) + [mapping or {}, outer_ckw]
            r = self.show(o['probes'], layers)
            return ('ok', '{%s}' % r[1]) if r[0] == 'ok' else r
        else:
            raise ValueError(k)

    @staticmethod
    def show(probes, layers):
        out = []
        for n, missing in probes:
            v = next((d[n] for d in layers if n in d), None)
            if v is None:
                if not missing:
                    return ('raise', 'KeyError', n)
                v = 'UNDEF'
            out.append('[%s=%s]' % (n, v))
        return ('ok', ''.join(out))


class GReal:
    """the same steps on the real classes"""

    def __init__(self):
        self.pool = []

    @staticmethod
    def cls(name):
        from DocumentTemplate.DT_HTML import HTML
        from DocumentTemplate.DT_String import String
        return {'HTML': HTML, 'String': String}[name]

    def clone(self, t, how):
        import copy
        import pickle
        if how.startswith('pickle'):
            proto = {'pickle0': 0, 'pickle2': 2, 'pickle-highest': pickle.HIGHEST_PROTOCOL}[how]
            return pickle.loads(pickle.dumps(t, proto))
        if how == 'deepcopy':
            return copy.deepcopy(t)
        if how == 'copy':
            return copy.copy(t)
        c = type(t)() if how == 'state-into-constructed' else type(t).__new__(type(t))
        state = t.__getstate__()
        c.__dict__.update(copy.deepcopy(state) if how.startswith('deep') else state)
        return c

    def step(self, st):
        k = st[0]
        if k == 'new':
            args = (g_source(st[1], st[2]),) + ((dict(st[3]),) if st[3] is not None else ())
            self.pool.append(self.cls(st[1])(*args, **dict(st[4])))
        elif k == 'clone':
            c = self.clone(self.pool[st[1]], st[2])
            if st[3]:
                self.pool[st[1]] = c
            else:
                self.pool.append(c)
        elif k == 'var':
            self.pool[st[1]].var(**st[2])
        elif k == 'default':
            self.pool[st[1]].default(**st[2])
        elif k == 'munge':
            t = self.pool[st[1]]
            src = g_source(type(t).__name__, st[2])
            if st[3] is not None:
                t.munge(src, dict(st[3]), **dict(st[4]))
            else:
                t.munge(src, **dict(st[4]))
        elif k in ('render', 'render-sub'):
            t = self.pool[st[1]]
            if k == 'render':
                clients, mapping, kw = st[2:]
            else:
                outer_cls, clients, mapping, kw, outer_ckw = st[2:]
                kw = dict(kw, t=t)
                t = self.cls(outer_cls)('{<dtml-var t>}' if outer_cls == 'HTML' else '{%(t)s}', **dict(outer_ckw))
            client = None
            if clients is not None:
                client = GClient(clients[0]) if len(clients) == 1 else tuple(GClient(c) for c in clients)
            try:
                if mapping is None:
                    return ('ok', t(client, **dict(kw)))
                return ('ok', t(client, dict(mapping), **dict(kw)))
            except KeyError as e:
                return ('raise', 'KeyError', e.args[0] if e.args else None)
            except Exception as e:  # noqa
                return ('raise', type(e).__name__, str(e)[:200])
        else:
            raise ValueError(k)


def g_run_history(res, key, steps, fails):
    """runs one history on the reference and on the real classes; every rendering step is compared"""
    model, real = GModel(), GReal()
    for i, st in enumerate(steps):
        exp = model.step(st)
        try:
            got = real.step(st)
        except Exception as e:  # noqa
            got = ('step-raised', type(e).__name__, str(e)[:200])
            exp = exp or 'the step succeeds'
        if st[0] in ('render', 'render-sub') or exp is not None:
            res.evaluations += 1
            res.count('part=G')
            res.count('G:' + st[0])
            if got != exp:
                pool = [dict(o, cls=o['cls']) for o in model.pool]
                fails.append({'case': {'part': 'G', 'key': key, 'history': steps[:i + 1], 'failing_step': i,
                                       'reference_records': pool},
                              'what': 'template objects with a history: step %d %r: each object has its own variables and '
                                      'defaults, so the documented order gives %r; the engine gives %r' % (i, st, exp, got)})
                return False
    res.nt(('G',) + key)
    return True


def g_vals(r, label, names=G_NAMES, p=0.5):
    return {n: '%s.%s' % (label, n) for n in names if r.random() < p}


def g_probes(r):
    names = r.sample(G_NAMES, r.randint(1, 3))
    return [[n, r.random() < 0.7] for n in names]


def g_render_step(r, i, tag, p=0.4):
    ncl = r.choice([None, None, 1, 1, 2])
    clients = None if ncl is None else [g_vals(r, '%s.client%d' % (tag, j), p=p) for j in range(ncl)]
    mapping = g_vals(r, tag + '.mapping', p=p) if r.random() < 0.6 else None
    kw = g_vals(r, tag + '.kw', p=0.15)
    if r.random() < 0.3:
        return ['render-sub', i, r.choice(G_CLASSES), clients, mapping, kw, g_vals(r, tag + '.outer', p=0.3)]
    return ['render', i, clients, mapping, kw]


def g_random_history(r):
    steps = []
    n = 0
    for j in range(r.randint(2, 4)):
        steps.append(['new', r.choice(G_CLASSES), g_probes(r), g_vals(r, 'o%d.cmapping' % j) if r.random() < 0.4 else None,
                      g_vals(r, 'o%d.ckw' % j, p=0.4)])
        n += 1
    for s in range(r.randint(6, 16)):
        i = r.randrange(n)
        tag = 's%d' % s
        k = r.choice(['clone', 'clone', 'clone', 'var', 'var', 'default', 'munge', 'render', 'render', 'render', 'render'])
        if k == 'clone':
            how = r.choice(list(G_CLONES))
            replace = G_CLONES[how] or n >= 6 or r.random() < 0.5
            steps.append(['clone', i, how, replace])
            n += 0 if replace else 1
        elif k == 'var':
            steps.append(['var', i, g_vals(r, tag + '.var', p=0.45) or {'x': tag + '.var.x'}])
        elif k == 'default':
            steps.append(['default', i, g_vals(r, tag + '.default', p=0.4) or {'y': tag + '.default.y'}])
        elif k == 'munge':
            again = r.random() < 0.4
            steps.append(['munge', i, g_probes(r), (g_vals(r, tag + '.mmapping') or {'z': tag + '.mmapping.z'})
                          if again and r.random() < 0.5 else None, g_vals(r, tag + '.mkw', p=0.4) if again else {}])
        else:
            steps.append(g_render_step(r, i, tag))
    # at the end every member is rendered: alone, under all sources, and by name
    for i in range(n):
        steps.append(['render', i, None, None, {}])
        steps.append(g_render_step(r, i, 'end%d' % i, p=0.6))
    return steps


def g_grid(r, tier):
    """two templates a, b (every pair of classes) and a third one c that defines nothing, each brought back from its state in
    every way (or not at all); then a variable / a default is set on a; b is rendered under every subset of its own sources
    below the template variables (client, mapping, construction keywords, construction mapping) and by name, c alone"""
    lows = [set(c) for k in range(5) for c in itertools.combinations(['client', 'mapping', 'ckw', 'cmapping'], k)]
    hows = [None] + list(G_CLONES)
    for ca, cb in itertools.product(G_CLASSES, G_CLASSES):
        for ha, hb in itertools.product(hows, hows):
            for low in (lows if tier == 'thorough' else r.sample(lows, 6)):
                for op in (('var', 'default') if tier == 'thorough' else (r.choice(['var', 'var', 'default']),)):
                    pr = [['x', True], ['y', True]]
                    steps = [['new', ca, pr, None, {'x': 'a.ckw.x'} if r.random() < 0.5 else {}],
                             ['new', cb, pr, {'x': 'b.cmapping.x', 'y': 'b.cmapping.y'} if 'cmapping' in low else None,
                              {'x': 'b.ckw.x'} if 'ckw' in low else {}],
                             ['new', cb, [['x', False]], None, {}]]
                    if ha:
                        steps.append(['clone', 0, ha, True])
                    if hb:
                        steps += [['clone', 1, hb, True], ['clone', 2, hb, True]]
                    steps.append([op, 0, {'x': 'a.%s.x' % op, 'y': 'a.%s.y' % op}])
                    clients = [{'x': 'b.client.x'}] if 'client' in low else None
                    mapping = {'x': 'b.mapping.x'} if 'mapping' in low else None
                    steps += [['render', 0, [{'x': 'a.client.x'}], None, {}],
                              ['render', 1, clients, mapping, {}],
                              ['render-sub', 1, ca, clients, mapping, {}, {'y': 'outer.ckw.y'}],
                              ['render', 2, None, None, {}],
                              ['render', 2, [{'x': 'c.client.x'}], None, {}],
                              ['var', 1, {'y': 'b.var.y'}],
                              ['render', 0, None, None, {}], ['render', 1, clients, mapping, {}],
                              ['render', 2, None, {'x': 'c.mapping.x'}, {}]]
                    yield ('grid', ca, cb, ha, hb, op, tuple(sorted(low))), steps


def history_cases(res, r, tier, out=None):
    fails = res.oracle_fail if out is None else out
    for key, steps in g_grid(r, tier):
        g_run_history(res, key, steps, fails)
    for i in range(400 if tier == 'quick' else 6000):
        steps = g_random_history(r)
        kinds = tuple(sorted({st[2] for st in steps if st[0] == 'clone'}))
        g_run_history(res, ('random', kinds, len(steps), i), steps, fails)
        if len(fails) > 20:
            break


# --------------------------------------------------------------------------- H: sources that change while rendering
#
# Parts A-G keep every source as it was when the rendering began (part E: five fixed templates whose object gains one
# attribute).  The property's order is about the sources as they ARE when a name is asked for: templates store values in the
# mapping they were called with (the REQUEST.set idiom), in dictionaries that are on the namespace through `with mapping` /
# `in mapping`, give attributes to the client / with / in objects - and they do so anywhere: inside the body of a try tag
# that fails afterwards, inside its handler / else / finally part, inside with / in / let / if blocks, inside a sub-template
# called by name.  A source that grows, shrinks or gets a value replaced changes what IT answers and nothing else: which
# layers are on the namespace, and in which order, is decided by the tags alone.  Part H generates templates whose tags
# mutate the sources (put: new name / other value, drop) at every such place, with probes before, inside and after every
# block, and compares with a reference that keeps one plain dict per source and a list of layers pushed / popped by the
# block structure only.

H_NAMES = ['x', 'y', 'z', 'k1', 'k2']
H_MAP_KINDS = ['dict', 'request', 'userdict', 'ordereddict', 'dict-sub']
H_EXC = {'KeyError': ['KeyError', 'LookupError', 'Exception'], 'IndexError': ['IndexError', 'LookupError', 'Exception'],
         'ValueError': ['ValueError', 'Exception'], 'ZeroDivisionError': ['ZeroDivisionError', 'ArithmeticError', 'Exception'],
         'NameError': ['NameError', 'Exception'], 'TypeError': ['TypeError', 'Exception']}
# ways the body of a block fails -> the class of the exception
H_FAIL = {'raise-KeyError': 'KeyError', 'raise-ValueError': 'ValueError', 'raise-IndexError': 'IndexError',
          'raise-TypeError': 'TypeError', 'var-undefined': 'KeyError', 'expr-undefined': 'NameError',
          'expr-zero-division': 'ZeroDivisionError', 'item-undefined': 'KeyError'}
H_FAIL_SRC = {'var-undefined': '<dtml-var no_such_name>', 'expr-undefined': '<dtml-var "no_such_name">',
              'expr-zero-division': '<dtml-var "1/0">', 'item-undefined': '<dtml-var "_[\'no_such_name\']">'}


class HRaised(Exception):
    def __init__(self, cls):
        Exception.__init__(self, cls)
        self.cls = cls


class HObj:
    """an object whose attributes are the names it defines"""

    def __init__(self, label, d):
        self.__dict__.update(d)
        self._label = label

    def __repr__(self):
        return '<HObj %s>' % self._label


def h_put(h, k, v):
    """test-world helper the templates call: store v under k in the source h.  An object only GAINS attributes (the layer
    of an object remembers the attribute values it has served, by design of the unchanged library)"""
    if isinstance(h, HObj):
        if not hasattr(h, k):
            setattr(h, k, v)
    else:
        h[k] = v
    return ''


def h_drop(h, k):
    if not isinstance(h, HObj):
        try:
            del h[k]
        except KeyError:
            pass
    return ''


def h_make_map(kind, d):
    import collections
    if kind == 'dict':
        return dict(d)
    if kind == 'request':
        def set_(self, k, v):
            self[k] = v
        return type('Request', (dict,), {'set': set_})(d)
    if kind == 'dict-sub':
        return type('PlainSub', (dict,), {})(d)
    if kind == 'userdict':
        return collections.UserDict(d)
    if kind == 'ordereddict':
        return collections.OrderedDict(d)
    raise ValueError(kind)


# nodes:  ['probe', form, name]           form: 'missing' | 'has' | 'var' (fails with KeyError when nothing defines the name)
#         ['put', target, key, text] ['drop', target, key]     target: a handle name | 'ITEM' (the item of the innermost in)
#         ['with', handle, 'attr'|'map', body]  ['in', handle, 'attr'|'map', body]  ['let', [[name, text]], body]
#         ['if', name, body, else-body]  ['try', body, [[exception names, body]], else-body | None]
#         ['finally', body, final-body]  ['fail', way]  ['sub', index]

def h_src(nodes, world):
    out = []
    for b in nodes:
        k = b[0]
        if k == 'probe':
            out.append('[%s=' % b[2] + {'missing': '<dtml-var %s missing="-">', 'var': '<dtml-var %s>',
                                        'has': '<dtml-if "_.has_key(\'%s\')">1<dtml-else>0</dtml-if>'}[b[1]] % b[2] + ']')
        elif k in ('put', 'drop'):
            t = "_['sequence-item']" if b[1] == 'ITEM' else b[1]
            if k == 'put' and b[1] == 'R' and world['mapping_kind'] == 'request':
                out.append('<dtml-call "R.set(\'%s\', \'%s\')">' % (b[2], b[3]))
            elif k == 'put':
                out.append('<dtml-call "put(%s, \'%s\', \'%s\')">' % (t, b[2], b[3]))
            else:
                out.append('<dtml-call "drop(%s, \'%s\')">' % (t, b[2]))
        elif k == 'with':
            out.append('<dtml-with %s%s>%s</dtml-with>' % (b[1], ' mapping' if b[2] == 'map' else '', h_src(b[3], world)))
        elif k == 'in':
            out.append('<dtml-in %s%s>(%s)</dtml-in>' % (b[1], ' mapping' if b[2] == 'map' else '', h_src(b[3], world)))
        elif k == 'let':
            out.append('<dtml-let %s>%s</dtml-let>' % (' '.join('%s="\'%s\'"' % (n, t) for n, t in b[1]), h_src(b[2], world)))
        elif k == 'if':
            out.append('<dtml-if %s>T%s<dtml-else>F%s</dtml-if>' % (b[1], h_src(b[2], world), h_src(b[3], world)))
        elif k == 'try':
            s = '<dtml-try>' + h_src(b[1], world)
            for names, hb in b[2]:
                s += '<dtml-except %s>' % ' '.join(names) + h_src(hb, world)
            if b[3] is not None:
                s += '<dtml-else>' + h_src(b[3], world)
            out.append(s + '</dtml-try>')
        elif k == 'finally':
            out.append('<dtml-try>%s<dtml-finally>%s</dtml-try>' % (h_src(b[1], world), h_src(b[2], world)))
        elif k == 'fail':
            out.append(H_FAIL_SRC.get(b[1]) or '<dtml-raise %s>m</dtml-raise>' % H_FAIL[b[1]])
        elif k == 'sub':
            out.append('{<dtml-var sub%d>}' % b[1])
        else:
            raise ValueError(k)
    return ''.join(out)


def h_sources(world):
    """handle -> ('attr' | 'map', {name: text})   (lists for the sequences)"""
    h = {'D1': ('map', world['maps']['D1']), 'D2': ('map', world['maps']['D2']),
         'O1': ('attr', world['objs']['O1']), 'O2': ('attr', world['objs']['O2'])}
    if world['mapping'] is not None:
        h['R'] = ('map', world['mapping'])
    for i, c in enumerate(world['clients']):
        h['C%d' % i] = ('attr', c)
    for i, d in enumerate(world['obs']):
        h['OB%d' % i] = ('attr', d)
    for i, d in enumerate(world['rows']):
        h['ROW%d' % i] = ('map', d)
    return h


class HRef:
    """one plain dict per source; the layers: pushed and popped by the block structure and by nothing else"""

    def __init__(self, prog, world):
        import copy
        self.prog = prog
        self.src = {k: (kind, dict(d)) for k, (kind, d) in h_sources(copy.deepcopy(world)).items()}
        self.seqs = {'OBS': [self.src['OB%d' % i] for i in range(len(world['obs']))],
                     'ROWS': [self.src['ROW%d' % i] for i in range(len(world['rows']))]}
        kw = dict(world['kw'])
        self.stack = [('map', dict(prog['ckw']))]
        if world['mapping'] is not None:
            self.stack.append(self.src['R'])
        for i in range(len(world['clients'])):
            self.stack.append(self.src['C%d' % i])
        if prog['vars']:
            self.stack.append(('map', dict(prog['vars'])))
        self.stack.append(('map', kw))
        self.items = []
        self.out = []

    def lookup(self, name):
        for kind, d in reversed(self.stack):
            if name in d:
                return d[name]
        raise HRaised('KeyError')

    def run(self, nodes):
        for b in nodes:
            k = b[0]
            if k == 'probe':
                try:
                    v = self.lookup(b[2])
                    if b[1] == 'has':
                        v = '1'
                except HRaised:
                    if b[1] == 'var':
                        raise
                    v = '-' if b[1] == 'missing' else '0'
                self.out.append('[%s=%s]' % (b[2], v))
            elif k in ('put', 'drop'):
                kind, d = self.items[-1] if b[1] == 'ITEM' else self.src[b[1]]
                if k == 'put':
                    if kind == 'map' or b[2] not in d:
                        d[b[2]] = b[3]
                elif kind == 'map':
                    d.pop(b[2], None)
            elif k == 'with':
                self.block([(b[2], self.src[b[1]][1])], b[3])
            elif k == 'in':
                for layer in self.seqs[b[1]]:
                    self.items.append(layer)
                    self.out.append('(')
                    try:
                        self.block([layer], b[3])
                    finally:
                        self.items.pop()
                    self.out.append(')')
            elif k == 'let':
                self.block([('map', dict(b[1]))], b[2])
            elif k == 'if':
                cache = {}
                try:
                    v = cache[b[1]] = self.lookup(b[1])
                except HRaised:
                    v = None
                self.out.append('T' if v else 'F')
                self.block([('map', cache)], b[2] if v else b[3])
            elif k == 'try':
                mark, depth = len(self.out), len(self.stack)
                try:
                    self.run(b[1])
                except HRaised as e:
                    assert len(self.stack) == depth
                    handler = next((hb for names, hb in b[2] for n in (names or ['']) if n == '' or n in H_EXC[e.cls]), None)
                    if handler is None:
                        raise
                    del self.out[mark:]
                    self.block([('map', {'error_type': e.cls})], handler)
                else:
                    if b[3] is not None:
                        self.run(b[3])
            elif k == 'finally':
                try:
                    self.run(b[1])
                finally:
                    self.run(b[2])
            elif k == 'fail':
                raise HRaised(H_FAIL[b[1]])
            elif k == 'sub':
                t = self.prog['subs'][b[1]]
                saved, self.out = self.out, []
                try:
                    # by name: the caller's current namespace with the sub-template's own defaults on top
                    self.block([('map', dict(t['ckw']))] if t['ckw'] else [], t['nodes'])
                    text = ''.join(self.out)
                finally:
                    self.out = saved
                self.out.append('{%s}' % text)
            else:
                raise ValueError(k)

    def block(self, layers, body):
        self.stack.extend(layers)
        try:
            self.run(body)
        finally:
            if layers:
                del self.stack[-len(layers):]


def h_expected(prog, world):
    ref = HRef(prog, world)
    try:
        ref.run(prog['nodes'])
        return ('ok', ''.join(ref.out))
    except HRaised as e:
        return ('raise', e.cls)


def h_render(prog, world):
    from DocumentTemplate import HTML
    objs = {}
    for k, (kind, d) in h_sources(world).items():
        if kind == 'attr':
            objs[k] = HObj(k, d)
        else:
            objs[k] = h_make_map(world['mapping_kind'] if k == 'R' else world['map_kinds'].get(k, 'dict'), d)
    kw = dict(world['kw'])
    kw.update(objs)
    kw.update(put=h_put, drop=h_drop, OBS=[objs['OB%d' % i] for i in range(len(world['obs']))],
              ROWS=[objs['ROW%d' % i] for i in range(len(world['rows']))])
    for i, t in enumerate(prog['subs']):
        kw['sub%d' % i] = HTML(h_src(t['nodes'], world), **dict(t['ckw']))
    main = HTML(h_src(prog['nodes'], world), **dict(prog['ckw']))
    if prog['vars']:
        main.var(**dict(prog['vars']))
    clients = [objs['C%d' % i] for i in range(len(world['clients']))]
    client = None if not clients else clients[0] if len(clients) == 1 and not world.get('client_tuple') else tuple(clients)
    try:
        if world['mapping'] is None:
            return ('ok', main(client, **kw))
        return ('ok', main(client, objs['R'], **kw))
    except Exception as e:  # noqa
        return ('raise', type(e).__name__, str(e)[:200])


def h_all_probes(names=('x', 'y', 'k1')):
    return [['probe', 'missing', n] for n in names]


def h_world(r, dense):
    """dense: every source defines x under its own label (a lost or left-over layer always shows), y every other one"""
    def vals(label, i=0):
        if dense:
            d = {'x': label + '.x'}
            if i % 2:
                d['y'] = label + '.y'
            return d
        return {n: '%s.%s' % (label, n) for n in ('x', 'y', 'z') if r.random() < 0.45}
    ncl = r.choice([0, 1, 1, 2])
    w = {'kw': vals('kw', r.randint(0, 1)) if r.random() < (0.5 if dense else 0.3) else {},
         'clients': [vals('C%d' % i, i) for i in range(ncl)], 'client_tuple': r.random() < 0.3,
         'mapping': dict(vals('R', 1), base='R.base') if r.random() < 0.8 else None, 'mapping_kind': r.choice(H_MAP_KINDS),
         'maps': {'D1': vals('D1', 1), 'D2': vals('D2', 0)}, 'objs': {'O1': vals('O1', 0), 'O2': vals('O2', 1)},
         'obs': [vals('OB%d' % i, i) for i in range(r.randint(1, 3))],
         'rows': [vals('ROW%d' % i, i + 1) for i in range(r.randint(1, 3))]}
    w['map_kinds'] = {k: r.choice(H_MAP_KINDS) for k in ['D1', 'D2'] + ['ROW%d' % i for i in range(len(w['rows']))]}
    return w


H_ENCLOSING = ['none', 'with-attr', 'with-map', 'in-attr', 'in-map', 'let', 'if', 'sub', 'handler', 'else', 'finally-part',
               'try-body']
H_TARGETS = ['R', 'C-last', 'C-first', 'D1', 'D2', 'O1', 'ITEM', 'ROW-last']
H_OPS = ['put-new-key', 'put-name', 'put-two', 'drop', 'put-drop']
H_TRY = ['caught-default', 'caught-by-name', 'caught-by-base', 'second-handler', 'not-caught', 'no-failure-else',
         'no-failure', 'finally']


def h_grid(r, tier):
    """enclosing block x source that is changed x kind of change x form of the try tag whose body makes the change: the
    change is made inside the body of a try tag (which then fails, or not), probes in the body, in the handler / else /
    finally part, after the tag inside the enclosing block, and after the enclosing block"""
    for enc, target, op, form in itertools.product(H_ENCLOSING, H_TARGETS, H_OPS, H_TRY):
        if tier != 'thorough' and r.random() < 0.5:
            continue
        w = h_world(r, True)
        t = target
        if target.startswith('C-'):
            if not w['clients']:
                w['clients'] = [{'x': 'C0.x'}]
            t = 'C%d' % (len(w['clients']) - 1 if target == 'C-last' else 0)
        elif target == 'R' and w['mapping'] is None:
            w['mapping'] = {'x': 'R.x', 'base': 'R.base'}
        elif target == 'ROW-last':
            t = 'ROW%d' % (len(w['rows']) - 1)
        elif target == 'ITEM' and enc not in ('in-attr', 'in-map'):
            t = 'D1'
        # the change: the source gets bigger / smaller / answers another value
        muts = {'put-new-key': [['put', t, 'k1', 'new.k1']], 'put-name': [['put', t, 'y', 'new.y']],
                'put-two': [['put', t, 'k1', 'new.k1'], ['put', t, 'k2', 'new.k2'], ['put', t, 'z', 'new.z']],
                'drop': [['drop', t, 'x'], ['drop', t, 'base']],
                'put-drop': [['put', t, 'k2', 'new.k2'], ['drop', t, 'x'], ['put', t, 'k1', 'new.k1']]}[op]
        fail = [['fail', r.choice(sorted(H_FAIL))]]
        cls = H_FAIL[fail[0][1]]
        pr = h_all_probes()
        body = pr + muts + h_all_probes(('x', 'y', 'z', 'k1'))
        other = r.choice([n for n in H_EXC if n not in H_EXC[cls] and cls not in H_EXC[n]])
        if form == 'caught-default':
            tag = ['try', body + fail, [[[], pr + [['probe', 'missing', 'error_type']]]], None]
        elif form == 'caught-by-name':
            tag = ['try', body + fail, [[[other, cls], pr]], pr if r.random() < 0.5 else None]
        elif form == 'caught-by-base':
            tag = ['try', body + fail, [[[r.choice(H_EXC[cls][1:])], pr]], None]
        elif form == 'second-handler':
            tag = ['try', body + fail, [[[other], [['probe', 'missing', 'z']]], [[], pr]], None]
        elif form == 'not-caught':
            # the inner tag has no handler for it: the outer one handles it
            tag = ['try', [['try', body + fail, [[[other], pr]], None]], [[[], pr]], None]
        elif form == 'no-failure-else':
            tag = ['try', body, [[[], pr]], pr]
        elif form == 'no-failure':
            tag = ['try', body, [[[cls], pr]], None]
        else:
            tag = ['try', [['finally', body + fail, pr]], [[[], pr]], None]
        inner = pr + [tag] + h_all_probes(('x', 'y', 'z', 'k1', 'k2'))
        prog = {'subs': [], 'ckw': {'x': 'ckw.x', 'z': 'ckw.z'}, 'vars': {'x': 'vars.x'} if r.random() < 0.2 else {}}
        if enc == 'none':
            nodes = inner
        elif enc in ('with-attr', 'with-map'):
            nodes = [['with', 'O1' if enc == 'with-attr' else 'D1', enc[5:], inner]]
        elif enc in ('in-attr', 'in-map'):
            nodes = [['in', 'OBS' if enc == 'in-attr' else 'ROWS', enc[3:], inner]]
        elif enc == 'let':
            nodes = [['let', [['x', 'let.x'], ['y', 'let.y']], inner]]
        elif enc == 'if':
            nodes = [['if', 'x', inner, []], ['with', 'D1', 'map', [['if', 'k1', [], inner]]]]
        elif enc == 'sub':
            prog['subs'] = [{'nodes': inner, 'ckw': {'x': 'sub.x', 'y': 'sub.y'}}]
            nodes = [['sub', 0], ['with', 'D2', 'map', [['sub', 0]]]]
        elif enc == 'handler':
            nodes = [['try', [['fail', 'raise-ValueError']], [[['ValueError'], inner]], None]]
        elif enc == 'else':
            nodes = [['try', pr, [[[], pr]], inner]]
        elif enc == 'finally-part':
            nodes = [['finally', pr, inner]]
        else:
            nodes = [['try', [['with', 'D1', 'map', inner + [['fail', 'raise-KeyError']]]], [[['LookupError'], pr]], None]]
        prog['nodes'] = pr + nodes + h_all_probes(('x', 'y', 'z', 'k1', 'k2'))
        yield ('grid', enc, target, op, form), prog, w


def h_random_nodes(r, depth, in_loop, subs_ok, may_fail):
    out = [['probe', r.choice(['missing', 'missing', 'has']), r.choice(H_NAMES)] for _ in range(r.randint(1, 2))]
    targets = ['R', 'R', 'C0', 'C1', 'D1', 'D2', 'O1', 'O2', 'OB0', 'ROW0', 'ROW0'] + (['ITEM', 'ITEM'] if in_loop else [])

    def mutation():
        t = r.choice(targets)
        if r.random() < 0.7:
            return ['put', t, r.choice(H_NAMES), 'put%d.%s' % (r.randint(0, 99), t)]
        return ['drop', t, r.choice(H_NAMES + ['base'])]
    for _ in range(r.randint(1, 3)):
        k = r.choice(['mut', 'mut', 'mut', 'with-attr', 'with-map', 'in-attr', 'in-map', 'let', 'if', 'try', 'try', 'try',
                      'finally', 'sub', 'fail', 'probe-var'])
        if k == 'mut':
            out.append(mutation())
        elif k == 'fail':
            if may_fail:
                out.append(['fail', r.choice(sorted(H_FAIL))])
        elif k == 'probe-var':
            if may_fail:
                out.append(['probe', 'var', r.choice(H_NAMES)])
        elif depth == 0:
            out.append(mutation())
        elif k in ('with-attr', 'with-map'):
            out.append(['with', r.choice(['O1', 'O2'] if k == 'with-attr' else ['D1', 'D2']), k[5:],
                        h_random_nodes(r, depth - 1, in_loop, subs_ok, may_fail)])
        elif k in ('in-attr', 'in-map'):
            out.append(['in', 'OBS' if k == 'in-attr' else 'ROWS', k[3:], h_random_nodes(r, depth - 1, True, subs_ok, may_fail)])
        elif k == 'let':
            out.append(['let', [[n, 'let%d.%s' % (depth, n)] for n in r.sample(H_NAMES, r.randint(1, 2))],
                        h_random_nodes(r, depth - 1, in_loop, subs_ok, may_fail)])
        elif k == 'if':
            out.append(['if', r.choice(H_NAMES), h_random_nodes(r, depth - 1, in_loop, subs_ok, may_fail),
                        h_random_nodes(r, depth - 1, in_loop, subs_ok, may_fail)])
        elif k == 'try':
            body = h_random_nodes(r, depth - 1, in_loop, subs_ok, True)
            if r.random() < 0.7:
                body.append(r.choice([['fail', r.choice(sorted(H_FAIL))], ['probe', 'var', 'k2']]))
            hs, default = [], False
            for _ in range(r.randint(1, 2)):
                names = [] if (not default and r.random() < 0.5) else r.sample(sorted({b for v in H_EXC.values() for b in v}), r.randint(1, 2))
                default = default or not names
                hs.append([names, h_random_nodes(r, depth - 1, in_loop, subs_ok, may_fail) + [['probe', 'missing', 'error_type']]])
            # a handler without names is the last one
            hs.sort(key=lambda h: not h[0])
            if not default and not may_fail:
                hs.append([[], [['probe', 'missing', 'error_type']]])
            out.append(['try', body, hs, h_random_nodes(r, depth - 1, in_loop, subs_ok, may_fail) if r.random() < 0.3 else None])
        elif k == 'finally':
            out.append(['finally', h_random_nodes(r, depth - 1, in_loop, subs_ok, may_fail),
                        h_random_nodes(r, 0, in_loop, False, may_fail)])
        elif subs_ok:
            out.append(['sub', r.randint(0, 1)])
        out.append(['probe', 'missing', r.choice(H_NAMES)])
    return out


def h_random_program(r):
    def vals(label, p):
        return {n: '%s.%s' % (label, n) for n in ('x', 'y', 'z') if r.random() < p}
    # failures that nothing handles end the rendering: most programs are written without them outside try bodies
    may_fail = r.random() < 0.2
    return {'nodes': h_random_nodes(r, r.choice([1, 2, 2, 3]), False, True, may_fail),
            'subs': [{'nodes': h_random_nodes(r, 1, False, False, may_fail), 'ckw': vals('sub0', 0.4)},
                     {'nodes': h_random_nodes(r, 2, False, False, may_fail), 'ckw': vals('sub1', 0.4)}],
            'ckw': vals('ckw', 0.7), 'vars': vals('vars', 0.1)}


def h_shape(nodes):
    """which changes / failures / sub-template calls occur inside which kind of block"""
    out = set()

    def walk(nodes, inside):
        for b in nodes:
            if b[0] in ('put', 'drop'):
                out.add('%s>%s:%s' % (inside, b[0], b[1][:1]))
            elif b[0] in ('fail', 'sub'):
                out.add('%s>%s' % (inside, b[0]))
            elif b[0] == 'try':
                walk(b[1], 'try')
                for names, hb in b[2]:
                    walk(hb, 'except')
                walk(b[3] or [], 'else')
            elif b[0] == 'finally':
                walk(b[1], 'try-f')
                walk(b[2], 'finally')
            elif b[0] == 'if':
                walk(b[2], 'if')
                walk(b[3], 'if')
            elif b[0] in ('with', 'in'):
                walk(b[3], b[0] + '-' + b[2])
            elif b[0] == 'let':
                walk(b[2], 'let')
    walk(nodes, '')
    return tuple(sorted(out))


def h_fix_world(prog, w):
    """the handles a program uses exist in the world"""
    while len(w['clients']) < 2:
        w['clients'].append({})
    if w['mapping'] is None:
        w['mapping'] = {'base': 'R.base'}
    return w


def changing_source_cases(res, r, tier, out=None):
    """part H on the real classes; failures go to res.oracle_fail (or `out`)"""
    fails = res.oracle_fail if out is None else out

    def one(key, prog, world):
        exp = h_expected(prog, world)
        got = h_render(prog, world)
        res.evaluations += 1
        res.nt(('H',) + key)
        res.count('part=H')
        res.count('H:expected-' + (exp[0] if exp[0] == 'ok' else exp[1]))
        if got[:2] != exp:
            fails.append({'case': {'part': 'H', 'key': key, 'source': h_src(prog['nodes'], world),
                                   'sub_templates': [[h_src(t['nodes'], world), t['ckw']] for t in prog['subs']],
                                   'construction': {'keywords': prog['ckw'], 'vars': prog['vars']}, 'world': world},
                          'what': 'sources changed while rendering (put(h, k, v): h[k] = v / setattr of a new attribute; '
                                  'drop(h, k): del h[k]; handles: R call mapping, C<i> clients, D<i> / ROW<i> mappings, O<i> / OB<i> '
                                  'objects): the layers the tags push and pop, searched innermost first, give %r; the engine '
                                  'gives %r' % (exp, got)})
    for key, prog, world in h_grid(r, tier):
        one(key, prog, world)
    for i in range(300 if tier == 'quick' else 6000):
        prog = h_random_program(r)
        for j in range(3):
            world = h_fix_world(prog, h_world(r, r.random() < 0.3))
            one(('random', h_shape(prog['nodes']), world['mapping_kind'], len(world['clients'])), prog, world)
        if len(fails) > 20:
            break


# --------------------------------------------------------------------------- driver

def check(res, items, have_driver):
    cases = [it[1] for it in items]
    res.have_driver = have_driver
    runs = interp.run_cases(res, cases)
    for it, (c, plan, impl, m) in zip(items, runs):
        part, _, exp, exp_calls, key = it
        res.evaluations += 1
        got = impl['result']
        got_calls = [e[1] for e in impl['events'] if e[0] == 'call']
        res.nt(key)
        res.count('part=' + part)
        if got != {'ok': {'s': exp}} or got_calls != exp_calls:
            res.oracle_fail.append({'case': {'part': part, 'key': key, 'templates': [t['source'] for t in c['templates']],
                                             'kw': c['kw'], 'mapping': c['mapping'], 'clients': c['clients'],
                                             'vars': c['templates'][0]['vars'], 'ckw': c['templates'][0].get('ckw'),
                                             'cmapping': c['templates'][0].get('cmapping')},
                                    'what': 'documented resolution gives %r with calls %r; the engine gives %r with calls %r' % (
                                        exp, exp_calls, got, got_calls)})
        if m is not None:
            d = interp.compare(impl, m)
            if d == 'oom':
                res.count('outside_model')
                continue
            res.corr_checked += 1
            if d:
                res.corr_mismatch.append({'case': dict(interp.brief(c), key=key), 'impl': impl['result'],
                                          'model': m['result'], 'diff': d})
    return runs


def all_items(r, tier, n_scoping):
    items = precedence_items(r, tier)
    for _ in range(n_scoping):
        c, exp, calls, key = scoping_case(r)
        items.append(('B', c, exp, calls, key + (hash(c['templates'][0]['source']) % 100000,)))
    items += callable_cases()
    for _ in range(max(40, n_scoping // 10)):
        c, exp, calls, key = reentry_case(r)
        items.append(('D', c, exp, calls, key))
    return items


def run(res, tier, have_driver):
    r = common.rng('C02')
    res.rule = ('A: all 128 subsets of the 7 sources x {plain, callable, template} for `n`, random and all 128 subsets for the '
                'private name `_p`; B: random nestings (depth <= 3) of let / with / in / if / try-except rebinding a, b, c with '
                'probes before, inside and after every block; C: 11 name-vs-expression forms x 3 sources; D: templates re-entered '
                '(directly / through a second template) from inside let / with / in blocks that shadow their defaults; E: objects that '
                'gain an attribute during the rendering; F (real classes only): realisations of the sources — %d kinds of object '
                '(attributes in instance / class / base / property / __getattr__ / slots; empty container, __bool__ false, zero int, '
                'empty dict / list subclass, equal-to-everything) x 10 places an object enters the namespace (client, 1-tuple, last / '
                'first of a client tuple, with, with only, in, if inside with, client of sub(ob, _) and of sub(ob, mapping)), %d kinds '
                'of mapping (dict, plain dict subclass, dict subclass with __missing__ / overridden __getitem__, OrderedDict, UserDict '
                '(+ __missing__), ChainMap, mappingproxy, __getitem__-only class, length-0 mappings that answer) x 7 places (call '
                'mapping, with mapping (only), in mapping, let inside with mapping, sub(None, mapping), construction mapping) x value '
                'kinds {text, empty string, None, callable, callable that is false as an object, callable whose own code raises '
                'KeyError (the error is the outcome, no lower source answers instead), template value that asks for an undefined '
                'name}, each asked for in 7 ways (var, entity, var missing=, expression, _[name], _.getitem(name, 0), '
                '_.has_key(name)); namespace objects made in expressions: _.namespace(n=m) (+ only) for all %d value kinds of m (a '
                'callable stays uncalled for expressions and is called once by name, a template is rendered on the current '
                'namespace); plus random nestings (depth <= 3) of with / with mapping / with only / _.namespace(n=\'text\' | n=name) / '
                'in / in mapping / let / if / sub-template calls (by name, sub(ob, _, kw), sub(ob, mapping, kw)) over random kinds '
                'and all value kinds (also 0, [], false objects, bound methods, callables returning empty / a callable / raising '
                'NameError), every compiled program rendered under 4 different realisations in a row; expected output, '
                'exception class + undefined name and call log from a reference resolver that walks the documented order with getattr / [] / call on '
                'a second copy of the objects; G (real classes only): populations of HTML / String template objects with a history - '
                'pickle round trips (protocols 0, 2, highest), copy.copy, copy.deepcopy, __getstate__ moved into a constructed / '
                '__new__-made instance, var, default, munge (text / new defaults) in every order - rendered in between directly '
                'under subsets of the sources and by name from a template of either class: grid (class pair x 9 x 9 ways the two '
                'came back x subsets of the lower sources x var / default set on the other template) + random histories; expected '
                'from one {defaults, variables} record per object and the documented order; '
                'H (real classes only): sources that change while rendering - put(h, k, v) / REQUEST.set(k, v) / drop(h, k) on the '
                'call mapping (dict, dict subclass with set(), UserDict, OrderedDict), on dictionaries used by with mapping / in '
                'mapping (on the namespace or not), new attributes on clients / with objects / in items / the current sequence-item, '
                'new names, names other sources define, several at once, deletions - made in the body of a try tag that then fails '
                '(raise of 4 classes, undefined name in var / expression / _[..], division by zero) and is handled by the default '
                'handler / by name / by a base class / by a second handler / by an enclosing try tag, or does not fail (with / '
                'without else), or is a try / finally; the tag stands at top level, in with / with mapping / in / in mapping / let / '
                'if / a sub-template called by name (twice, under different namespaces) / a handler / an else part / a finally part / '
                'a binding block inside another try body: grid of %d combinations (quick: a random half) + random nestings '
                '(depth <= 3) of all these tags with changes and failures anywhere, each under 3 worlds; probes (var missing=, '
                '_.has_key, plain var) before, inside and after every block; expected from a reference that keeps one plain dict '
                'per source and a list of layers pushed and popped by the block structure alone; '
                'left out: a call mapping that is false as an object (see partial); non-trivial = '
                'distinct (part, kind, subset / block kinds / form / place / realisation) keys' % (
                    len(ATTR_KINDS), len(MAP_KINDS), len(VALUE_KINDS),
                    len(H_ENCLOSING) * len(H_TARGETS) * len(H_OPS) * len(H_TRY)))
    items = all_items(r, tier, 600 if tier == 'quick' else 8000)
    runs = check(res, items, have_driver)
    dynamic_cases(res)
    source_kind_cases(res, common.rng('C02-F'), tier)
    history_cases(res, common.rng('C02-G'), tier)
    changing_source_cases(res, common.rng('C02-H'), tier)
    res.exhaustive = True
    for i in (5, len(runs) // 2, len(runs) - 1):
        c, plan, impl, m = runs[i]
        res.sample({'templates': [t['source'][:200] for t in c['templates']][:2], 'result': impl['result']})
    res.partial.append('part F leaves out call mappings that are false as objects (len() == 0) but answer m[name] (dict subclass '
                       'with __missing__, lazy record): the unchanged String.__call__ does `if mapping: push(mapping)` and never '
                       'consults them; the same kinds are covered as with / in mappings, where they are consulted')
    res.partial.append('part H: an object on the namespace only GAINS attributes while rendering (no attribute gets another value or '
                       'is deleted): the layer of an object (InstanceDict) remembers the values it has served for as long as the '
                       'layer lives, by design of the unchanged library; mappings are changed in every way')
    res.assumptions += ['interpreter model validated (not verified) against the real classes',
                        'part F (kinds of objects / mappings / false values) is oracle-only: not represented in the Lean model',
                        'part G (template objects with a history) is oracle-only; a shallow copy (copy.copy, state moved without '
                        'copying) takes the place of its original in the population (it shares its members with it)',
                        'part H (sources that change while rendering) is oracle-only: the model has no values with side effects; the '
                        'changes are made by two helper functions of the test world (put / drop) or the mapping\'s own set()',
                        'no security guard installed (guards: C05)']


def search_more(res, tier):
    r = common.rng('C02-more')
    res2 = common.Result('C02')
    check(res2, all_items(r, 'thorough', 3000), False)
    source_kind_cases(res2, common.rng('C02-F-more'), 'thorough')
    history_cases(res2, common.rng('C02-G-more'), 'thorough')
    changing_source_cases(res2, common.rng('C02-H-more'), 'thorough')
    return res2.oracle_fail


def replay(path):
    with open(path) as f:
        d = json.load(f)
    print(json.dumps(d.get('first', d), indent=1)[:3000])
    return 1
