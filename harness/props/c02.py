"""C02 — names resolve by documented source precedence; block bindings are scoped.

A. Precedence: the name `n` (and the private name `_p`) defined by every subset of the seven sources — call keywords,
   template variables, last client, first client, call mapping, construction keywords, construction mapping — as a plain
   value, a callable (logged) or a document template; expected winner computed from the documented order; a callable is
   called exactly once and only the winner; a template value is rendered in the caller's namespace with its own defaults
   on top.
B. Scoping: random nestings (depth <= 3) of in / with / let / if (cached condition) / try-except that rebind a, b, c, with
   probes before, inside and after every block; expected values from a scope-stack evaluator over the generator's own
   structure.
C. Callables: by name in a tag -> called; in an expression -> passed uncalled.
Correspondence: the same programs on the Lean interpreter model (results + call traces).
"""
import itertools
import json

import common
import interp
import proggen

SOURCES = ['kw', 'vars', 'client2', 'client1', 'mapping', 'ckw', 'cmapping']     # highest priority first


# --------------------------------------------------------------------------- A: precedence

def precedence_case(subset, kind, private_subset, single_client_tuple=False):
    """returns (case, expected_output, expected_calls)"""
    templates = [None]
    fn_id = [0]
    src_val = {}

    def value_for(src):
        if kind == 'plain':
            return {'s': 'S_' + src}
        if kind == 'fn':
            fn_id[0] += 1
            return {'f': fn_id[0], 'r': {'s': 'S_' + src}}
        # a document template: shows a name only it defines, a name both define, a name only the caller defines
        blocks = [['lit', 'T_%s(' % src], ['var', ['n', 'who'], False, None, None], ['lit', ','],
                  ['var', ['n', 'own'], False, None, None], ['lit', ','],
                  ['var', ['n', 'only_caller'], False, None, None], ['lit', ')']]
        templates.append({'blocks': blocks, 'globals': [], 'vars': [], 'source': proggen.print_blocks(blocks),
                          'ckw': [['who', {'s': 'sub'}], ['own', {'s': 'own_' + src}]], 'cmapping': []})
        return {'T': len(templates) - 1}

    per = {s: [] for s in SOURCES}
    for s in SOURCES:
        if s in subset:
            v = value_for(s)
            src_val[s] = v
            per[s].append(['n', v])
        if s in private_subset:
            per[s].append(['_p', {'s': 'P_' + s}])
    main_blocks = [['lit', '['], ['var', ['n', 'n'], False, 'UNDEF', None], ['lit', '|'],
                   ['var', ['n', '_p'], False, 'NOPRIV', None], ['lit', ']']]
    kw = per['kw'] + [['who', {'s': 'caller'}], ['only_caller', {'s': 'oc'}]]
    templates[0] = {'blocks': main_blocks, 'globals': [], 'vars': per['vars'], 'source': proggen.print_blocks(main_blocks),
                    'ckw': per['ckw'], 'cmapping': per['cmapping']}
    clients = []
    if per['client1'] or 'client1' in subset or single_client_tuple:
        clients.append({'o': 901, 'a': per['client1']})
    if per['client2']:
        if not clients:
            clients.append({'o': 901, 'a': []})
        clients.append({'o': 902, 'a': per['client2']})
    case = {'templates': templates, 'main': 0, 'clients': clients, 'mapping': per['mapping'], 'kw': kw,
            'classes': proggen.class_table(), 'denied': [], 'guard': False, 'utf8': True}
    # the documented rule
    winner = next((s for s in SOURCES if s in subset), None)
    calls = []
    if winner is None:
        out_n = 'UNDEF'
    elif kind == 'plain':
        out_n = 'S_' + winner
    elif kind == 'fn':
        out_n = 'S_' + winner
        calls = [src_val[winner]['f']]
    else:
        out_n = 'T_%s(sub,own_%s,oc)' % (winner, winner)
    # private names are never taken from client objects, nor from the construction-time mapping
    pw = next((s for s in SOURCES if s in private_subset and s not in ('client1', 'client2', 'cmapping')), None)
    out_p = 'P_' + pw if pw else 'NOPRIV'
    return case, '[%s|%s]' % (out_n, out_p), calls


def precedence_items(r, tier):
    items = []
    all_subsets = []
    for k in range(len(SOURCES) + 1):
        all_subsets += [set(c) for c in itertools.combinations(SOURCES, k)]
    for kind in ('plain', 'fn', 'tmpl'):
        for sub in all_subsets:
            priv = set(r.sample(SOURCES, r.randint(0, 4)))
            items.append(('A', ) + precedence_case(sub, kind, priv, r.random() < 0.3) + ((kind, tuple(sorted(sub))),))
    # private names: every subset
    for sub in all_subsets:
        items.append(('A', ) + precedence_case(set(r.sample(SOURCES, 2)), 'plain', sub) + (('priv', tuple(sorted(sub))),))
    return items


# --------------------------------------------------------------------------- B: scoping

class Raised(Exception):
    def __init__(self, cls):
        self.cls = cls


class Scope:
    """scope-stack evaluator over the generator's structure"""

    def __init__(self, top, templates=None):
        self.frames = [top]
        self.calls = []
        self.out = []
        self.templates = templates or []

    def raw(self, n):
        for f in reversed(self.frames):
            if n in f:
                return f[n]
        raise KeyError(n)

    def get(self, n):
        v = self.raw(n)
        if isinstance(v, dict) and 'f' in v:
            self.calls.append(v['f'])
            return v['r']
        if isinstance(v, dict) and 'T' in v:
            # a document template: rendered with the current namespace, its own defaults laid on top
            t = self.templates[v['T']]
            saved, self.out = self.out, []
            self.frames.append({k: x for k, x in t.get('ckw', [])})
            self.run(t['blocks'])
            self.frames.pop()
            text, self.out = ''.join(self.out), saved
            return {'s': text}
        return v

    def run(self, blocks):
        for b in blocks:
            k = b[0]
            if k == 'lit':
                self.out.append(b[1])
            elif k == 'var':
                try:
                    v = self.get(b[1][1])
                except KeyError:
                    v = {'s': b[3]}
                self.out.append(v['s'] if isinstance(v, dict) else str(v))
            elif k == 'call':
                e = b[1][1]
                self.raw(e[1])                      # an expression naming a callable: not called
            elif k == 'let':
                d = {}
                self.frames.append(d)
                for n, s in b[1]:
                    if s[0] == 'n':
                        d[n] = self.get(s[1])
                    elif s[1][0] == 'lit':
                        d[n] = s[1][1]
                    else:
                        d[n] = self.raw(s[1][1])    # expr="name": uncalled
                self.run(b[2])
                self.frames.pop()
            elif k == 'with':
                o = self.get(b[1][1])
                self.frames.append({kk: vv for kk, vv in o['a'] if not kk.startswith('_')})
                self.run(b[4])
                self.frames.pop()
            elif k == 'in':
                seq = self.get(b[1][1])
                self.frames.append({b[1][1]: seq})
                for it in seq['l']:
                    self.frames.append({kk: vv for kk, vv in it['a'] if not kk.startswith('_')})
                    self.run(b[3])
                    self.frames.pop()
                self.frames.pop()
            elif k == 'cond':
                cache = {}
                self.frames.append(cache)
                for s, body in b[1]:
                    if s[0] == 'n':
                        try:
                            v = self.get(s[1])
                            cache[s[1]] = v
                        except KeyError:
                            v = None
                    else:
                        v = self.raw(s[1][1])       # expr="name": the callable itself, true
                    if (v.get('s', 'x') != '') if isinstance(v, dict) else v:
                        self.run(body)
                        break
                else:
                    if b[2] is not None:
                        self.run(b[2])
                self.frames.pop()
            elif k == 'unless':
                cache = {}
                self.frames.append(cache)
                try:
                    v = self.get(b[1][1])
                    cache[b[1][1]] = v
                except KeyError:
                    v = None
                if not ((v.get('s', 'x') != '') if isinstance(v, dict) else v):
                    self.run(b[2])
                self.frames.pop()
            elif k == 'try':
                # whatever the body had bound when it raised is gone in the handler and after the tag
                mark, depth = len(self.out), len(self.frames)
                try:
                    self.run(b[1])
                except Raised as e:
                    del self.out[mark:]
                    del self.frames[depth:]
                    self.frames.append({'error_type': {'s': e.cls}})
                    self.run(b[2][0][1])
                    self.frames.pop()
            elif k == 'raise':
                raise Raised(b[1])
            else:
                raise ValueError(k)


def probes(r):
    out = []
    for n in r.sample(['a', 'b', 'c', 'error_type', 'sequence-index'], r.randint(1, 3)):
        out += [['lit', '<%s=' % n[0]], ['var', ['n', n], False, '-', None], ['lit', '>']]
    return out


def scoped_blocks(r, depth, counters):
    out = probes(r)
    for _ in range(r.randint(1, 2)):
        if depth == 0:
            break
        k = r.choice(['let', 'with', 'in', 'cond', 'try', 'letexpr', 'tryleak'])
        counters['n'] += 1
        tag = '%s%d' % (k[0].upper(), counters['n'])
        inner = scoped_blocks(r, depth - 1, counters)
        if k == 'let':
            names = r.sample(['a', 'b', 'c'], r.randint(1, 2))
            binds = [[n, ['e', ['lit', {'s': tag + n}]]] for n in names]
            if r.random() < 0.4:
                binds.append([r.choice(['a', 'b']), ['n', r.choice(['fa', 'b', 'c'])]])
            out.append(['let', binds, inner])
        elif k == 'letexpr':
            # an expression naming a callable binds the callable itself; a later name lookup calls it
            out.append(['let', [[r.choice(['a', 'b']), ['e', ['name', 'fa']]]], inner])
        elif k == 'with':
            out.append(['with', ['n', r.choice(['wo1', 'wo2'])], False, False, inner])
        elif k == 'in':
            out.append(['in', ['n', r.choice(['seq1', 'seq2'])], {}, inner, None])
        elif k == 'cond':
            out.append(['cond', [[['n', r.choice(['fa', 'fz', 'nodef'])], inner],
                                 [r.choice([['n', 'fa'], ['e', ['name', 'fz']]]), inner]], None])
        elif k == 'tryleak':
            # an exception raised INSIDE a binding block (at some iteration / nesting), handled outside it: every binding of
            # the abandoned blocks must be gone in the handler and afterwards
            boom = probes(r) + [['raise', r.choice(['KeyError', 'ValueError']), None, [['lit', 'm']]]]
            w = r.choice(['in', 'in', 'with', 'let', 'in-in'])
            if w == 'in':
                guarded = [['in', ['n', r.choice(['seq1', 'seq2'])], {}, boom, None]]
            elif w == 'in-in':
                guarded = [['in', ['n', 'seq1'], {}, [['in', ['n', 'seq2'], {}, boom, None]], None]]
            elif w == 'with':
                guarded = [['with', ['n', r.choice(['wo1', 'wo2'])], False, False, boom]]
            else:
                guarded = [['let', [['a', ['e', ['lit', {'s': tag + 'a'}]]]], boom]]
            out.append(['try', probes(r) + guarded, [['', inner]], None])
        else:
            out.append(['try', [['raise', r.choice(['KeyError', 'ValueError']), None, [['lit', 'm']]]],
                        [['', inner]], None])
        out += probes(r)
    return out


def scoping_case(r):
    counters = {'n': 0}
    blocks = scoped_blocks(r, r.choice([1, 2, 3, 3]), counters)
    top = {'a': {'s': 'A0'}, 'b': {'s': 'B0'}, 'c': {'s': 'C0'},
           'fa': {'f': 1, 'r': {'s': 'FA'}}, 'fz': {'f': 2, 'r': {'s': ''}},
           'wo1': {'o': 11, 'a': [['a', {'s': 'W1a'}], ['_priv', {'s': 'x'}]]},
           'wo2': {'o': 12, 'a': [['b', {'s': 'W2b'}], ['c', {'f': 3, 'r': {'s': 'W2c'}}]]},
           'seq1': {'l': [{'o': 21, 'a': [['a', {'s': 'I1a'}]]}, {'o': 22, 'a': [['b', {'s': 'I2b'}]]}]},
           'seq2': {'l': [{'o': 23, 'a': [['c', {'s': 'I3c'}], ['a', {'f': 4, 'r': {'s': 'I3a'}}]]}]}}
    case = {'templates': [{'blocks': blocks, 'globals': [], 'vars': [], 'source': proggen.print_blocks(blocks)}],
            'main': 0, 'clients': [], 'mapping': [], 'kw': [[k, v] for k, v in top.items()],
            'classes': proggen.class_table(), 'denied': [], 'guard': False, 'utf8': True}
    sc = Scope(dict(top))
    # sequence-index is bound by dtml-in only: give the evaluator the same view
    sc2 = ScopeSeq(dict(top))
    sc2.run(blocks)
    return case, ''.join(sc2.out), sc2.calls, ('B', tuple(sorted({b for b in _kinds(blocks)})))


class ScopeSeq(Scope):
    """adds the sequence variables frame of dtml-in (only sequence-index is probed)"""

    def run(self, blocks):
        for b in blocks:
            if b[0] == 'in':
                seq = self.get(b[1][1])
                self.frames.append({b[1][1]: seq})
                sv = {}
                self.frames.append(sv)
                for i, it in enumerate(seq['l']):
                    sv['sequence-index'] = i
                    self.frames.append({kk: vv for kk, vv in it['a'] if not kk.startswith('_')})
                    self.run(b[3])
                    self.frames.pop()
                self.frames.pop()
                self.frames.pop()
            else:
                Scope.run(self, [b])


def _kinds(blocks):
    for b in blocks:
        if b[0] == 'raise':
            yield 'raise'
        if b[0] in ('let', 'with', 'in', 'cond', 'try'):
            yield b[0]
            if b[0] == 'cond':
                for s, body in b[1]:
                    yield from _kinds(body)
            elif b[0] == 'try':
                yield from _kinds(b[1])
                yield from _kinds(b[2][0][1])
            else:
                yield from _kinds(b[{'let': 2, 'with': 4, 'in': 3}[b[0]]])


# --------------------------------------------------------------------------- C: callables

def callable_cases():
    f = {'f': 1, 'r': 0}          # a callable returning a false value
    out = []
    for blocks, exp, calls, key in [
        ([['cond', [[['n', 'f'], [['lit', 'T']]]], [['lit', 'F']]]], 'F', [1], 'if-name'),
        ([['cond', [[['e', ['name', 'f']], [['lit', 'T']]]], [['lit', 'F']]]], 'T', [], 'if-expr'),
        ([['var', ['n', 'f'], False, None, None]], '0', [1], 'var-name'),
        ([['call', ['e', ['name', 'f']]]], '', [], 'call-expr'),
        ([['call', ['n', 'f']]], '', [1], 'call-name'),
        ([['var', ['e', ['call', ['name', 'f']]], False, None, None]], '0', [1], 'var-expr-call'),
        ([['unless', ['e', ['name', 'f']], [['lit', 'U']]]], '', [], 'unless-expr'),
        ([['unless', ['n', 'f'], [['lit', 'U']]]], 'U', [1], 'unless-name'),
        ([['let', [['x', ['n', 'f']]], [['var', ['n', 'x'], False, None, None], ['var', ['n', 'x'], False, None, None]]]],
         '00', [1], 'let-name'),
        ([['let', [['x', ['e', ['name', 'f']]]], [['var', ['n', 'x'], False, None, None],
                                                   ['var', ['n', 'x'], False, None, None]]]], '00', [1, 1], 'let-expr'),
        ([['cond', [[['e', ['under', 'f']], [['lit', 'T']]]], [['lit', 'F']]]], 'F', [1], 'if-underscore-getitem'),
    ]:
        for where in ('kw', 'mapping', 'client'):
            case = {'templates': [{'blocks': blocks, 'globals': [], 'vars': [], 'source': proggen.print_blocks(blocks)}],
                    'main': 0, 'clients': [{'o': 900, 'a': [['f', f]]}] if where == 'client' else [],
                    'mapping': [['f', f]] if where == 'mapping' else [], 'kw': [['f', f]] if where == 'kw' else [],
                    'classes': proggen.class_table(), 'denied': [], 'guard': False, 'utf8': True}
            out.append(('C', case, exp, calls, ('C', key, where)))
    return out


# --------------------------------------------------------------------------- D: re-entered templates

def reentry_case(r):
    """a template that reaches itself again (directly, or through a second template) from inside a block that rebinds one
    of its defaults: the inner invocation must still see its OWN defaults on top"""
    indirect = r.random() < 0.4

    def wrapper(stop, inner):
        k = r.choice(['let', 'with', 'in'])
        shadow = {'s': 'SH' + k}
        if k == 'let':
            return ['let', [[stop, ['e', ['lit', 1]]], ['d', ['e', ['lit', shadow]]]], inner], None
        oid = r.randint(30, 60)
        o = {'o': oid, 'a': [[stop, 1], ['d', shadow]] + ([['e', {'s': 'SHe'}]] if r.random() < 0.5 else [])}
        name = 'w%d' % oid
        if k == 'with':
            return ['with', ['n', name], False, False, inner], (name, o)
        return ['in', ['n', name], {}, inner, None], (name, {'l': [o]})

    extra = {}

    def body(me, nxt, stop):
        w, bind = wrapper(stop, [['var', ['n', nxt], False, None, None]])
        if bind:
            extra[bind[0]] = bind[1]
        return [['lit', '(%s:' % me], ['var', ['n', 'd'], False, '-', None], ['lit', ','], ['var', ['n', 'e'], False, '-', None],
                ['unless', ['n', stop], [w]], ['lit', ')']]
    if indirect:
        ta = body('A', 'B', 'stopA')
        tb = body('B', 'A', 'stopB')
    else:
        ta = body('A', 'A', 'stopA')
        tb = [['lit', 'unused']]
    main = [['lit', '['], ['var', ['n', 'A'], False, None, None], ['lit', ']']]
    templates = [
        {'blocks': main, 'globals': [], 'vars': [], 'source': proggen.print_blocks(main)},
        {'blocks': ta, 'globals': [], 'vars': [], 'source': proggen.print_blocks(ta),
         'ckw': [['d', {'s': 'Adef'}]] + ([['e', {'s': 'Ae'}]] if r.random() < 0.5 else []), 'cmapping': []},
        {'blocks': tb, 'globals': [], 'vars': [], 'source': proggen.print_blocks(tb),
         'ckw': [['d', {'s': 'Bdef'}]] if r.random() < 0.7 else [], 'cmapping': []},
    ]
    top = {'A': {'T': 1}, 'B': {'T': 2}, 'e': {'s': 'Etop'}}
    top.update(extra)
    case = {'templates': templates, 'main': 0, 'clients': [], 'mapping': [], 'kw': [[k, v] for k, v in top.items()],
            'classes': proggen.class_table(), 'denied': [], 'guard': False, 'utf8': True}
    sc = ScopeSeq(dict(top), templates)
    sc.run(main)
    return case, ''.join(sc.out), sc.calls, ('D', indirect, proggen.print_blocks(ta)[:60])


# --------------------------------------------------------------------------- E: objects that change while rendering

def dynamic_cases(res):
    """a name is looked up while the client / with / in object does not have it (a lower-priority source answers), then a
    method called from the template gives the object that attribute: the higher-priority source must answer from then on"""
    from DocumentTemplate import HTML

    class Order:
        def __init__(self):
            self.calls = 0

        def compute(self):
            self.calls += 1
            self.total = 'total of the order'
            return ''

    cases = [
        ('client', '<dtml-var total>|<dtml-call compute><dtml-var total>', lambda o: ((o,), {'total': 'call mapping'}, {}),
         'call mapping|total of the order'),
        ('client-default', '<dtml-var total>|<dtml-call compute><dtml-var total>', lambda o: ((o,), {}, {}), 'default|total of the order'),
        ('with', '<dtml-with o><dtml-var total>|<dtml-call compute><dtml-var total></dtml-with>', lambda o: ((), {}, {'o': o, 'total': 'kw'}),
         'kw|total of the order'),
        ('in', '<dtml-in l><dtml-var total>|<dtml-call compute><dtml-var total></dtml-in>', lambda o: ((), {'total': 'm'}, {'l': [o]}),
         'm|total of the order'),
        ('if', '<dtml-with o><dtml-if total>Y<dtml-else>N</dtml-if><dtml-call compute><dtml-if total>Y<dtml-else>N</dtml-if></dtml-with>',
         lambda o: ((), {}, {'o': o}), 'NY'),
    ]
    for name, src, build, want in cases:
        o = Order()
        client, mapping, kw = build(o)
        t = HTML(src, total='default') if name == 'client-default' else HTML(src)
        try:
            got = t(client[0] if client else None, mapping, **kw)
        except Exception as e:  # noqa
            got = 'RAISED %s: %s' % (type(e).__name__, e)
        res.evaluations += 1
        res.nt(('dynamic', name))
        res.count('part=E')
        if got != want:
            res.oracle_fail.append({'case': {'part': 'E', 'key': name, 'source': src},
                                    'what': 'an attribute the object gained during the rendering: expected %r, got %r' % (want, got)})


# --------------------------------------------------------------------------- driver

def check(res, items, have_driver):
    cases = [it[1] for it in items]
    res.have_driver = have_driver
    runs = interp.run_cases(res, cases)
    for it, (c, plan, impl, m) in zip(items, runs):
        part, _, exp, exp_calls, key = it
        res.evaluations += 1
        got = impl['result']
        got_calls = [e[1] for e in impl['events'] if e[0] == 'call']
        res.nt(key)
        res.count('part=' + part)
        if got != {'ok': {'s': exp}} or got_calls != exp_calls:
            res.oracle_fail.append({'case': {'part': part, 'key': key, 'templates': [t['source'] for t in c['templates']],
                                             'kw': c['kw'], 'mapping': c['mapping'], 'clients': c['clients'],
                                             'vars': c['templates'][0]['vars'], 'ckw': c['templates'][0].get('ckw'),
                                             'cmapping': c['templates'][0].get('cmapping')},
                                    'what': 'documented resolution gives %r with calls %r; the engine gives %r with calls %r' % (
                                        exp, exp_calls, got, got_calls)})
        if m is not None:
            d = interp.compare(impl, m)
            if d == 'oom':
                res.count('outside_model')
                continue
            res.corr_checked += 1
            if d:
                res.corr_mismatch.append({'case': dict(interp.brief(c), key=key), 'impl': impl['result'],
                                          'model': m['result'], 'diff': d})
    return runs


def all_items(r, tier, n_scoping):
    items = precedence_items(r, tier)
    for _ in range(n_scoping):
        c, exp, calls, key = scoping_case(r)
        items.append(('B', c, exp, calls, key + (hash(c['templates'][0]['source']) % 100000,)))
    items += callable_cases()
    for _ in range(max(40, n_scoping // 10)):
        c, exp, calls, key = reentry_case(r)
        items.append(('D', c, exp, calls, key))
    return items


def run(res, tier, have_driver):
    r = common.rng('C02')
    res.rule = ('A: all 128 subsets of the 7 sources x {plain, callable, template} for `n`, random and all 128 subsets for the '
                'private name `_p`; B: random nestings (depth <= 3) of let / with / in / if / try-except rebinding a, b, c with '
                'probes before, inside and after every block; C: 11 name-vs-expression forms x 3 sources; D: templates re-entered '
                '(directly / through a second template) from inside let / with / in blocks that shadow their defaults; non-trivial = distinct '
                '(part, kind, subset / block kinds / form) keys')
    items = all_items(r, tier, 600 if tier == 'quick' else 8000)
    runs = check(res, items, have_driver)
    dynamic_cases(res)
    res.exhaustive = True
    for i in (5, len(runs) // 2, len(runs) - 1):
        c, plan, impl, m = runs[i]
        res.sample({'templates': [t['source'][:200] for t in c['templates']][:2], 'result': impl['result']})
    res.assumptions += ['interpreter model validated (not verified) against the real classes',
                        'no security guard installed (guards: C05)']


def search_more(res, tier):
    r = common.rng('C02-more')
    res2 = common.Result('C02')
    check(res2, all_items(r, 'thorough', 3000), False)
    return res2.oracle_fail


def replay(path):
    with open(path) as f:
        d = json.load(f)
    print(json.dumps(d.get('first', d), indent=1)[:3000])
    return 1
