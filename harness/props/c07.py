"""C07 — the three surface syntaxes of a template compile and render identically.

Generator: abstract templates over all tags and attributes (tmplgen), each printed as <dtml-…>, <!--#…--> (with / and end
forms, optional end-tag arguments) and %(…)[ … %(…)], with random whitespace / quoting / name= / entity spellings.
Oracle (on the implementation): the three compilations are all accepted or all rejected, their normalised compiled programs
are equal, and rendering them with each of several namespaces gives the same text, the same exception (class and message)
and the same sequence of calls of namespace values; &dtml-name; == <dtml-var name html_quote> and
&dtml.m1.m2-name; == <dtml-var name m1 m2> for every modifier subset of size <= 2 (and some larger).
Correspondence: the compiled tree of the Lean scanner/builder model for each spelling vs the real parser.
"""
import itertools
import json

import common
import parselib
import tmplgen

SYNTAXES = ['dtml', 'ssi', 'epfs']
MODS = ['html_quote', 'upper', 'lower', 'capitalize', 'spacify', 'url_quote', 'url_quote_plus', 'newline_to_br', 'sql_quote',
        'thousands_commas', 'url_unquote', 'url_unquote_plus']


class Log:
    def __init__(self):
        self.calls = []


class Fn:
    def __init__(self, log, fid, result):
        self.log, self.fid, self.result = log, fid, result

    def __call__(self):
        self.log.calls.append(self.fid)
        return self.result

    def __repr__(self):
        return 'Fn%d' % self.fid


class O:
    def __init__(self, **kw):
        self.__dict__.update(kw)

    def __str__(self):
        return 'O(%s)' % ','.join('%s=%s' % kv for kv in sorted(self.__dict__.items()))

    __repr__ = __str__


def namespaces():
    def ns1(log):
        return dict(x='a<b & "c"', y=2, z=Fn(log, 1, 'Z'), items=[O(k=2, x='i1', y=5), O(k=1, x='i2', y=6)],
                    obj=O(x='ox', y=7, z='oz'), flag=Fn(log, 2, 1), n1=0)

    def ns2(log):
        return dict(y='str', z=None, items=[], obj=O(q=1), flag=0, n1=Fn(log, 3, 'n1'))

    def ns3(log):
        return dict(x=Fn(log, 4, 1234567), y=Fn(log, 5, 10), z='', items=[{'k': 1, 'x': 'm1', 'y': 1}, {'k': 0, 'x': 'm0', 'y': 2}],
                    obj={'x': 'dx', 'y': 2, 'z': 3}, flag='yes', n1=None)
    return [ns1, ns2, ns3]


def render(kind, src, nsf):
    from DocumentTemplate import HTML, String
    log = Log()
    try:
        t = (HTML if kind == 'html' else String)(src)
        out = {'ok': t(**nsf(log))}
    except Exception as e:  # noqa
        out = {'raise': type(e).__name__, 'msg': str(e)[:300]}
    return out, log.calls


def strip_fmt(tree):
    return tree


def compile_norm(kind, src):
    rr = parselib.compile_real(kind, src)
    if rr['status'] == 'ok':
        return 'ok', parselib.norm(rr['blocks'])
    if rr['status'] == 'parse-error':
        return 'parse-error', rr['msg'].strip()
    return rr['status'], rr.get('msg') or rr.get('exc')


def check_group(res, label, sources, have_driver, reqs, req_meta):
    """sources: list of (syntax label, kind, src) that must all mean the same"""
    comps = [(lab, kind, src) + compile_norm(kind, src) for lab, kind, src in sources]
    res.evaluations += 1
    base = comps[0]
    for c in comps[1:]:
        if (c[3], c[4]) != (base[3], base[4]):
            what = 'compile differently: %s -> %s %s ; %s -> %s %s' % (base[0], base[3], json.dumps(base[4])[:300],
                                                                       c[0], c[3], json.dumps(c[4])[:300])
            res.oracle_fail.append({'case': {'group': label, base[0]: base[2], c[0]: c[2]}, 'what': what})
            return
    for lab, kind, src, st, tree in comps:
        reqs.append({'op': 'compile', 'syntax': kind, 'src': src})
        req_meta.append((lab, kind, src, st, tree))
    if base[3] != 'ok':
        res.count('group_rejected')
        return
    for i, nsf in enumerate(namespaces()):
        outs = [(lab, render(kind, src, nsf)) for lab, kind, src in sources]
        b = outs[0]
        for o in outs[1:]:
            if o[1] != b[1]:
                res.oracle_fail.append({'case': {'group': label, 'namespace': i, b[0]: sources[0][2], o[0]: [s for s in sources if s[0] == o[0]][0][2]},
                                        'what': 'render differently: %s -> %r ; %s -> %r' % (b[0], b[1], o[0], o[1])})
                return
        res.count('render_outcome=' + ('raise' if 'raise' in b[1][0] else 'ok'))


def run_all(res, r, n_tmpl, have_driver, big_entities):
    reqs, meta = [], []
    for _ in range(n_tmpl):
        t = tmplgen.gen_template(r, r.choice([1, 2, 3, 3]), 3)
        sources = []
        for syn in SYNTAXES:
            for v in range(2 if syn != 'epfs' else 1):
                kind, src = tmplgen.render_source(t, syn, r)
                sources.append(('%s%d' % (syn, v), kind, src))
        res.nt(('tmpl', sources[0][2][:80]))
        check_group(res, 'template', sources, have_driver, reqs, meta)
    # entity references
    subsets = [()] + [(m,) for m in MODS] + list(itertools.permutations(MODS, 2))
    if big_entities:
        subsets += [tuple(r.sample(MODS, k)) for k in (3, 4, 5) for _ in range(60)]
    else:
        subsets += [tuple(r.sample(MODS, k)) for k in (3, 4) for _ in range(8)]
    for mods in subsets:
        for name in ('x', 'y', 'obj', 'a.b-c'):
            if name == 'a.b-c' and mods not in ((), ('upper',)):
                continue
            if mods == ():
                # plain entity == var with html_quote
                sources = [('entity', 'html', '[&dtml-%s;]' % name), ('dtml', 'html', '[<dtml-var %s html_quote>]' % name),
                           ('ssi', 'html', '[<!--#var %s html_quote-->]' % name)]
                if name != 'a.b-c':
                    sources.append(('epfs', 'epfs', '[%%(%s html_quote)s]' % name))
            else:
                if name == 'a.b-c':
                    continue
                sources = [('entity', 'html', '[&dtml.%s-%s;]' % ('.'.join(mods), name)),
                           ('dtml', 'html', '[<dtml-var %s %s>]' % (name, ' '.join(mods))),
                           ('ssi', 'html', '[<!--#var %s %s-->]' % (name, ' '.join(mods))),
                           ('epfs', 'epfs', '[%%(%s %s)s]' % (name, ' '.join(mods)))]
            res.nt(('entity', mods, name))
            check_group(res, 'entity', sources, have_driver, reqs, meta)
    # an entity directly after an end tag / inside blocks (scanner state must not leak between matches)
    for pre in ('<dtml-if flag>x</dtml-if> ', '<!--#if flag-->x<!--#/if-->', '<dtml-if flag>x<!--#endif--> ', '<dtml-in items></dtml-in>',
                '</b>', '<dtml-var y>'):
        for ent, tag in (('&dtml.upper-x;', '<dtml-var x upper>'), ('&dtml-x;', '<dtml-var x html_quote>'),
                         ('&dtml.lower.html_quote-x;', '<dtml-var x lower html_quote>')):
            sources = [('entity', 'html', pre + ent), ('tag', 'html', pre + tag)]
            res.nt(('entity-after', pre, ent))
            check_group(res, 'entity-after-tag', sources, have_driver, reqs, meta)
    # else with arguments (old-style) and multi-line tags in the three syntaxes
    for sep in (' ', '\n', '\t', '\r\n', '  '):
        for rep in ('items', 'items mapping', ''):
            body = [('o', 'in', 'items%smapping' % sep), ('t', 'a'), ('o', 'else', rep), ('t', 'b'), ('c', 'in')]
            sources = []
            for syn in SYNTAXES:
                out = []
                for p in body:
                    if p[0] == 't':
                        out.append(p[1])
                    elif p[0] == 'c':
                        out.append({'dtml': '</dtml-%s>', 'ssi': '<!--#/%s-->', 'epfs': '%%(%s)]'}[syn] % p[1])
                    else:
                        a = (' ' + p[2]) if p[2] else ''
                        out.append({'dtml': '<dtml-%s%s>', 'ssi': '<!--#%s%s-->', 'epfs': '%%(%s%s)['}[syn] % (p[1], a))
                sources.append((syn, 'epfs' if syn == 'epfs' else 'html', ''.join(out)))
            res.nt(('else-args', sep, rep))
            check_group(res, 'else-with-arguments', sources, have_driver, reqs, meta)
    # model correspondence
    if have_driver and reqs:
        resp = common.run_driver(reqs)
        for (lab, kind, src, st, tree), rp in zip(meta, resp):
            m = rp.get('ok')
            if m is None:
                res.harness_errors.append('driver: %r' % (rp,))
                break
            if st in ('timeout', 'recursion', 'other'):
                continue
            res.corr_checked += 1
            model_ok = m['status'] == 'ok' and all(parselib.expr_ok(s) for s, _ in m['exprs'])
            if (st == 'ok') != model_ok:
                res.corr_mismatch.append({'case': {'syntax': kind, 'src': src}, 'impl': st, 'model': m['status'], 'diff': 'acceptance'})
            elif st == 'ok':
                b = parselib.norm_model(m['tree'])
                if tree != b:
                    res.corr_mismatch.append({'case': {'syntax': kind, 'src': src}, 'impl': tree, 'model': b, 'diff': 'compiled tree'})


def run(res, tier, have_driver):
    r = common.rng('C07')
    res.rule = ('abstract templates (all tags, attributes, nesting <= 3) printed 2x as <dtml->, 2x as <!--#--> (/, end, END forms) and '
                'as %(…); entity references for every modifier subset of size <= 2 (+ samples of 3..5) on 3 names vs the three '
                'var spellings; entities directly after end tags; else-with-arguments with 5 separators; each group: same '
                'acceptance, same normalised program, same output / exception / call log on 3 namespaces; non-trivial = distinct '
                'groups')
    run_all(res, r, 250 if tier == 'quick' else 5000, have_driver, tier != 'quick')
    res.assumptions += ['hand-compiled scanners validated against CPython re by token/tree correspondence',
                        'rendering equality is checked on the implementation directly (three namespaces with logged callables, '
                        'undefined names, mappings)']


def search_more(res, tier):
    r = common.rng('C07-more')
    res2 = common.Result('C07')
    run_all(res2, r, 2500, False, True)
    return res2.oracle_fail


def replay(path):
    with open(path) as f:
        d = json.load(f)
    print(json.dumps(d.get('first', d), indent=1, ensure_ascii=False)[:3000])
    return 1
