"""C07 — the three surface syntaxes of a template compile and render identically.

Generator: abstract templates over all tags and attributes (tmplgen), each printed as <dtml-…>, <!--#…--> (with / and end
forms, optional end-tag arguments) and %(…)[ … %(…)], with random whitespace / quoting / name= / entity spellings.
Wider classes (round 5), printed by a second printer P2 (blanks before the closing delimiter of a tag, unquoted values of
every character the attribute grammar admits, %(name options)s, end-tag arguments on every block):
  * words of the grammar as variable names — every tag / continuation / end keyword / attribute name (and dotted, dashed
    names) inserted at every place of every block kind (small scope, rendering predicted by a reference evaluator) and
    random templates over all tags whose names are renamed to such words;
  * hostile attribute values and names — each punctuation character alone, after / before a letter and doubled, as the
    last and as an inner attribute, at every attribute site that takes free text (var missing / null / name, if name, in
    sort, except names, let values, raise type), quoted and unquoted (small scope, output predicted from the documented
    meaning of missing= / null=), and random templates with several such attributes (fmt, etc, size, prefix, start …);
  * stray tokens (`/`, `//`, `-`, `bogus` …) after the attributes of a tag: rejected in every spelling.
Round 6 — histories of the TAG REGISTRY (`String.commands`, where add-ons register their tags after import): register /
replace / remove / put back simple and block tags (own block continuations, with and without simple_form; as a class and
as a lazy (name, module, class) entry; custom names and the built-in ones) through every handle an application has on
the registry, and after every step USE the registry: an abstract template over the tags registered at that moment (or
the tag just removed / a name that never was a tag / a block closed by another tag's end tag: rejected alike), printed in
every syntax, compiled by both template classes and by plain subclasses of them, sometimes with templates of both
classes as namespace values of one rendering; expected program / text from the abstract registry kept by the check and
the add-on tags' documented meaning.
Round 8 — (D) pieces of the tag delimiters of all syntaxes ('<!--', '<!-', '--', '->', '<dtml', '&dtml', '%', ')[', ']', '>' …)
inside quoted attribute values and the string literals of expressions, at every site that takes such a text (var missing /
null / etc, var / if / elif / unless / in / let / call expressions, inside else / try sections), text predicted by hand;
(E) what a rejection REPORTS: multi-line abstract templates with one compile-time fault (a block its tag rejects, a block never
closed, an insertion with a bad attribute, an unknown tag, an end tag with nothing to end) at every depth / section of valid
enclosing blocks, printed by P3 with a marker around the tag at fault: every spelling must raise ParseError for exactly that
tag text on the line that tag starts on in that spelling (read off the printed source), with the same message everywhere.
Oracle (on the implementation): the spellings of one abstract template are all accepted or all rejected, their normalised
compiled programs are equal AND equal to the program the abstract template denotes (`expect`: computed from the abstract
template and the documented line-end rule, not from the code), and rendering them with each of several namespaces gives
the same text, the same exception (class and message) and the same sequence of calls of namespace values — and, where
predicted, the text the abstract template denotes; &dtml-name; == <dtml-var name html_quote> and
&dtml.m1.m2-name; == <dtml-var name m1 m2> for every modifier subset of size <= 2 (and some larger).
Correspondence: the compiled tree of the Lean scanner/builder model for each spelling (both printers) vs the real parser.
Not generated (real differences of the unchanged library, see known notes in the report): a variable called `var` with
options (<dtml-var var upper> reads the variable `upper`), unquoted values ending in a Unicode blank (U+00A0 …), registered
tag names that begin with `end` or contain a non-letter (findings C07-tag-name-end-prefix, C07-tag-name-nonletter).
"""
import contextlib
import html
import itertools
import json
import re
import sys
import types

import common
import parselib
import tmplgen

SYNTAXES = ['dtml', 'ssi', 'epfs']
MODS = ['html_quote', 'upper', 'lower', 'capitalize', 'spacify', 'url_quote', 'url_quote_plus', 'newline_to_br', 'sql_quote',
        'thousands_commas', 'url_unquote', 'url_unquote_plus']


ADDR = re.compile(r'0[xX][0-9a-fA-F]{6,}')   # also after an `upper` modifier


class Log:
    def __init__(self):
        self.calls = []


class Fn:
    def __init__(self, log, fid, result):
        self.log, self.fid, self.result = log, fid, result

    def __call__(self):
        self.log.calls.append(self.fid)
        return self.result

    def __repr__(self):
        return 'Fn%d' % self.fid


class O:
    def __init__(self, **kw):
        self.__dict__.update(kw)

    def __str__(self):
        return 'O(%s)' % ','.join('%s=%s' % kv for kv in sorted(self.__dict__.items()))

    __repr__ = __str__


def namespaces():
    def ns1(log):
        return dict(x='a<b & "c"', y=2, z=Fn(log, 1, 'Z'), items=[O(k=2, x='i1', y=5), O(k=1, x='i2', y=6)],
                    obj=O(x='ox', y=7, z='oz'), flag=Fn(log, 2, 1), n1=0)

    def ns2(log):
        return dict(y='str', z=None, items=[], obj=O(q=1), flag=0, n1=Fn(log, 3, 'n1'))

    def ns3(log):
        return dict(x=Fn(log, 4, 1234567), y=Fn(log, 5, 10), z='', items=[{'k': 1, 'x': 'm1', 'y': 1}, {'k': 0, 'x': 'm0', 'y': 2}],
                    obj={'x': 'dx', 'y': 2, 'z': 3}, flag='yes', n1=None)
    return [ns1, ns2, ns3]


def render(kind, src, nsf, alias=None, extra=None):
    """alias: [(new name, old name)] — the new name gets the very object the old name has in this namespace;
    extra: {name: value} added to every namespace.  With alias / extra the namespace is handed over as the mapping
    argument (names such as 'mapping' or 'a.b' cannot be keyword arguments of __call__)."""
    log = Log()
    try:
        t = template_class(kind)(src)
        ns = nsf(log)
        if alias or extra:
            for new, old in alias or ():
                if old in ns:
                    ns[new] = ns[old]
            ns.update(extra or {})
            out = {'ok': t(None, ns)}
        else:
            out = {'ok': t(**ns)}
    except Exception as e:  # noqa
        out = {'raise': type(e).__name__, 'msg': str(e)[:300]}
    # memory addresses in default reprs of library objects (e.g. SequenceFromIter) differ from run to run
    out = {k: ADDR.sub('0x', v) if isinstance(v, str) else v for k, v in out.items()}
    return out, log.calls


def strip_fmt(tree):
    return tree


_CLASSES = {}
BASE_KIND = {'html-sub': 'html', 'epfs-sub': 'epfs'}


def template_class(kind):
    """'html' / 'epfs': the two template classes; 'html-sub' / 'epfs-sub': plain subclasses of them (what an application
    defines: Zope's DTMLMethod is a subclass of HTML), which inherit everything, the tag registry included"""
    if not _CLASSES:
        from DocumentTemplate import HTML, String
        _CLASSES.update({'html': HTML, 'epfs': String, 'html-sub': type('SubHTML', (HTML,), {}),
                         'epfs-sub': type('SubString', (String,), {})})
    return _CLASSES[kind]


def _compile_cls(cls, src):
    """parselib.compile_real for another template class (same classification of the outcome)"""
    from DocumentTemplate.DT_Util import ParseError
    t = cls(src)

    def go():
        try:
            return {'status': 'ok', 'blocks': t.parse(src)}
        except ParseError as e:
            m = parselib.ERR.match(str(e.args[0])) if e.args else None
            return {'status': 'parse-error', 'msg': m.group(1) if m else str(e)}
        except SyntaxError as e:
            return {'status': 'syntax-error', 'msg': str(e)[:80]}
        except RecursionError:
            return {'status': 'recursion'}
        except parselib.Timeout:
            raise
        except BaseException as e:  # noqa
            return {'status': 'other', 'exc': type(e).__name__ + ': ' + str(e)[:100]}
    st, v = parselib.with_alarm(go)
    return v if st == 'ok' else {'status': 'timeout'}


def compile_norm(kind, src):
    rr = _compile_cls(template_class(kind), src) if kind in BASE_KIND else parselib.compile_real(kind, src)
    if rr['status'] == 'ok':
        return 'ok', parselib.norm(rr['blocks'])
    if rr['status'] == 'parse-error':
        return 'parse-error', rr['msg'].strip()
    return rr['status'], rr.get('msg') or rr.get('exc')


def check_group(res, label, sources, have_driver, reqs, req_meta, alias=None, extra=None, nss=None,
                expect_status=None, expect_tree=None, expect_out=None, abstract=None, expect_msg=None):
    """sources: list of (syntax label, kind, src) that must all mean the same.
    expect_status / expect_tree / expect_out: what the ABSTRACT template denotes (computed by the generator from the abstract
    template and the documented rules, never from the code under test): acceptance, the normalised program (WILD = the
    table default of a valueless attribute) and, per namespace, the rendering outcome (None = not predicted)."""
    comps = [(lab, kind, src) + compile_norm(kind, src) for lab, kind, src in sources]
    res.evaluations += 1
    base = comps[0]
    case0 = {'group': label}
    if abstract is not None:
        case0['abstract'] = abstract
    if alias:
        case0['alias'] = alias
    if extra:
        case0['extra'] = extra
    for c in comps[1:]:
        if (c[3], c[4]) != (base[3], base[4]):
            what = 'compile differently: %s -> %s %s ; %s -> %s %s' % (base[0], base[3], json.dumps(base[4])[:300],
                                                                       c[0], c[3], json.dumps(c[4])[:300])
            res.oracle_fail.append({'case': dict(case0, **{base[0]: base[2], c[0]: c[2]}), 'what': what})
            return
    # the program the abstract template denotes (all spellings compile alike here, the first is compared and named)
    if expect_status is not None and base[3] != expect_status:
        res.oracle_fail.append({'case': dict(case0, **{c[0]: c[2] for c in comps}),
                                'what': 'the abstract template must be %s, every spelling is %s: %s' % (
                                    'accepted' if expect_status == 'ok' else 'rejected (' + expect_status + ')', base[3],
                                    json.dumps(base[4])[:300])})
        return
    if expect_msg is not None and base[3] == 'parse-error' and base[4] != expect_msg:
        res.oracle_fail.append({'case': dict(case0, **{c[0]: c[2] for c in comps}),
                                'what': 'the abstract template must be rejected with %r, every spelling gives %r' % (
                                    expect_msg, base[4])})
        return
    if expect_tree is not None and base[3] == 'ok':
        res.count('expected_program_compared')
        if not same_tree(expect_tree, base[4]):
            res.oracle_fail.append({'case': dict(case0, **{c[0]: c[2] for c in comps}),
                                    'what': 'compiled program is not the abstract template: expected %s ; compiled %s' % (
                                        json.dumps(expect_tree, default=repr)[:400], json.dumps(base[4])[:400])})
            return
    for lab, kind, src, st, tree in comps:
        reqs.append({'op': 'compile', 'syntax': BASE_KIND.get(kind, kind), 'src': src})
        req_meta.append((lab, BASE_KIND.get(kind, kind), src, st, tree))
    if base[3] != 'ok':
        res.count('group_rejected')
        return
    for i, nsf in enumerate(nss or namespaces()):
        outs = [(lab, render(kind, src, nsf, alias, extra)) for lab, kind, src in sources]
        b = outs[0]
        for o in outs[1:]:
            if o[1] != b[1]:
                res.oracle_fail.append({'case': dict(case0, **{'namespace': i, b[0]: sources[0][2],
                                                               o[0]: [s for s in sources if s[0] == o[0]][0][2]}),
                                        'what': 'render differently: %s -> %r ; %s -> %r' % (b[0], b[1], o[0], o[1])})
                return
        if expect_out is not None and expect_out[i] is not None:
            res.count('expected_output_compared')
            got = b[1][0]
            exp = expect_out[i]
            if ('ok' in exp and got != exp) or ('raise' in exp and got.get('raise') != exp['raise']):
                res.oracle_fail.append({'case': dict(case0, **{'namespace': i, b[0]: sources[0][2]}),
                                        'what': 'renders to %r, the abstract template denotes %r' % (got, exp)})
                return
        res.count('render_outcome=' + ('raise' if 'raise' in b[1][0] else 'ok'))


def run_all(res, r, n_tmpl, have_driver, big_entities):
    reqs, meta = [], []
    for _ in range(n_tmpl):
        t = tmplgen.gen_template(r, r.choice([1, 2, 3, 3]), 3)
        sources = []
        for syn in SYNTAXES:
            for v in range(2 if syn != 'epfs' else 1):
                kind, src = tmplgen.render_source(t, syn, r)
                sources.append(('%s%d' % (syn, v), kind, src))
        res.nt(('tmpl', sources[0][2][:80]))
        check_group(res, 'template', sources, have_driver, reqs, meta, expect_tree=expect(t), abstract=repr(t))
    # entity references
    subsets = [()] + [(m,) for m in MODS] + list(itertools.permutations(MODS, 2))
    if big_entities:
        subsets += [tuple(r.sample(MODS, k)) for k in (3, 4, 5) for _ in range(60)]
    else:
        subsets += [tuple(r.sample(MODS, k)) for k in (3, 4) for _ in range(8)]
    for mods in subsets:
        for name in ('x', 'y', 'obj', 'a.b-c'):
            if name == 'a.b-c' and mods not in ((), ('upper',)):
                continue
            if mods == ():
                # plain entity == var with html_quote
                sources = [('entity', 'html', '[&dtml-%s;]' % name), ('dtml', 'html', '[<dtml-var %s html_quote>]' % name),
                           ('ssi', 'html', '[<!--#var %s html_quote-->]' % name)]
                if name != 'a.b-c':
                    sources.append(('epfs', 'epfs', '[%%(%s html_quote)s]' % name))
            else:
                if name == 'a.b-c':
                    continue
                sources = [('entity', 'html', '[&dtml.%s-%s;]' % ('.'.join(mods), name)),
                           ('dtml', 'html', '[<dtml-var %s %s>]' % (name, ' '.join(mods))),
                           ('ssi', 'html', '[<!--#var %s %s-->]' % (name, ' '.join(mods))),
                           ('epfs', 'epfs', '[%%(%s %s)s]' % (name, ' '.join(mods)))]
            res.nt(('entity', mods, name))
            check_group(res, 'entity', sources, have_driver, reqs, meta)
    # an entity directly after an end tag / inside blocks (scanner state must not leak between matches)
    for pre in ('<dtml-if flag>x</dtml-if> ', '<!--#if flag-->x<!--#/if-->', '<dtml-if flag>x<!--#endif--> ', '<dtml-in items></dtml-in>',
                '</b>', '<dtml-var y>'):
        for ent, tag in (('&dtml.upper-x;', '<dtml-var x upper>'), ('&dtml-x;', '<dtml-var x html_quote>'),
                         ('&dtml.lower.html_quote-x;', '<dtml-var x lower html_quote>')):
            sources = [('entity', 'html', pre + ent), ('tag', 'html', pre + tag)]
            res.nt(('entity-after', pre, ent))
            check_group(res, 'entity-after-tag', sources, have_driver, reqs, meta)
    # else with arguments (old-style) and multi-line tags in the three syntaxes
    for sep in (' ', '\n', '\t', '\r\n', '  '):
        for rep in ('items', 'items mapping', ''):
            body = [('o', 'in', 'items%smapping' % sep), ('t', 'a'), ('o', 'else', rep), ('t', 'b'), ('c', 'in')]
            sources = []
            for syn in SYNTAXES:
                out = []
                for p in body:
                    if p[0] == 't':
                        out.append(p[1])
                    elif p[0] == 'c':
                        out.append({'dtml': '</dtml-%s>', 'ssi': '<!--#/%s-->', 'epfs': '%%(%s)]'}[syn] % p[1])
                    else:
                        a = (' ' + p[2]) if p[2] else ''
                        out.append({'dtml': '<dtml-%s%s>', 'ssi': '<!--#%s%s-->', 'epfs': '%%(%s%s)['}[syn] % (p[1], a))
                sources.append((syn, 'epfs' if syn == 'epfs' else 'html', ''.join(out)))
            res.nt(('else-args', sep, rep))
            check_group(res, 'else-with-arguments', sources, have_driver, reqs, meta)
    # model correspondence
    if have_driver:
        correspond(res, reqs, meta)


def correspond(res, reqs, meta):
    """compiled tree of the Lean scanner/builder model for every spelling vs the real parser"""
    if not reqs:
        return
    resp = common.run_driver(reqs)
    for (lab, kind, src, st, tree), rp in zip(meta, resp):
        m = rp.get('ok')
        if m is None:
            res.harness_errors.append('driver: %r' % (rp,))
            break
        if st in ('timeout', 'recursion', 'other'):
            continue
        res.corr_checked += 1
        model_ok = m['status'] == 'ok' and all(parselib.expr_ok(s) for s, _ in m['exprs'])
        if (st == 'ok') != model_ok:
            res.corr_mismatch.append({'case': {'syntax': kind, 'src': src}, 'impl': st, 'model': m['status'], 'diff': 'acceptance'})
        elif st == 'ok':
            b = parselib.norm_model(m['tree'])
            if tree != b:
                res.corr_mismatch.append({'case': {'syntax': kind, 'src': src}, 'impl': tree, 'model': b, 'diff': 'compiled tree'})


# ======================================================================================================================
# Wider input classes (round 5).  Everything below works on ABSTRACT templates (tmplgen's node format); what a template
# denotes — acceptance, program, and for the small-scope families the rendered text — is computed here from the abstract
# template and the documented rules, and compared with what the real classes do with each concrete spelling.

class _Wild:
    """the table default of an attribute written without a value"""

    def __repr__(self):
        return '<default>'


WILD = _Wild()
EOL = re.compile('[ \t]*\n')


def same_tree(exp, real):
    if exp is WILD:
        return True
    if isinstance(exp, list):
        return isinstance(real, list) and len(exp) == len(real) and all(same_tree(a, b) for a, b in zip(exp, real))
    return exp == real


def _tgt(t):
    return [t[1], t[0] == 'expr']


def _params(opts):
    return [[k, WILD if v is None else v] for k, v in opts]


def expect(nodes, after_block=False):
    """The program an abstract template denotes, in parselib.norm's form.  Documented line-end rule: blanks + one newline
    directly after a block's start, continuation or end tag are not part of the text."""
    out = []
    for n in nodes:
        k = n[0]
        if k == 'lit':
            t = n[1]
            if after_block:
                m = EOL.match(t)
                if m:
                    t = t[m.end():]
            if t:
                out.append(['lit', t])
            after_block = False
            continue
        after_block = k not in ('var', 'call', 'return', 'cs')
        if k == 'var':
            out.append(['var'] + _tgt(n[1]) + [_params(n[2]), 's'])
        elif k == 'cs':
            # a registered (add-on) simple tag; `sf`: the tag hands the compiler a simple form when it has nothing but a name
            _, tname, spec, t, opts = n
            if spec.sf and t[0] == 'name' and not opts:
                out.append(['var', t[1], False, [], 's'])
            else:
                out.append(['cs', spec.cid] + _tgt(t) + [_params(opts)])
        elif k == 'cb':
            # a registered block tag: its sections (start tag + the continuations of ITS OWN blockContinuations)
            _, tname, spec, secs = n
            if spec.sf and len(secs) == 1 and secs[0][1] is not None and secs[0][1][0] == 'name' and not secs[0][2]:
                out.append(['if', [[secs[0][1][1], False, expect(secs[0][3], True)]], None])
            else:
                out.append(['cb', spec.cid, 'UTF-8', [
                    [sn, st is not None] + (_tgt(st) if st is not None else [None, False]) + [_params(so), expect(sb, True)]
                    for sn, st, so, sb in secs]])
        elif k in ('call', 'return'):
            out.append([k] + _tgt(n[1]))
        elif k == 'comment':
            out.append(['comment'])
        elif k == 'if':
            out.append(['if', [_tgt(t) + [expect(b, True)] for t, b in n[1]], expect(n[2], True) if n[2] is not None else None])
        elif k == 'unless':
            out.append(['unless'] + _tgt(n[1]) + [expect(n[2], True)])
        elif k == 'in':
            out.append(['in'] + _tgt(n[1]) + [_params(n[2]), expect(n[3], True), expect(n[4], True) if n[4] is not None else None])
        elif k == 'with':
            out.append(['with'] + _tgt(n[1]) + [[], expect(n[3], True)])
        elif k == 'let':
            out.append(['let', None, expect(n[2], True)])
        elif k == 'raise':
            out.append(['raise'] + _tgt(n[1]) + [expect(n[2], True)])
        elif k == 'try':
            hs = []
            for names, b in n[2]:
                hs += [[nm, expect(b, True)] for nm in (names.split() or [''])]
            out.append(['try', expect(n[1], True), hs, expect(n[3], True) if n[3] is not None else None,
                        expect(n[4], True) if n[4] is not None else None])
        else:
            raise ValueError(k)
    return out


# --------------------------------------------------------------------------- second printer: wider concrete variation
# Beyond tmplgen's printer: white space before the closing delimiter of a tag, unquoted attribute values and names made of
# every character the documented attribute grammar admits unquoted (value chars: anything but white space, control
# characters, '=' and '"'), the same values quoted, %(name options)s (the short var form WITH options), end-tag arguments
# on every block tag.  Per syntax a value is printed unquoted only where that syntax can carry it: '>' ends a <dtml- tag and
# ')' ends a %( tag, so such values are quoted there; no value contains '"', '-->' or a tag opener (not printable at all).

ENT_NAME = re.compile(r'[-a-zA-Z0-9_.]+\Z')
EPFS_NAME = re.compile(r'[a-zA-Z0-9_/.-]+\Z')
WORD = re.compile(r'[A-Za-z0-9_]+\Z')


def printable(v):
    return '"' not in v and '-->' not in v and tmplgen.inert(v)


def can_unq(v, syntax):
    if not v or not printable(v):
        return False
    for ch in v:
        # the grammar's unquoted class is [^\000- ="]; Unicode blanks are left to the quoted form (see `suspicious` in the
        # report: str.strip() removes them at the end of the argument string)
        if ch <= ' ' or ch in '="' or ch.isspace() or ch == '\x7f':
            return False
    if syntax == 'dtml' and '>' in v:
        return False
    if syntax == 'epfs' and ')' in v:
        return False
    return True


class P2:
    def __init__(self, r, syntax):
        self.r, self.syntax = r, syntax

    def sp(self):
        return self.r.choice([' ', ' ', ' ', '  ', '\n', ' \t', '\r\n'])

    def trail(self):
        return self.r.choice(['', '', '', ' ', '\n', '  ', '\t'])

    def val(self, v):
        if can_unq(v, self.syntax) and self.r.random() < 0.65:
            return v
        return '"%s"' % v

    def target(self, t, attr='name'):
        kind, v = t
        if kind == 'expr':
            return self.r.choice(['expr="%s"' % v, '"%s"' % v])
        if can_unq(v, self.syntax) and self.r.random() < 0.6:
            return v
        return '%s=%s' % (attr, self.val(v))

    def opts(self, opts):
        return [k if v is None else '%s=%s' % (k, self.val(v)) for k, v in opts]

    def join(self, parts):
        parts = [p for p in parts if p]
        return ''.join(p if i == 0 else self.sp() + p for i, p in enumerate(parts))

    def esp(self, args):
        # %( syntax: arguments that begin with a quote need two blanks after the tag name (tmplgen.epfs_sp)
        s = self.sp()
        if args.startswith('"') and len(s) < 2:
            s += ' '
        return s

    def tag(self, head, name, args, tail):
        if self.syntax == 'epfs':
            return head + name + ((self.esp(args) + args) if args else '') + self.trail() + tail
        return head + name + ((self.sp() + args) if args else '') + self.trail() + tail

    def open(self, name, args):
        if self.syntax == 'dtml':
            return self.tag('<dtml-', name, args, '>')
        if self.syntax == 'ssi':
            return self.tag('<!--#' + self.r.choice(['', '', ' ']), name, args, '-->')
        return self.tag('%(', name, args, ')[')

    def close(self, name, args):
        args = args if args and self.r.random() < 0.3 else ''
        if self.syntax == 'dtml':
            return self.tag('</dtml-', name, args, '>')
        if self.syntax == 'ssi':
            return self.tag('<!--#' + self.r.choice(['/', '/', 'end', 'end ', 'END', ' /']), name, args, '-->')
        return self.tag('%(', name, args, ')]')

    def simple(self, name, args):
        if self.syntax == 'dtml':
            return self.tag('<dtml-', name, args, '>')
        if self.syntax == 'ssi':
            return self.tag('<!--#' + self.r.choice(['', '', ' ']), name, args, '-->')
        return self.tag('%(', name, args, ')' + self.r.choice('[!'))

    def nodes(self, nodes):
        return ''.join(self.node(n) for n in nodes)

    def node(self, n):
        k = n[0]
        r = self.r
        if k == 'lit':
            return n[1]
        if k == 'var':
            _, t, opts = n
            if self.syntax == 'epfs':
                if t[0] == 'name' and EPFS_NAME.match(t[1]) and t[1] != 'var' and r.random() < 0.5:
                    # %(name options)s
                    return self.tag('%(', t[1], self.join(self.opts(opts)), ')s')
                return self.tag('%(', 'var', self.join([self.target(t)] + self.opts(opts)), ')s')
            if t[0] == 'name' and ENT_NAME.match(t[1]) and opts and r.random() < 0.3 and \
                    all(v is None and WORD.match(o) for o, v in opts):
                mods = [o for o, _ in opts]
                if mods == ['html_quote']:
                    return '&dtml-%s;' % t[1]
                return '&dtml.%s-%s;' % ('.'.join(mods), t[1])
            return self.simple('var', self.join([self.target(t)] + self.opts(opts)))
        if k in ('call', 'return'):
            return self.simple(k, self.target(n[1]))
        if k == 'cs':
            return self.simple(n[1], self.join([self.target(n[3])] + self.opts(n[4])))
        if k == 'cb':
            secs = n[3]
            args = [self.join(([self.target(st)] if st is not None else []) + self.opts(so)) for sn, st, so, sb in secs]
            return ''.join(self.open(sn, a) + self.nodes(sb) for (sn, st, so, sb), a in zip(secs, args)) + \
                self.close(n[1], args[0])
        if k == 'misclosed':
            # a block whose end tag names another tag (or the same name in another case)
            _, tname, wrong, t, body = n
            a = self.target(t) if t is not None else ''
            return self.open(tname, a) + self.nodes(body) + self.close(wrong, a)
        if k == 'unk':
            # a tag name that is not in the registry, written as a start tag (optionally with body and end tag)
            _, tname, t, body = n
            a = self.target(t) if t is not None else ''
            return self.open(tname, a) + ('' if body is None else self.nodes(body) + self.close(tname, a))
        if k == 'comment':
            return self.open('comment', '') + self.nodes(n[1]) + self.close('comment', '')
        if k == 'if':
            _, conds, els = n
            first = self.target(conds[0][0])
            s = self.open('if', first) + self.nodes(conds[0][1])
            for t, body in conds[1:]:
                s += self.open('elif', self.target(t)) + self.nodes(body)
            if els is not None:
                # old style: the else may repeat the if's (bare) name
                rep = first if conds[0][0][0] == 'name' and first == conds[0][0][1] and r.random() < 0.2 else ''
                s += self.open('else', rep) + self.nodes(els)
            return s + self.close('if', first)
        if k == 'unless':
            a = self.target(n[1])
            return self.open('unless', a) + self.nodes(n[2]) + self.close('unless', a)
        if k == 'in':
            _, t, opts, body, els = n
            a = self.join([self.target(t)] + self.opts(opts))
            s = self.open('in', a) + self.nodes(body)
            if els is not None:
                s += self.open('else', '') + self.nodes(els)
            return s + self.close('in', a)
        if k == 'with':
            _, t, opts, body = n
            a = self.join([self.target(t)] + self.opts(opts))
            return self.open('with', a) + self.nodes(body) + self.close('with', a)
        if k == 'let':
            _, binds, body = n
            a = self.join(['%s=%s' % (nm, '"%s"' % v if is_expr else v) for nm, v, is_expr in binds])
            return self.open('let', a) + self.nodes(body) + self.close('let', a)
        if k == 'raise':
            a = self.target(n[1], 'type')
            return self.open('raise', a) + self.nodes(n[2]) + self.close('raise', a)
        if k == 'try':
            _, body, excs, els, fin = n
            s = self.open('try', '') + self.nodes(body)
            for names, b in excs:
                s += self.open('except', names) + self.nodes(b)
            if els is not None:
                s += self.open('else', '') + self.nodes(els)
            if fin is not None:
                s += self.open('finally', '') + self.nodes(fin)
            return s + self.close('try', '')
        raise ValueError(k)


def spellings(t, r, with_tmplgen=True):
    """concrete sources of one abstract template: per syntax one by tmplgen's printer and one by P2, or two by P2"""
    sources = []
    for syn in SYNTAXES:
        kind = 'epfs' if syn == 'epfs' else 'html'
        if with_tmplgen:
            sources.append((syn + '-a', kind, tmplgen.render_source(t, syn, r)[1]))
        for v in range(1 if with_tmplgen else 2):
            sources.append(('%s-w%d' % (syn, v), kind, P2(r, syn).nodes(t)))
    return sources


# --------------------------------------------------------------------------- class B: names that are words of the grammar
# A variable (if / in / with / let / call target) may be called like a tag, a block continuation, an end keyword or an
# attribute: <dtml-var else>, &dtml-else;, %(else)s, %(else upper)s are insertions of the variable `else` wherever they
# stand — also directly inside the block whose continuation has that name.
TAG_WORDS = ['call', 'in', 'with', 'if', 'unless', 'else', 'elif', 'comment', 'raise', 'try', 'except', 'finally', 'let',
             'return', 'tree', 'sendmail', 'end', 'endif', 'endin', 'Else', 'ELIF']
ATTR_WORDS = ['name', 'expr', 'html_quote', 'mapping', 'missing', 'null', 'fmt', 'size', 'sort', 'reverse', 'only', 'type',
              'upper', 'etc', 'prefix', 'url']
ODD_WORDS = ['a.b', 'a-b', 'x-else', 'else-x', 'else.x', 'sequence-item', '_', '0', '1x', 'a_b', 'dtml-var', 'dtml']
# not generated: the name `var` (see the report: <dtml-var var upper> is read as the variable `upper`)
CONTINUATIONS = ['else', 'elif', 'except', 'finally']


def rename(nodes, m):
    def tg(t):
        return ('name', m.get(t[1], t[1])) if t is not None and t[0] == 'name' else t

    out = []
    for n in nodes:
        k = n[0]
        if k == 'lit':
            out.append(n)
        elif k == 'var':
            out.append(('var', tg(n[1]), n[2]))
        elif k in ('call', 'return'):
            out.append((k, tg(n[1])))
        elif k == 'comment':
            out.append(n)
        elif k == 'if':
            out.append(('if', [(tg(t), rename(b, m)) for t, b in n[1]], rename(n[2], m) if n[2] is not None else None))
        elif k == 'unless':
            out.append(('unless', tg(n[1]), rename(n[2], m)))
        elif k == 'in':
            out.append(('in', tg(n[1]), n[2], rename(n[3], m), rename(n[4], m) if n[4] is not None else None))
        elif k == 'with':
            out.append(('with', tg(n[1]), n[2], rename(n[3], m)))
        elif k == 'let':
            out.append(('let', [(nm, v if is_expr else m.get(v, v), is_expr) for nm, v, is_expr in n[1]], rename(n[2], m)))
        elif k == 'raise':
            out.append(('raise', n[1], rename(n[2], m)))       # the target is an exception type, not a variable
        elif k == 'try':
            out.append(('try', rename(n[1], m), [(nm, rename(b, m)) for nm, b in n[2]],
                        rename(n[3], m) if n[3] is not None else None, rename(n[4], m) if n[4] is not None else None))
        else:
            raise ValueError(k)
    return out


class Raised(Exception):
    pass


class RefSub:
    """reference-side stand-in for a namespace value that is itself a template (of either class): its program"""

    def __init__(self, tree):
        self.tree = tree


# the expressions the registry family writes as targets of add-on tags, with their meaning in plain Python
REG_EXPRS = {'c': lambda ns: ns['c'], 'not d': lambda ns: not ns['d'], 's': lambda ns: ns['s'], 'seq': lambda ns: ns['seq'],
             "s or 'none'": lambda ns: ns['s'] or 'none', 'c and s': lambda ns: ns['c'] and ns['s']}


def _target_value(name, is_expr, ns):
    if not is_expr:
        return ns[name]
    if name not in REG_EXPRS:
        raise Raised('expr')
    return REG_EXPRS[name](ns)


def _decorate(text, params, sep):
    p = {k: v for k, v in params}
    text = text * int(p.get('n', '1'))
    if 'upper' in p:
        text = text.upper()
    if 'label' in p:
        text = p['label'] + sep + text
    return text


def ref_render(tree, ns):
    """Reference rendering of an expected program of the small-scope families (plain names, str values, lists)."""
    out = []
    for n in tree:
        k = n[0]
        if k == 'lit':
            out.append(n[1])
        elif k == 'var':
            if n[2]:
                raise Raised('expr')
            if n[1] in ns:
                v = ns[n[1]]
                v = ref_render(v.tree, ns) if isinstance(v, RefSub) else str(v)
            else:
                miss = [pv for pk, pv in n[3] if pk == 'missing']
                if not miss:
                    raise Raised('KeyError')
                out.append(miss[0])
                continue
            flags = [pk for pk, pv in n[3]]
            if flags == ['upper']:
                v = v.upper()
            elif flags == ['lower']:
                v = v.lower()
            elif flags == ['html_quote']:
                v = html.escape(v, quote=True)
            elif flags == ['null'] or flags == ['missing']:
                if flags == ['null'] and not ns[n[1]] and ns[n[1]] != 0:
                    v = n[3][0][1]
            elif flags:
                raise Raised('unmodelled')
            out.append(v)
        elif k == 'comment':
            pass
        elif k == 'cs':
            # the add-on simple tag's documented meaning (see make_simple): value as text, n times, upper, label
            _, cid, name, is_expr, params = n
            out.append('%s[%s]' % (cid, _decorate(str(_target_value(name, is_expr, ns)), params, ':')))
        elif k == 'cb':
            # the add-on block tag's documented meaning (see make_block): the sections in order, each skipped when it has
            # a condition that is false
            parts = []
            for sname, has, name, is_expr, params, body in n[3]:
                if has and not _target_value(name, is_expr, ns):
                    continue
                parts.append('%s:%s;' % (sname, _decorate(ref_render(body, ns), params, '=')))
            out.append('%s{%s}' % (n[1], ''.join(parts)))
        elif k == 'if':
            for name, is_expr, body in n[1]:
                if ns[name]:
                    out.append(ref_render(body, ns))
                    break
            else:
                if n[2] is not None:
                    out.append(ref_render(n[2], ns))
        elif k == 'unless':
            if not ns[n[1]]:
                out.append(ref_render(n[3], ns))
        elif k == 'in':
            seq = ns[n[1]]
            if seq:
                out.extend(ref_render(n[4], ns) for _ in seq)
            elif n[5] is not None:
                out.append(ref_render(n[5], ns))
        elif k == 'with':
            out.append(ref_render(n[4], ns))      # the object has no attributes: nothing is shadowed
        elif k == 'let':
            out.append(ref_render(n[2], ns))      # binds v0 only, which the body does not use
        elif k == 'try':
            out.append(ref_render(n[1], ns))      # nothing raises
            if n[3] is not None:
                out.append(ref_render(n[3], ns))
            if n[4] is not None:
                out.append(ref_render(n[4], ns))
        else:
            raise Raised(k)
    return ''.join(out)


def small_ns():
    return [lambda log: dict(c=1, d=0, seq=[1, 2], o=O()), lambda log: dict(c=0, d=1, seq=[], o=O()),
            lambda log: dict(c=0, d=0, seq=[7], o=O())]


def predicted(t, extra):
    exp_tree = expect(t)
    outs = []
    for nsf in small_ns():
        ns = dict(nsf(None), **extra)
        try:
            outs.append({'ok': ref_render(exp_tree, ns)})
        except Raised as e:
            outs.append({'raise': e.args[0]} if e.args[0] == 'KeyError' else None)
    return exp_tree, outs


def shapes(v):
    """one insertion `v` at every place of every block kind (first thing of a section, between texts, last thing)"""
    c, d = ('name', 'c'), ('name', 'd')
    L = lambda s: ('lit', s)  # noqa: E731
    return [
        ('top', [L('['), v, L(']')]),
        ('if', [L('['), ('if', [(c, [L('A'), v, L('B')]), (d, [v, L('E')])], [L('C'), v]), L(']')]),
        ('if1', [('if', [(c, [v])], None), L('.')]),
        ('unless', [('unless', c, [v, L('U')]), v]),
        ('in', [L('('), ('in', ('name', 'seq'), [], [v, L(',')], [L('none'), v]), L(')')]),
        ('in1', [('in', ('name', 'seq'), [], [L('i'), v], None)]),
        ('try', [('try', [L('T'), v], [('KeyError', [L('H'), v])], [v, L('L')], None)]),
        ('try-default', [('try', [v], [('', [v])], None, None), L('!')]),
        ('try-finally', [('try', [v, L('T')], [], None, [v, L('F')])]),
        ('with', [('with', ('name', 'o'), [], [v, L('W')])]),
        ('let', [('let', [('v0', 'c', False)], [L('l'), v])]),
        ('comment', [('comment', [L('gone')]), v]),
    ]


def run_reserved(res, r, n_random, reqs, meta):
    words = TAG_WORDS + ATTR_WORDS + ODD_WORDS
    # small scope, predicted: every word x every block kind
    for w in words:
        for i in range(len(shapes(None))):
            opts = r.choice([[], [], [('upper', None)], [('html_quote', None)], [('missing', 'm')]])
            sname, t = shapes(('var', ('name', w), opts))[i]
            extra = {w: '<%s&>' % w}
            exp_tree, outs = predicted(t, extra)
            if w in ('sequence-item', 'mapping') and sname.startswith('in'):
                outs = None       # the in tag itself defines these two names inside its body: not predicted here
            res.nt(('word', w, sname, bool(opts)))
            res.count('reserved_word_small_scope')
            check_group(res, 'word-as-variable', spellings(t, r), False, reqs, meta, extra=extra, nss=small_ns(),
                        expect_status='ok', expect_tree=exp_tree, expect_out=outs, abstract=repr(t))
    # random templates over all tags whose names are renamed to words of the grammar
    for _ in range(n_random):
        t = tmplgen.gen_template(r, r.choice([1, 2, 2, 3]), 3)
        names = list(tmplgen.NAMES)
        r.shuffle(names)
        picked = r.sample(words, r.randint(1, 4))
        if r.random() < 0.6:
            picked[0] = r.choice(CONTINUATIONS)
        m = dict(zip(names, picked))
        t2 = rename(t, m)
        alias = sorted((new, old) for old, new in m.items())
        res.nt(('renamed', repr(t2)[:80]))
        res.count('reserved_word_random')
        check_group(res, 'renamed-template', spellings(t2, r), False, reqs, meta, alias=alias,
                    expect_tree=expect(t2), abstract=repr(t2))


# --------------------------------------------------------------------------- class A: hostile attribute values and names
# Values / names built from every character the attribute grammar admits, in particular as the LAST thing of a tag directly
# before its closing delimiter (with and without blanks in between), unquoted where the syntax can carry them and quoted.
UNQ_CHARS = list("/\\!#$%&'*+,-.:;<?@[]^_`{|}~(") + ['é', 'K', '0']
QUOTED_CHARS = [' ', '  ', '>', ')', '=', '\n', '\t', ' /', '/ ', ' ']
PIECES = ['a', 'x', 'else', 'end', 'var', 'n/a', './', '../', 'http://h/', '--', '/>', '1', 'no']


def gen_value(r, quoted_ok=True):
    for _ in range(20):
        parts = []
        for _ in range(r.choice([1, 1, 2, 2, 3])):
            c = r.random()
            if c < 0.55:
                parts.append(r.choice(UNQ_CHARS))
            elif c < 0.85 or not quoted_ok:
                parts.append(r.choice(PIECES))
            else:
                parts.append(r.choice(QUOTED_CHARS))
        v = ''.join(parts)
        if printable(v) and v != 'var' and (quoted_ok or all(can_unq(v, s) for s in SYNTAXES)):
            return v
    return '/'


def systematic_values():
    vals = []
    for ch in UNQ_CHARS:
        vals += [ch, 'a' + ch, ch + 'a', '.' + ch, ch + ch]
    return [v for v in vals if printable(v)]


def run_hostile(res, r, n_random, reqs, meta):
    L = lambda s: ('lit', s)  # noqa: E731
    flags = ['upper', 'lower', 'html_quote']
    # small scope, predicted: each character alone / after / before a letter / doubled, at each attribute site
    for v in systematic_values():
        sites = [
            ('missing-last', [L('['), ('var', ('name', 'nope'), [('missing', v)]), L(']')]),
            ('missing-inner', [('var', ('name', 'nope'), [('missing', v), ('null', 'n')]), L('|')]),
            ('null-last', [L('['), ('var', ('name', 'z'), [('null', v)]), L(']')]),
            ('name', [L('['), ('var', ('name', v), r.choice([[], [(r.choice(flags), None)]])), L(']')]),
            ('if-name', [('if', [(('name', v), [L('yes')])], [L('no')])]),
            ('in-sort', [('in', ('name', 'seq'), [('sort', v)], [L('i')], None)]),
            ('except', [('try', [L('t')], [(v, [L('h')])], None, None)]),
            ('let', [('let', [('v0', v, False)], [L('b')])]),
            ('raise', [('raise', ('name', v), [L('msg')])]),
        ]
        for sname, t in sites:
            if sname in ('let', 'except') and not all(can_unq(v, s) for s in SYNTAXES):
                continue          # no quoted form exists for these
            extra = {v: 'val'} if sname in ('name', 'if-name', 'let') else {}
            extra['z'] = None
            exp_tree = expect(t)
            outs = None
            if sname in ('missing-last', 'null-last'):
                outs = [{'ok': '[' + v + ']'}] * 3           # documented: missing= / null= give the replacement text
            elif sname == 'missing-inner':
                outs = [{'ok': v + '|'}] * 3
            elif sname == 'name':
                exp_tree, outs = predicted(t, extra)
            elif sname == 'if-name':
                outs = [{'ok': 'yes'}] * 3
            res.nt(('value', v, sname))
            res.count('hostile_value_small_scope')
            check_group(res, 'attribute-value:' + sname, spellings(t, r, with_tmplgen=False), False, reqs, meta, extra=extra,
                        nss=small_ns(), expect_status='ok', expect_tree=exp_tree, expect_out=outs, abstract=repr(t))
    # random: several hostile attributes on all tags that take values, inside blocks
    for _ in range(n_random):
        extra = {}

        def name():
            v = gen_value(r)
            extra[v] = 'N%d' % len(extra)
            return ('name', v)

        def hv():
            k = r.choice(['missing', 'null', 'name', 'fmt', 'etc', 'plain'])
            opts = [(f, None) for f in flags if r.random() < 0.15]
            if k == 'missing':
                return ('var', ('name', r.choice(['nope', 'x'])), opts + [('missing', gen_value(r))])
            if k == 'null':
                return ('var', ('name', r.choice(['z', 'y'])), opts + [('null', gen_value(r))] +
                        ([('missing', gen_value(r))] if r.random() < 0.3 else []))
            if k == 'fmt':
                return ('var', ('name', 'y'), [('fmt', r.choice(['%s', '%s/', '[%s]', '%d;', '%s' + gen_value(r).replace('%', '')]))])
            if k == 'etc':
                return ('var', ('name', 'x'), [('size', str(r.randint(1, 5))), ('etc', gen_value(r))])
            if k == 'name':
                return ('var', name(), opts)
            return ('var', ('name', r.choice(['x', 'y'])), opts)

        def body(depth):
            out = []
            for _ in range(r.randint(1, 2)):
                t = tmplgen.gen_lit(r, 2)
                if t:
                    out.append(L(t))
                out.append(block(depth - 1) if depth > 0 and r.random() < 0.4 else hv())
            t = tmplgen.gen_lit(r, 2)
            if t:
                out.append(L(t))
            return out

        def block(depth):
            k = r.choice(['if', 'unless', 'in', 'with', 'let', 'raise', 'try', 'call'])
            if k == 'if':
                return ('if', [(name(), body(depth)) for _ in range(r.randint(1, 2))], body(depth) if r.random() < 0.5 else None)
            if k == 'unless':
                return ('unless', name(), body(depth))
            if k == 'in':
                opts = []
                if r.random() < 0.5:
                    opts.append(('sort', gen_value(r)))
                if r.random() < 0.3:
                    opts.append(('prefix', r.choice(['p', 'else', 'end', 'p_1'])))
                if r.random() < 0.3:
                    opts.append((r.choice(['size', 'start']), r.choice(['1', '2', '3'])))
                    if r.random() < 0.4:
                        opts.append((r.choice(['orphan', 'overlap', 'end']), r.choice(['1', '2', '0', '-1'])))
                return ('in', ('name', r.choice(['items', 'seq'])), opts, body(depth), body(depth) if r.random() < 0.3 else None)
            if k == 'with':
                return ('with', name(), [], body(depth))
            if k == 'let':
                v = gen_value(r, quoted_ok=False)
                extra[v] = 'L'
                return ('let', [('v0', v, False)], body(depth))
            if k == 'raise':
                return ('raise', ('name', gen_value(r)), body(depth))
            if k == 'try':
                return ('try', body(depth), [(' '.join(gen_value(r, quoted_ok=False) for _ in range(r.randint(1, 2))), body(depth))],
                        None, None)
            return ('call', name())

        t = body(2)
        extra.update(z=None, seq=[3, 1])
        res.nt(('hostile', repr(t)[:80]))
        res.count('hostile_value_random')
        check_group(res, 'attribute-values', spellings(t, r, with_tmplgen=False), False, reqs, meta, extra=extra,
                    expect_status='ok', expect_tree=expect(t), abstract=repr(t))
    # stray tokens: an abstract tag with one more, invalid, valueless attribute is rejected in every spelling
    for junk in ['/', '//', '-', '!', '?', 'bogus', 'x/', '/x', '.', '#', 'endin', 'else']:
        for sname, t in [
                ('var', [L('a'), ('var', ('name', 'x'), [('upper', None), (junk, None)])]),
                ('var1', [('var', ('name', 'x'), [(junk, None)]), L('b')]),
                ('in', [('in', ('name', 'items'), [(junk, None)], [L('i')], None)]),
                ('with', [('with', ('name', 'obj'), [(junk, None)], [L('w')])]),
                ('if', [('if', [(('name', 'x'), [L('y')])], None)]),
        ]:
            if sname == 'if':
                # the if tag takes nothing but its condition
                srcs = []
                for syn in SYNTAXES:
                    p = P2(r, syn)
                    srcs.append((syn, 'epfs' if syn == 'epfs' else 'html', p.open('if', 'x' + p.sp() + junk) + 'y' + p.close('if', '')))
            else:
                srcs = spellings(t, r, with_tmplgen=False)
            res.nt(('stray', junk, sname))
            res.count('stray_token')
            check_group(res, 'stray-token:' + sname, srcs, False, reqs, meta, expect_status='parse-error', abstract=repr(t))


# --------------------------------------------------------------------------- class C (round 6): histories of the tag registry
# "over all tags": the set of tags is not fixed.  `String.commands` is the engine's tag registry; add-ons register their tags
# in it after the package has been imported (TreeDisplay: `String.commands['tree'] = Tree`; ZSQLMethods' sqlvar / sqltest,
# MailHost's sendmail do the same), either as the tag class or in the table's own lazy form (name, module, class name).
# A HISTORY is a sequence of registry operations — register a new simple / block tag (with block continuations of its own,
# with or without a `simple_form`), replace a registered or a built-in tag, remove one, put a built-in back — made through
# every handle on the registry an application has (the attribute of either template class, of a template instance, of a
# File class), interleaved with USES: an abstract template over the tags registered at that moment (+, after a removal,
# the tag that is gone) printed in every syntax by P2 and compiled by both template classes and by plain subclasses of
# them; sometimes with templates of BOTH classes, using the tag, as namespace values of one rendering.
# What a use denotes is computed from the ABSTRACT registry kept here (a plain dict name -> Spec) and the add-on tags'
# own documented meaning (make_simple / make_block; reference: ref_render), never from the library's table.
# Not generated (each a known finding, see known_findings.json): tag names beginning with `end` (any case; `<!--#endX-->`
# is an end tag) and tag names that are not made of letters only (the HTML scanner's tag name is [a-zA-Z]+).
# Also left alone: `var` (the %(name)s form is an insertion by definition, not a registry lookup) and `else` (old-style
# else-with-arguments is looked up in the registry by design).
ADDON = 'c07_addon'
ADDON_OPTS = {'upper': 1, 'label': '', 'n': '1'}
BUILTIN = 'builtin'
BUILTIN_TAGS = ['var', 'call', 'in', 'with', 'if', 'unless', 'else', 'comment', 'raise', 'try', 'let', 'return', 'tree']
REPLACEABLE = ['call', 'comment', 'return', 'unless', 'with', 'let', 'raise', 'tree', 'in', 'if', 'try']
TAG_NAMES = ['shout', 'twice', 'sqlvar', 'Shout', 'x', 'c', 'va', 'vars', 'iff', 'i', 'inn', 'elsewhere', 'e', 'en', 'sendmail',
             'mime', 'A', 'zz', 'dtml', 'name', 'expr', 'VAR', 'If', 'switch', 'tre', 'trees', 'comments']
CONT_SETS = [(), (), ('case', 'otherwise'), ('else',), ('elif', 'else'), ('boundary',), ('except', 'finally')]
REG_VARS = ['c', 'd', 's', 'seq', 'e']
_cid = [0]


class Spec:
    """one registered add-on tag: kind 'simple' | 'block', its continuations, whether it offers a simple_form, its class"""

    def __init__(self, name, kind, conts=(), sf=False):
        _cid[0] += 1
        self.name, self.kind, self.conts, self.sf = name, kind, tuple(conts), sf
        self.cid = 'T%d' % _cid[0]
        self.cls = (make_simple if kind == 'simple' else make_block)(self)

    def __repr__(self):
        return '<%s %s %s%s%s>' % (self.cid, self.name, self.kind, '/' + ','.join(self.conts) if self.conts else '',
                                   ' sf' if self.sf else '')


def make_simple(spec):
    """An add-on simple tag, written the way the documentation of the tag protocol asks: constructed from the argument
    text, rendered by calling it with the namespace.  <dtml-NAME target [upper] [label=L] [n=K]> inserts
    CID[ label: TEXT ] where TEXT = the value as text, K times, upper-cased on request."""
    from DocumentTemplate.DT_Util import name_param, parse_params

    class AddonSimple:
        _c07_kind = 'cs'
        name = spec.name
        cid = spec.cid

        def __init__(self, args):
            a = parse_params(args, name='', expr='', **ADDON_OPTS)
            self.target, self.expr = name_param(a, spec.name, 1)
            self.args = a
            if spec.sf and self.expr is None and not [k for k in a if k in ADDON_OPTS]:
                self.simple_form = ('v', self.target)

        def __call__(self, md):
            v = md[self.target] if self.expr is None else self.expr.eval(md)
            a = self.args
            s = str(v) * int(a.get('n', '1'))
            if 'upper' in a:
                s = s.upper()
            if 'label' in a:
                s = a['label'] + ':' + s
            return '%s[%s]' % (spec.cid, s)

    AddonSimple.__name__ = AddonSimple.__qualname__ = spec.cid
    return AddonSimple


def make_block(spec):
    """An add-on block tag: constructed from its sections [(tag name, argument text, section)], rendered by calling it.
    Every section (the start tag's and those of the continuations) may carry a condition (name or expr) and the
    options; it renders as NAME:[label=]BODY; (BODY n times, upper-cased on request) unless its condition is false."""
    from DocumentTemplate._DocumentTemplate import render_blocks
    from DocumentTemplate.DT_Util import name_param, parse_params

    class AddonBlock:
        _c07_kind = 'cb'
        name = spec.name
        cid = spec.cid
        blockContinuations = spec.conts

        def __init__(self, blocks, encoding=None):
            self.encoding = encoding
            self.secs = []
            for tname, args, section in blocks:
                a = parse_params(args, name='', expr='', **ADDON_OPTS)
                if '' in a or 'name' in a or 'expr' in a:
                    target, expr = name_param(a, tname, 1)
                    self.secs.append((tname, True, target, expr, a, section.blocks))
                else:
                    self.secs.append((tname, False, None, None, a, section.blocks))
            first = self.secs[0]
            if spec.sf and len(self.secs) == 1 and first[1] and first[3] is None and \
                    not [k for k in first[4] if k in ADDON_OPTS]:
                self.simple_form = ('i', first[2], first[5])

        def __call__(self, md):
            out = []
            for tname, has, target, expr, a, blocks in self.secs:
                if has and not (md[target] if expr is None else expr.eval(md)):
                    continue
                s = render_blocks(blocks, md, encoding=self.encoding) * int(a.get('n', '1'))
                if 'upper' in a:
                    s = s.upper()
                if 'label' in a:
                    s = a['label'] + '=' + s
                out.append('%s:%s;' % (tname, s))
            return '%s{%s}' % (spec.cid, ''.join(out))

    AddonBlock.__name__ = AddonBlock.__qualname__ = spec.cid
    return AddonBlock


@contextlib.contextmanager
def addon_norm():
    """parselib's structural printer, taught the add-on tags' instances (also inside the sections of built-in blocks)"""
    orig = parselib.norm1

    def norm1(b):
        k = getattr(b, '_c07_kind', None)
        if k == 'cs':
            return ['cs', b.cid, parselib._ex(b.target, b.expr is not None), b.expr is not None, parselib.params(b.args)]
        if k == 'cb':
            return ['cb', b.cid, b.encoding, [
                [tn, has, parselib._ex(tg, ex is not None), ex is not None, parselib.params(a), parselib.norm(blocks)]
                for tn, has, tg, ex, a, blocks in b.secs]]
        return orig(b)
    parselib.norm1 = norm1
    try:
        yield
    finally:
        parselib.norm1 = orig


def registry_handles():
    """every way an application reaches the tag registry"""
    from DocumentTemplate import HTML, File, HTMLFile, String
    from DocumentTemplate import DT_HTML, DT_String
    return [('String.commands', lambda: String.commands), ('HTML.commands', lambda: HTML.commands),
            ("String('').commands", lambda: String('').commands), ("HTML('').commands", lambda: HTML('').commands),
            ('DT_String.String.commands', lambda: DT_String.String.commands), ('HTMLFile.commands', lambda: HTMLFile.commands),
            ('File.commands', lambda: File.commands), ('DT_HTML.HTMLDefault.commands', lambda: DT_HTML.HTMLDefault.commands)]


class Sandbox:
    """whatever a history does to the registry (to every table a handle reaches) is undone by reset()"""

    def __init__(self):
        self.tables = {}
        for _, h in registry_handles():
            d = h()
            self.tables.setdefault(id(d), (d, dict(d)))
        self.mod = sys.modules.get(ADDON) or types.ModuleType(ADDON)
        sys.modules[ADDON] = self.mod

    def reset(self):
        for _, h in registry_handles():
            d = h()
            if id(d) not in self.tables:        # a table that was not there before
                d.clear()
        for d, saved in self.tables.values():
            d.clear()
            d.update(saved)


@contextlib.contextmanager
def registry_sandbox():
    sb = Sandbox()
    try:
        with addon_norm():
            yield sb
    finally:
        sb.reset()
        sys.modules.pop(ADDON, None)


class Registry:
    """the abstract registry (what the oracle knows) and the operations that carry it out on the real one"""

    def __init__(self, r, sandbox):
        from DocumentTemplate import String
        sandbox.reset()
        self.r, self.mod = r, sandbox.mod
        self.R = {n: BUILTIN for n in BUILTIN_TAGS}
        self.original = {n: String.commands[n] for n in BUILTIN_TAGS if n in String.commands}
        self.handles = registry_handles()
        self.hist = []

    def _pick(self, handle, form):
        h = self.handles[handle % len(self.handles)] if handle is not None else self.r.choice(self.handles)
        return h, form or self.r.choice(['class', 'class', 'lazy'])

    def register(self, name, spec, handle=None, form=None):
        (hname, h), form = self._pick(handle, form)
        if form == 'lazy':
            setattr(self.mod, spec.cid, spec.cls)
            h()[name] = (name, ADDON, spec.cid)
        else:
            h()[name] = spec.cls
        self.hist.append('%s[%r] = %s %r' % (hname, name, 'lazy entry of' if form == 'lazy' else 'class of', spec))
        self.R[name] = spec

    def remove(self, name, handle=None):
        (hname, h), _ = self._pick(handle, 'class')
        h().pop(name, None)
        self.hist.append('del %s[%r]' % (hname, name))
        self.R.pop(name, None)

    def restore(self, name, handle=None):
        (hname, h), _ = self._pick(handle, 'class')
        h()[name] = self.original[name]
        self.hist.append('%s[%r] = the built-in entry' % (hname, name))
        self.R[name] = BUILTIN

    def customs(self):
        return sorted(n for n, s in self.R.items() if s is not BUILTIN)

    def intact(self, name):
        return self.R.get(name) is BUILTIN

    def free_name(self):
        free = [n for n in TAG_NAMES if n not in self.R]
        return self.r.choice(free) if free else None


def new_spec(r, name, kind=None):
    kind = kind or r.choice(['simple', 'simple-sf', 'block', 'block', 'block-conts', 'block-conts', 'block-sf'])
    if kind.startswith('simple'):
        return Spec(name, 'simple', sf=kind.endswith('sf'))
    conts = r.choice([c for c in CONT_SETS if c]) if kind == 'block-conts' else ()
    return Spec(name, 'block', conts, sf=kind.endswith('sf'))


def bodies_of(n):
    """the sections of one abstract node"""
    k = n[0]
    if k == 'if':
        return [b for _, b in n[1]] + ([n[2]] if n[2] is not None else [])
    if k in ('unless', 'raise'):
        return [n[2]]
    if k == 'in':
        return [n[3]] + ([n[4]] if n[4] is not None else [])
    if k == 'with':
        return [n[3]]
    if k == 'let':
        return [n[2]]
    if k == 'try':
        return [n[1]] + [b for _, b in n[2]] + [x for x in (n[3], n[4]) if x is not None]
    if k == 'cb':
        return [sb for _, _, _, sb in n[3]]
    if k == 'unk':
        return [n[3]] if n[3] is not None else []
    if k == 'misclosed':
        return [n[4]]
    return []


def tags_used(nodes):
    """node kinds of an abstract template (for the built-in tags: the names it needs in the registry)"""
    out = set()
    for n in nodes:
        if n[0] != 'lit':
            out.add(n[0])
            for b in bodies_of(n):
                out |= tags_used(b)
    return out


def reg_namespaces():
    """three plain namespaces (renderings predicted by ref_render) and one of logged callables (call log compared)"""
    return [lambda log: dict(c=1, d=0, s='a<b', seq=[1, 2], e=[]),
            lambda log: dict(c=0, d=1, s='', seq=[], e=[0]),
            lambda log: dict(c='yes', d='', s='q"r&', seq=[7], e=[]),
            lambda log: dict(c=Fn(log, 1, 1), d=Fn(log, 2, 0), s=Fn(log, 3, 'S&'), seq=Fn(log, 4, [1]), e=Fn(log, 5, []))]


def gen_use(r, reg, force=None, unknown=None, depth=2):
    """an abstract template over the registry `reg`: the add-on tags registered now, var / if / unless / in where those
    are still the built-in ones; `force`: a tag that must occur; `unknown`: a name that is NOT registered, used as a tag"""
    L = lambda s: ('lit', s)  # noqa: E731
    todo = {'force': force, 'unknown': unknown}

    def lits():
        t = tmplgen.gen_lit(r, 2)
        return [L(t)] if t else []

    def target(expr_ok=True):
        if expr_ok and r.random() < 0.15:
            return ('expr', r.choice(sorted(REG_EXPRS)))
        return ('name', r.choice(REG_VARS))

    def options(valueless_ok):
        opts = []
        if r.random() < 0.3:
            opts.append(('label', r.choice(['L', 'a/b', 'x y', 'else', '1'])))
        if r.random() < 0.3:
            opts.append(('n', r.choice(['1', '2', '3', '0'])))
        if valueless_ok and r.random() < 0.3:
            opts.append(('upper', None))
        r.shuffle(opts)
        return opts

    def custom(name, depth):
        spec = reg.R[name]
        if spec.kind == 'simple':
            if spec.sf and r.random() < 0.6:
                return ('cs', name, spec, target(False), [])
            return ('cs', name, spec, target(), options(True))
        if spec.sf and r.random() < 0.6:
            return ('cb', name, spec, [(name, target(False), [], body(depth - 1))])
        secs = []
        for sn in [name] + [r.choice(spec.conts) for _ in range(r.randint(0, 3) if spec.conts else 0)]:
            if sn == 'else' or r.random() < 0.35:
                secs.append((sn, None, [] if sn == 'else' else options(False), body(depth - 1)))
            else:
                secs.append((sn, target(), options(True), body(depth - 1)))
        return ('cb', name, spec, secs)

    def node(depth):
        if todo['force'] is not None and (depth <= 0 or r.random() < 0.6):
            name, todo['force'] = todo['force'], None
            return custom(name, depth)
        if todo['unknown'] is not None and (depth <= 0 or r.random() < 0.6):
            name, todo['unknown'] = todo['unknown'], None
            t = target() if r.random() < 0.8 else None
            return ('unk', name, t, body(depth - 1) if r.random() < 0.5 else None)
        kinds = ['var', 'var']
        cs = reg.customs()
        if cs:
            kinds += ['custom'] * 4
        if depth > 0:
            kinds += [k for k in ('if', 'in', 'unless') if reg.intact(k)]
        k = r.choice(kinds)
        if k == 'custom':
            return custom(r.choice(cs), depth)
        if k == 'var':
            return ('var', ('name', r.choice(REG_VARS)), r.choice([[], [], [('upper', None)], [('html_quote', None)]]))
        if k == 'if':
            return ('if', [(('name', r.choice(['c', 'd'])), body(depth - 1)) for _ in range(r.randint(1, 2))],
                    body(depth - 1) if r.random() < 0.5 else None)
        if k == 'unless':
            return ('unless', ('name', r.choice(['c', 'd'])), body(depth - 1))
        return ('in', ('name', r.choice(['seq', 'e'])), [], body(depth - 1), body(depth - 1) if r.random() < 0.4 else None)

    def body(depth):
        out = []
        for _ in range(r.randint(1, 2) if depth >= 0 else 0):
            out += lits()
            out.append(node(depth))
        return out + lits()

    t = body(depth)
    # whatever was asked for and did not come up by chance goes to the top level
    while todo['force'] is not None or todo['unknown'] is not None:
        t.insert(r.randint(0, len(t)), node(0))
    return t


def reg_spellings(t, r):
    """two spellings per syntax by P2, + one <dtml-> / one %( spelling compiled by the subclasses; in random order"""
    src = spellings(t, r, with_tmplgen=False)
    src.append(('dtml-sub', 'html-sub', P2(r, r.choice(['dtml', 'ssi'])).nodes(t)))
    src.append(('epfs-sub', 'epfs-sub', P2(r, 'epfs').nodes(t)))
    r.shuffle(src)
    return src


def use(res, r, reg, reqs, meta, force=None, unknown=None, with_subs=False):
    """one USE of the registry as it is now: see the head of this section"""
    t = gen_use(r, reg, force=force, unknown=unknown)
    extra, extra_ref = {}, {}
    cs = reg.customs()
    if with_subs and cs and unknown is None:
        # templates of BOTH classes that use a registered tag, as values of the namespace of one rendering
        sub = gen_use(r, reg, force=r.choice(cs), depth=0)
        extra = {'subh': template_class('html')(P2(r, r.choice(['dtml', 'ssi'])).nodes(sub)),
                 'subs': template_class('epfs')(P2(r, 'epfs').nodes(sub))}
        extra_ref = {'subh': RefSub(expect(sub)), 'subs': RefSub(expect(sub))}
        for nm in ('subh', 'subs'):
            t.insert(r.randint(0, len(t)), ('var', ('name', nm), []))
        res.count('registry_use_two_classes_in_one_rendering')
    abstract = {'registry history': list(reg.hist), 'template': repr(t)}
    res.nt(('registry', len(reg.hist), reg.hist[-1] if reg.hist else '', repr(t)[:60]))
    res.count('registry_use')
    # the model has the built-in table: it covers the uses without add-on tags whose tags are the built-in ones
    eligible = all(reg.intact(k) for k in tags_used(t) - {'unk'}) and (unknown is None or unknown not in BUILTIN_TAGS)
    rq, mt = (reqs, meta) if eligible else ([], [])
    if unknown is not None:
        res.count('registry_use_of_unregistered_tag')
        check_group(res, 'registry:unregistered-tag', reg_spellings(t, r), False, rq, mt, extra=extra, nss=reg_namespaces(),
                    expect_status='parse-error', expect_msg='Unexpected tag', abstract=abstract)
        return
    exp_tree = expect(t)
    outs = []
    for nsf in reg_namespaces()[:3]:
        try:
            outs.append({'ok': ref_render(exp_tree, dict(nsf(None), **extra_ref))})
        except Raised:
            outs.append(None)
    check_group(res, 'registry:use', reg_spellings(t, r), False, rq, mt, extra=extra, nss=reg_namespaces(),
                expect_status='ok', expect_tree=exp_tree, expect_out=outs + [None], abstract=abstract)


def use_misclosed(res, r, reg, reqs, meta):
    """a block tag of the registry (built-in or add-on) closed by the end tag of another name — the same name in another
    case, another registered block tag, a name that is no tag: rejected alike as an unexpected end tag"""
    blocks = [n for n in ('if', 'in', 'with', 'unless') if reg.intact(n)] + \
        [n for n in reg.customs() if reg.R[n].kind == 'block']
    if not blocks:
        return
    name = r.choice(blocks)
    wrong = r.choice([w for w in [name.swapcase(), name.capitalize(), name.upper(), name + 'x', name[:-1] or 'q'] +
                      [b for b in blocks] if w != name and not w.lower().startswith('end')])
    t = [('lit', 'a'), ('misclosed', name, wrong, ('name', r.choice(['c', 'seq'])), gen_use(r, reg, depth=0)), ('lit', 'b')]
    res.nt(('registry-misclosed', name, wrong, len(reg.hist)))
    res.count('registry_use_misclosed_block')
    eligible = name in BUILTIN_TAGS and all(reg.intact(k) for k in tags_used(t[1][4]))
    rq, mt = (reqs, meta) if eligible else ([], [])
    check_group(res, 'registry:misclosed-block', reg_spellings(t, r), False, rq, mt, nss=reg_namespaces(),
                expect_status='parse-error', expect_msg='unexpected end tag',
                abstract={'registry history': list(reg.hist), 'template': repr(t)})


def use_builtin(res, r, reg, reqs, meta):
    """a random template over ALL built-in tags (tmplgen) compiled while the registry holds add-on tags / after built-ins
    were replaced and put back: still the program it denotes (and the model's)"""
    for _ in range(20):
        t = tmplgen.gen_template(r, r.choice([1, 2, 2]), 3)
        if all(reg.intact(k) for k in tags_used(t)):
            break
    else:
        return
    res.nt(('registry-builtin', len(reg.hist), repr(t)[:60]))
    res.count('registry_use_builtin_template')
    check_group(res, 'registry:built-in-template', spellings(t, r), False, reqs, meta, expect_tree=expect(t),
                abstract={'registry history': list(reg.hist), 'template': repr(t)})


def run_registry(res, r, n_random, reqs, meta):
    with registry_sandbox() as sb:
        n_handles = len(registry_handles())
        kinds = ['simple', 'simple-sf', 'block', 'block-conts', 'block-sf']
        # small scope: every handle x both entry forms x every kind of tag: register, use, replace (other kind, other
        # handle, other form), use, remove, use (rejected alike), register again, use
        i = 0
        for h in range(n_handles):
            for form in ('class', 'lazy'):
                for kind in kinds:
                    i += 1
                    reg = Registry(r, sb)
                    name = TAG_NAMES[i % len(TAG_NAMES)]
                    reg.register(name, new_spec(r, name, kind), h, form)
                    use(res, r, reg, reqs, meta, force=name, with_subs=(i % 3 == 0))
                    reg.register(name, new_spec(r, name, kinds[(kinds.index(kind) + 1 + i) % len(kinds)]), h + 1 + i,
                                 'lazy' if form == 'class' else 'class')
                    use(res, r, reg, reqs, meta, force=name, with_subs=(i % 3 == 1))
                    use_misclosed(res, r, reg, reqs, meta)
                    reg.remove(name, h + i)
                    use(res, r, reg, reqs, meta, unknown=name)
                    use(res, r, reg, reqs, meta, unknown=reg.free_name())      # a name that never was a tag
                    if i % 2:
                        reg.register(name, new_spec(r, name, kind), h + 2 * i, form)
                        use(res, r, reg, reqs, meta, force=name)
        # small scope: every replaceable built-in tag: replaced by an add-on tag, used; removed, used (rejected); put
        # back, used in a template over the built-in tags
        for j, b in enumerate(REPLACEABLE):
            reg = Registry(r, sb)
            reg.register(b, new_spec(r, b), j, ('class', 'lazy')[j % 2])
            use(res, r, reg, reqs, meta, force=b)
            reg.remove(b, j + 1)
            use(res, r, reg, reqs, meta, unknown=b)
            other = reg.free_name()
            reg.register(other, new_spec(r, other), j + 2)
            reg.restore(b, j + 3)
            use(res, r, reg, reqs, meta, force=other)
            use_builtin(res, r, reg, reqs, meta)
        # random histories
        for _ in range(n_random):
            reg = Registry(r, sb)
            for _ in range(r.randint(3, 8)):
                op = r.choice(['register', 'register', 'register', 'replace', 'replace-builtin', 'remove', 'remove-builtin',
                               'restore', 'never-registered'])
                cs = [n for n in reg.customs() if n not in BUILTIN_TAGS]
                gone = [n for n in REPLACEABLE if not reg.intact(n)]
                if op == 'register' and reg.free_name():
                    name = reg.free_name()
                    reg.register(name, new_spec(r, name))
                    use(res, r, reg, reqs, meta, force=name, with_subs=r.random() < 0.25)
                elif op == 'replace' and cs:
                    name = r.choice(cs)
                    reg.register(name, new_spec(r, name))
                    use(res, r, reg, reqs, meta, force=name, with_subs=r.random() < 0.25)
                elif op == 'replace-builtin':
                    name = r.choice(REPLACEABLE)
                    reg.register(name, new_spec(r, name))
                    use(res, r, reg, reqs, meta, force=name)
                elif op == 'remove' and cs:
                    name = r.choice(cs)
                    reg.remove(name)
                    use(res, r, reg, reqs, meta, unknown=name)
                elif op == 'remove-builtin':
                    name = r.choice(REPLACEABLE)
                    reg.remove(name)
                    use(res, r, reg, reqs, meta, unknown=name)
                elif op == 'never-registered' and reg.free_name():
                    use(res, r, reg, reqs, meta, unknown=reg.free_name())
                elif op == 'restore' and gone:
                    reg.restore(r.choice(gone))
                    use_builtin(res, r, reg, reqs, meta)
                else:
                    continue
                if r.random() < 0.3:
                    use_builtin(res, r, reg, reqs, meta)
                if r.random() < 0.3:
                    use_misclosed(res, r, reg, reqs, meta)


# --------------------------------------------------------------------------- class D (round 7): compilation histories
# A template is compiled when it is first used, when it is edited (munge / manage_edit) and on an explicit cook() — in an
# application server by several threads at once, each for its own template (or two for one shared object).  The program a
# spelling compiles to must not depend on which other compilations are going on: under every interleaving explored by the
# deterministic line scheduler (harness/sched.py: one thread at a time, hand-over only at the scripted line events inside
# the package) every thread's HTML-syntax / SSI / entity / %(…) spelling compiles to the program its abstract template
# denotes (`expect`), is accepted / rejected like, and renders like, the %(…) print of that abstract template compiled alone
# before any thread was started.

ACTIONS = ['cook', 'first-call', 'munge', 'edit', 'sub', 'first-call', 'cook']
ENTITY_JOBS = [('[&dtml-x;]', '[%(x html_quote)s]'), ('&dtml.upper-y;&dtml-x;', '%(y upper)s%(x html_quote)s'),
               ('<dtml-if flag>&dtml.lower-x;<dtml-else>&dtml-y;</dtml-if>', '%(if flag)[%(x lower)s%(else)[%(y html_quote)s%(if)]'),
               ('<!--#in items-->&dtml-x;,<!--#/in-->', '%(in items)[%(x html_quote)s,%(in)]')]


def _outcome_obj(obj, nsf):
    import sched
    log = Log()
    try:
        out = {'ok': obj(**nsf(log))}
    except sched.Deadlock:
        raise
    except Exception as e:  # noqa
        out = {'raise': type(e).__name__, 'msg': str(e)[:300]}
    out = {k: ADDR.sub('0x', v) if isinstance(v, str) else v for k, v in out.items()}
    return [out, log.calls]


class Job:
    """one compilation: a spelling of an abstract template, the class compiling it, and how the compilation comes about"""

    def __init__(self, label, kind, src, ref_src, exp_tree, action, ns_index, abstract=None):
        self.label, self.kind, self.src, self.ref_src, self.exp_tree = label, kind, src, ref_src, exp_tree
        self.action, self.ns_index, self.abstract = action, ns_index, abstract
        # the reference: the %(…) print compiled and rendered alone, in this thread, now
        self.ref = compile_norm('epfs', ref_src)
        self.ref_out = [list(render('epfs', ref_src, nsf)) for nsf in namespaces()] if self.ref[0] == 'ok' else None

    def describe(self):
        return {'spelling': self.label, 'class': self.kind, 'source': self.src, 'compiled-by': self.action,
                'reference-%(...)-print': self.ref_src}

    def fresh(self, shared=None):
        """(object, thread body); a new object per run (or the shared one)"""
        import sched
        from DocumentTemplate.DT_Util import ParseError
        cls = template_class(self.kind)
        if shared is not None:
            obj = shared
        elif self.action in ('munge', 'edit'):
            obj = cls('before <dtml-var y> the edit' if self.kind.startswith('html') else 'before %(y)s the edit')
            obj.cook()
        else:
            obj = cls(self.src)
        act = self.action
        nsf = namespaces()[self.ns_index]
        if act == 'sub':
            outer = template_class('epfs' if self.kind.startswith('html') else 'html')(
                '%(sub)s' if self.kind.startswith('html') else '<dtml-var sub>')
            outer.cook()

        def body():
            try:
                if act == 'cook':
                    obj.cook()
                elif act == 'munge':
                    obj.munge(self.src)
                elif act == 'edit':
                    obj.manage_edit(self.src)
                elif act == 'first-call':
                    return ('called', _outcome_obj(obj, nsf))
                else:
                    log = Log()
                    ns = nsf(log)
                    ns['sub'] = obj
                    try:
                        outer(None, ns)
                    except sched.Deadlock:
                        raise
                    except ParseError:
                        raise
                    except Exception:  # noqa  (what the rendering raises is compared below, on the compiled object)
                        pass
                return ('compiled', None)
            except ParseError as e:
                m = parselib.ERR.match(str(e.args[0])) if e.args else None
                return ('parse-error', (m.group(1) if m else str(e)).strip())
        return obj, body

    def judge(self, obj, result):
        """None, or what is wrong with this thread's compilation"""
        if result[0] != 'ok':
            return 'the compiling thread ended with %r' % (result,)
        how, val = result[1]
        if self.ref[0] != 'ok':
            if how == 'parse-error':
                return None if (self.ref[0], self.ref[1]) == (how, val) else \
                    'rejected with %r, the %%(…) print alone is %s %r' % (val, self.ref[0], self.ref[1])
            if how == 'called' and 'raise' in val[0] and val[0]['raise'] in ('ParseError', 'SyntaxError'):
                return None
            return 'accepted, the %%(…) print alone is rejected (%s %r)' % (self.ref[0], self.ref[1])
        if how == 'parse-error':
            return 'rejected with %r, the %%(…) print alone is accepted' % (val,)
        if how == 'called' and val[0].get('raise') == 'ParseError':
            return 'rejected with %r, the %%(…) print alone is accepted' % (val[0]['msg'],)
        blocks = getattr(obj, '_v_blocks', None)
        if blocks is None:
            return 'no program after the compilation'
        tree = parselib.norm(blocks)
        if self.exp_tree is not None and not same_tree(self.exp_tree, tree):
            return 'compiled program is not the abstract template: expected %s ; compiled %s' % (
                json.dumps(self.exp_tree, default=repr)[:300], json.dumps(tree)[:300])
        if tree != self.ref[1]:
            return 'compiled program %s is not the program of the %%(…) print compiled alone %s' % (
                json.dumps(tree)[:300], json.dumps(self.ref[1])[:300])
        if how == 'called' and val != self.ref_out[self.ns_index]:
            return 'first call gives %r, the %%(…) print alone %r' % (val, self.ref_out[self.ns_index])
        for i, nsf in enumerate(namespaces()):
            got = _outcome_obj(obj, nsf)
            if got != self.ref_out[i]:
                return 'namespace %d: renders %r, the %%(…) print compiled alone %r' % (i, got, self.ref_out[i])
        return None


def gen_jobs(r, n):
    jobs = []
    tries = 0
    while len(jobs) < n and tries < 20 * n:
        tries += 1
        if r.random() < 0.15:
            src, ref = r.choice(ENTITY_JOBS)
            jobs.append(Job('entity', r.choice(['html', 'html-sub']), src, ref, None, r.choice(ACTIONS), r.randrange(3)))
            continue
        t = tmplgen.gen_template(r, r.choice([1, 1, 2]), r.choice([2, 3]))
        if tmplgen.count_tags(t) < 1:
            continue
        sp = spellings(t, r)
        ref_src = [s for s in sp if s[1] == 'epfs'][0][2]
        lab, kind, src = r.choice([s for s in sp if s[1] != 'epfs'] * 3 + [s for s in sp if s[1] == 'epfs'])
        if r.random() < 0.25:
            kind += '-sub'
        jobs.append(Job(lab, kind, src, ref_src, expect(t), r.choice(ACTIONS), r.randrange(3), abstract=repr(t)))
    return jobs


def _trace_root():
    """the directory whose source lines are the scheduler's hand-over points: the package (with TreeDisplay, which the package
    registers as the dtml-tree tag, when the two are the only packages of their directory)"""
    import os
    import DocumentTemplate
    p = os.path.dirname(DocumentTemplate.__file__) + os.sep
    parent = os.path.dirname(p.rstrip(os.sep))
    try:
        names = {n for n in os.listdir(parent) if os.path.isdir(os.path.join(parent, n)) and n[:1] not in '._'
                 and not n.endswith(('.egg-info', '.dist-info'))}
    except OSError:
        names = set()
    return parent + os.sep if 'TreeDisplay' in names and names <= {'DocumentTemplate', 'TreeDisplay'} else p


def run_concurrent(res, r, n_groups, per_group):
    """n_groups groups of 2..3 compilations; per group ~per_group schedules"""
    import sched
    pkg = _trace_root()
    INF = sched.INF
    for g in range(n_groups):
        shape = r.choice(['two', 'two', 'two', 'three', 'shared', 'same-template'])
        jobs = gen_jobs(r, 3 if shape == 'three' else 2)
        if shape == 'same-template':
            # the same abstract template in two spellings, compiled at once
            a = jobs[0]
            if a.abstract is not None:
                jobs[1] = Job('epfs', 'epfs', a.ref_src, a.ref_src, a.exp_tree, r.choice(ACTIONS), r.randrange(3), a.abstract)
        if shape == 'shared':
            a = jobs[0]
            if a.action in ('munge', 'edit', 'sub'):
                a.action = 'first-call'
            jobs[1] = Job(a.label, a.kind, a.src, a.ref_src, a.exp_tree, r.choice(['cook', 'first-call']), r.randrange(3), a.abstract)
        if any(j.ref[0] not in ('ok', 'parse-error') for j in jobs):
            continue
        res.nt(('concurrent', shape, tuple(j.src[:40] for j in jobs)))

        def go(script, what):
            shared = None
            if shape == 'shared':
                shared = template_class(jobs[0].kind)(jobs[0].src)
            # harness/sched.py decides "all unfinished threads are blocked" from its own bookkeeping, which a thread woken by a
            # lock release updates only when the OS lets it run: a deadlock verdict counts only when it repeats (a deadlock
            # of the library under a given script is deterministic, the bookkeeping race is not)
            for attempt in range(4):
                if attempt and shape == 'shared':
                    shared = template_class(jobs[0].kind)(jobs[0].src)
                made = [j.fresh(shared) for j in jobs]
                results, s = sched.run_threads([m[1] for m in made], script, {}, pkg)
                if not any(x[0] in ('deadlock', 'hang') for x in results):
                    break
                res.count('concurrent_scheduler_retry')
            res.evaluations += 1
            res.count('concurrent_compilations=' + what)
            for j, (obj, _), result in zip(jobs, made, results):
                bad = j.judge(obj, result)
                if bad:
                    res.oracle_fail.append({'case': {'group': 'concurrent-compilation', 'threads': [x.describe() for x in jobs],
                                                     'same-object': shape == 'shared', 'schedule': what,
                                                     'script (thread, line events)': [list(map(str, x)) for x in script],
                                                     'abstract': j.abstract},
                                            'what': 'thread compiling %r (%s): %s' % (j.src[:200], j.label, bad)})
                    return None
            return s.steps
        # alone, one after the other: also gives the number of line events of each thread
        steps = go([(i, INF) for i in range(len(jobs))], 'one-after-the-other')
        if steps is None:
            return
        n = [steps.get(i, 0) for i in range(len(jobs))]
        nt = len(jobs)
        scripts = []
        for a in range(nt):
            b = (a + 1) % nt
            ks = list(range(1, n[a])) if n[a] <= per_group // 3 else sorted(r.sample(range(1, n[a]), per_group // 3))
            # compilation is the early part of a first call: half of the points from the first part
            for k in ks:
                scripts.append(([(a, k), (b, INF), (a, INF)], '1-preemption'))
        for _ in range(per_group // 4):
            a = r.randrange(nt)
            b = (a + 1) % nt
            k1, k2 = r.randrange(1, max(2, n[a])), r.randrange(1, max(2, n[b]))
            if nt == 2:
                scripts.append(([(a, k1), (b, k2), (a, r.randrange(1, 40)), (b, INF), (a, INF)], '3-preemptions'))
            else:
                c = (a + 2) % nt
                scripts.append(([(a, k1), (b, k2), (c, r.randrange(1, max(2, n[c]))), (a, INF), (b, INF), (c, INF)], '3-threads'))
        for script, what in scripts:
            if go(script, what) is None:
                return


# --------------------------------------------------------------------------- class D (round 8): pieces of the tag delimiters
# inside attribute values and expressions.  A quoted value / an expression string may hold any text but '"' — in
# particular the beginnings, middles and ends of the delimiters of ALL the syntaxes ('<!--', '<!-', '--', '->', '<dtml', '</',
# '&dtml', '%', ')s', ')[', ']', '>' …; only complete openers and '-->' cannot be printed in every syntax).  Each fragment
# (alone, after / before a letter, two of them) at every site that takes a quoted text: var missing / null / etc, string
# literals of var / if / unless / in / let / call expressions, in every block position; what the template renders to is
# computed here from the documented meaning of the attribute / of the Python expression (plain string operations).
FRAGS = ['<!--', '<!-- ', '<!-', '<!', '<!--x', '<!-- #', ' <!--/', '--', '->', '- ->', '-- >', '--!>', '<', '</', '<d', '<dtml',
         '</dtml', '<dtml -', '< dtml-', '&dtml', '&dt', '&', ';', '&dtml ;', '%', '% (', '(', ')', ')s', ')[', ')]', ')!', '[', ']',
         '>', '/>', '>>', '#', '<!--<dtml', '%)', '<!--&dtml']


def frag_values(r, n_pairs):
    vals = []
    for f in FRAGS:
        vals += [f, 'a' + f, f + 'a']
    for _ in range(n_pairs):
        vals.append(r.choice(FRAGS) + r.choice(['', ' ', 'x', '=']) + r.choice(FRAGS))
    return [v for v in dict.fromkeys(vals) if printable(v) and "'" not in v and '\\' not in v]


def frag_sites(v, r):
    """(site, abstract template, namespace additions, rendered text on each of small_ns()) — the text follows from the
    attribute's documented meaning resp. from evaluating the expression by hand: 'V' + s, s[:n] == 'V', ['V', s] …"""
    L = lambda s: ('lit', s)  # noqa: E731
    s = v + ' tail'
    lit = "'%s'" % v
    var = lambda t, o=(): ('var', t, list(o))  # noqa: E731
    item = var(('name', 'sequence-item'))
    return [
        ('missing', [L('['), var(('name', 'nope'), [('missing', v)]), L(']')], {}, ['[' + v + ']'] * 3),
        ('null-inner', [var(('name', 'z'), [('null', v), ('missing', 'm')]), L('|')], {}, [v + '|'] * 3),
        ('etc', [var(('name', 'long'), [('size', '4'), ('etc', v)]), L('.')], {'long': 'abcdefgh'}, ['abcd' + v + '.'] * 3),
        ('var-expr', [L('['), var(('expr', lit + ' + s')), L(']')], {'s': s}, ['[' + v + s + ']'] * 3),
        ('var-expr-upper', [var(('expr', 's + ' + lit), [('upper', None)]), L('!')], {'s': s}, [(s + v).upper() + '!'] * 3),
        ('if-expr', [L('('), ('if', [(('expr', 's[:%d] == %s' % (len(v), lit)), [L('yes')])], [L('no')]), L(')')], {'s': s},
         ['(yes)'] * 3),
        ('elif-expr', [('if', [(('name', 'nil'), [L('A')]), (('expr', 's == ' + lit), [L('B')]),
                               (('expr', '%s in s' % lit), [var(('name', 'nope'), [('missing', v)])])], [L('C')])],
         {'s': s, 'nil': 0}, [v] * 3),
        ('unless-expr', [('unless', ('expr', 's == ' + lit), [L('U'), var(('name', 'z'), [('null', v)])]), L('.')], {'s': s},
         ['U' + v + '.'] * 3),
        ('in-expr', [('in', ('expr', '[%s, s]' % lit), [], [item, L(',')], [L('none')])], {'s': s}, [v + ',' + s + ','] * 3),
        ('in-else', [L('['), ('in', ('name', 'empty'), [], [item], [var(('name', 'nope'), [('missing', v)])]), L(']')],
         {'empty': []}, ['[' + v + ']'] * 3),
        ('with-body', [('with', ('name', 'o'), [], [var(('expr', lit + ' * 2')), L('w')])], {}, [v + v + 'w'] * 3),
        ('let-expr', [('let', [('v0', lit + ' + s', True)], [L('l'), var(('name', 'v0'))])], {'s': s}, ['l' + v + s] * 3),
        ('call-expr', [L('a'), ('call', ('expr', 'len(%s)' % lit)), L('b'), var(('name', 'nope'), [('missing', v)])], {},
         ['ab' + v] * 3),
        ('try', [('try', [var(('expr', lit))], [('KeyError', [L('h')])], [var(('name', 'z'), [('null', v)])], None)], {},
         [v + v] * 3),
    ]


def run_fragments(res, r, n_random, reqs, meta, all_sites):
    for v in frag_values(r, n_random):
        sites = frag_sites(v, r)
        if not all_sites and v not in FRAGS:
            sites = r.sample(sites, 4)
        for sname, t, extra, outs in sites:
            extra = dict(extra, z=None)
            res.nt(('fragment', v, sname))
            res.count('delimiter_fragment_value')
            check_group(res, 'delimiter-fragment:' + sname, spellings(t, r, with_tmplgen=False), False, reqs, meta, extra=extra,
                        nss=small_ns(), expect_status='ok', expect_tree=expect(t), expect_out=[{'ok': o} for o in outs],
                        abstract=repr(t))


# --------------------------------------------------------------------------- class E (round 8): what a rejection REPORTS
# "raises the same errors": a ParseError names the tag at fault and its line.  Abstract faulty templates laid out over several
# lines — one fault each, at every depth and in every section of the enclosing (valid) blocks, with text, insertions and whole
# blocks on the lines before it, inside it and after it:
#   * a complete block its tag rejects (unknown attribute, too many / misplaced else, elif after else, bad try layouts,
#     in prefix / orphan rules)                                             -> reported for the block's START tag;
#   * a block that is never closed (top level; or inside one block)         -> its start tag ('No closing tag') resp. the
#     end tag that does not match ('unexpected end tag');
#   * an insertion with an unknown attribute / name and expr                -> that tag;
#   * a tag that does not exist ('Unexpected tag'), an end tag with nothing to end ('unexpected end tag') -> that tag.
# Each is printed by P3 (= P2 + a marker around the tag at fault) in every syntax, twice; the expected report — the text of
# the tag as printed and the line it STARTS on — is read off the printed source by counting newlines before the marker,
# independently for every spelling (tags may themselves span lines, so the spellings have different line numbers).
class P3(P2):
    mark = False

    def tag(self, head, name, args, tail):
        m, self.mark = self.mark, False
        s = P2.tag(self, head, name, args, tail)
        return '\x01' + s + '\x02' if m else s

    def node(self, n):
        k = n[0]
        if k == 'mark':
            self.mark = True
            s = self.node(n[1])
            if self.mark:
                raise ValueError('nothing marked in %r' % (n,))
            return s
        if k == 'open':
            # a block without its end tag: ('open', tag, sections)
            secs = n[2]
            return ''.join(self.open(sn, self.join(([self.target(st)] if st is not None else []) + self.opts(so))) +
                           self.nodes(sb) for sn, st, so, sb in secs)
        if k == 'end':
            return self.close(n[1], '')
        return P2.node(self, n)


FAULT_TEXT = ['text\n', '\n', ' \n', 'a', '<b>\n', 'x\r\ny', '  ', '\n\n', 'line\n']
NO_END_FOR = ['if', 'in', 'with', 'try', 'let', 'unless', 'raise', 'comment', 'var', 'call', 'else', 'nosuch']


def fault_filler(r, depth, must_tag=False):
    """valid content over several lines: text, insertions, whole blocks"""
    L = lambda s: ('lit', s)  # noqa: E731
    out = []
    for i in range(r.randint(1, 3)):
        out.append(L(r.choice(FAULT_TEXT)))
        c = r.random()
        if c < 0.5 or (must_tag and i == 0):
            out.append(('var', ('name', r.choice(['x', 'y', 'c'])), r.choice([[], [('upper', None)], [('missing', 'm')]])))
        elif c < 0.75 and depth > 0:
            out.append(fault_wrap(r, None, depth - 1))
        out.append(L(r.choice(FAULT_TEXT)))
    return out


def fault_wrap(r, inner, depth, kinds=('if', 'in', 'with', 'try', 'try-finally', 'unless', 'let')):
    """a valid block; `inner` (a list of nodes, or None) becomes part of one of its sections"""
    c, d = ('name', 'c'), ('name', 'd')
    slots = []

    def slot(optional=False):
        if optional and r.random() < 0.4:
            slots.append(None)
        else:
            slots.append(fault_filler(r, depth))
        return len(slots) - 1

    k = r.choice(kinds)
    if k == 'if':
        idx = [slot(), slot(), slot(True)]
    elif k == 'in':
        idx = [slot(), slot(True)]
    elif k == 'try':
        idx = [slot(), slot(), slot(True)]
    elif k == 'try-finally':
        idx = [slot(), slot()]
    else:
        idx = [slot()]
    if inner is not None:
        i = r.randrange(len(slots))
        slots[i] = fault_filler(r, depth) + inner + (fault_filler(r, depth) if r.random() < 0.7 else [])
    if k == 'if':
        return ('if', [(c, slots[0]), (d, slots[1])], slots[2])
    if k == 'in':
        return ('in', ('name', 'seq'), [], slots[0], slots[1])
    if k == 'try':
        return ('try', slots[0], [('KeyError', slots[1])], slots[2], None)
    if k == 'try-finally':
        return ('try', slots[0], [], None, slots[1])
    if k == 'unless':
        return ('unless', c, slots[0])
    if k == 'with':
        return ('with', ('name', 'o'), [], slots[0])
    return ('let', [('v0', 'c', False)], slots[0])


def block_faults(r, depth):
    """complete blocks their tag rejects: (name, ('cb', tag, None, sections))"""
    c, d, seq = ('name', 'c'), ('name', 'd'), ('name', 'seq')
    b = lambda: fault_filler(r, depth, must_tag=True)  # noqa: E731
    S = lambda *secs: [(sn, st, list(so), b()) for sn, st, so in secs]  # noqa: E731
    return [
        ('in-unknown-attribute', ('cb', 'in', None, S(('in', seq, [('bogus', '1')])))),
        ('in-unknown-attribute-else', ('cb', 'in', None, S(('in', seq, [('reverse', None), ('bogus', '1')]), ('else', None, [])))),
        ('in-two-else', ('cb', 'in', None, S(('in', seq, []), ('else', None, []), ('else', None, [])))),
        ('in-prefix', ('cb', 'in', None, S(('in', seq, [('prefix', 'a-b')])))),
        ('in-orphan-unbatched', ('cb', 'in', None, S(('in', seq, [('orphan', '1')])))),
        ('if-two-else', ('cb', 'if', None, S(('if', c, []), ('else', None, []), ('else', None, [])))),
        ('if-elif-after-else', ('cb', 'if', None, S(('if', c, []), ('else', None, []), ('elif', d, [])))),
        ('if-unknown-attribute', ('cb', 'if', None, S(('if', c, [('bogus', '1')]), ('else', None, [])))),
        ('elif-unknown-attribute', ('cb', 'if', None, S(('if', c, []), ('elif', d, [('bogus', '1')])))),
        ('unless-unknown-attribute', ('cb', 'unless', None, S(('unless', c, [('bogus', '1')])))),
        ('with-unknown-attribute', ('cb', 'with', None, S(('with', ('name', 'o'), [('bogus', '1')])))),
        ('try-two-defaults', ('cb', 'try', None, S(('try', None, []), ('except', None, []), ('except', None, [])))),
        ('try-except-after-else', ('cb', 'try', None, S(('try', None, []), ('else', None, []), ('except', None, [('KeyError', None)])))),
        ('try-two-else', ('cb', 'try', None, S(('try', None, []), ('except', None, []), ('else', None, []), ('else', None, [])))),
        ('try-finally-except', ('cb', 'try', None, S(('try', None, []), ('finally', None, []), ('except', None, [])))),
        ('try-except-finally', ('cb', 'try', None, S(('try', None, []), ('except', None, []), ('finally', None, [])))),
    ]


def tag_faults(r):
    return [
        ('var-unknown-attribute', ('var', ('name', 'x'), [('bogus', '1')]), None),
        ('var-name-and-expr', ('var', ('name', 'x'), [('expr', 'y')]), None),
        ('unknown-tag', ('unk', 'nosuch', ('name', 'x'), None), 'Unexpected tag'),
        ('unknown-block', ('unk', 'nosuch', None, [('lit', 'body\n'), ('var', ('name', 'x'), [])]), 'Unexpected tag'),
    ]


def gen_fault(r):
    """-> (label, abstract template with one ('mark', …) around the node whose first tag is at fault, message or None)"""
    depth = r.choice([0, 1, 1, 2])
    c = r.random()
    wrappers = []

    def place(nodes, levels, kinds=None):
        for _ in range(levels):
            w = fault_wrap(r, nodes, 1, *([kinds] if kinds else []))
            wrappers.append(w[0])
            nodes = [w]
        return fault_filler(r, 1) + nodes + (fault_filler(r, 1) if r.random() < 0.7 else [])

    if c < 0.5:
        name, f = r.choice(block_faults(r, depth))
        return name, place([('mark', f)], r.choice([0, 0, 1, 1, 2])), None
    if c < 0.65:
        name, f, msg = r.choice(tag_faults(r))
        return name, place([('mark', f)], r.choice([0, 1, 1, 2])), msg
    if c < 0.8:
        # an end tag with nothing to end: at top level, or inside blocks of other tags
        levels = r.choice([0, 1, 1, 2])
        tname = r.choice(NO_END_FOR)
        kinds = tuple(k for k in ('if', 'in', 'with', 'try', 'try-finally', 'unless', 'let') if k.split('-')[0] != tname)
        return 'end-without-start:' + tname, place([('mark', ('end', tname))], levels, kinds), 'unexpected end tag'
    # a block that is never closed
    tname, st = r.choice([('if', ('name', 'c')), ('in', ('name', 'seq')), ('with', ('name', 'o')), ('unless', ('name', 'c')),
                          ('try', None), ('let', None), ('raise', ('name', 'E')), ('comment', None)])
    so = [('v0', 'c')] if tname == 'let' else []
    secs = [(tname, st, so, fault_filler(r, depth, must_tag=True))]
    cont = {'if': 'else', 'in': 'else', 'try': 'except'}.get(tname)
    if cont and r.random() < 0.4:
        secs.append((cont, None, [], fault_filler(r, depth, must_tag=True)))
    un = ('open', tname, secs)
    if c < 0.93:
        return 'unclosed:' + tname, fault_filler(r, 1) + [('mark', un)], 'No closing tag'
    # … inside one block: the enclosing block's end tag ends nothing — unless it has the same name, then it ends the inner
    # block and the ENCLOSING one is never closed
    wname, wt = r.choice([('if', ('name', 'd')), ('in', ('name', 'seq')), ('with', ('name', 'o')), ('unless', ('name', 'd'))])
    pre = fault_filler(r, 1)
    wsecs = [(wname, wt, [], fault_filler(r, 0) + [un])]
    if wname == tname:
        return 'unclosed-in-same:' + tname, pre + [('mark', ('open', wname, wsecs)), ('end', wname)] + fault_filler(r, 0), \
            'No closing tag'
    return 'unclosed-in-other:%s/%s' % (tname, wname), \
        pre + [('open', wname, wsecs), ('mark', ('end', wname))] + fault_filler(r, 0), 'unexpected end tag'


def check_fault(res, label, t, msg, r, reqs, meta):
    res.evaluations += 1
    seen = []
    for syn in SYNTAXES:
        kind = 'epfs' if syn == 'epfs' else 'html'
        for v in range(2):
            s = P3(r, syn).nodes(t)
            a, b = s.index('\x01'), s.index('\x02')
            exp_tag, exp_line = s[a + 1:b], s.count('\n', 0, a) + 1
            src = s.replace('\x01', '').replace('\x02', '')
            rr = parselib.compile_real(kind, src)
            case = {'group': 'fault-report:' + label, 'abstract': repr(t), 'syntax': syn, 'src': src}
            if rr['status'] != 'parse-error':
                res.oracle_fail.append({'case': case, 'what': 'the abstract template has a fault (%s) and must be rejected with a '
                                        'ParseError; this spelling is %s' % (label, rr['status'])})
                return
            reqs.append({'op': 'compile', 'syntax': kind, 'src': src})
            meta.append(('%s%d' % (syn, v), kind, src, 'parse-error', rr['msg'].strip()))
            got = (rr['tag'], rr['line'])
            if got != (exp_tag, exp_line) or (msg is not None and rr['msg'].strip() != msg):
                res.oracle_fail.append({'case': case, 'what': 'the error must be reported%s for the tag %r on line %d (where the '
                                        'tag at fault starts in this spelling); reported: %r for tag %r on line %r' % (
                                            ' as %r' % msg if msg else '', exp_tag, exp_line, rr['msg'], rr['tag'], rr['line'])})
                return
            seen.append((syn, rr['msg'].strip(), src))
    if len({m for _, m, _ in seen}) != 1:
        res.oracle_fail.append({'case': {'group': 'fault-report:' + label, 'abstract': repr(t), **{sy: sr for sy, _, sr in seen}},
                                'what': 'the spellings are rejected with different messages: %r' % sorted({(sy, m) for sy, m, _ in seen})})
        return
    res.count('fault_report=' + label.split(':')[0])


def run_faults(res, r, n, reqs, meta):
    for _ in range(n):
        label, t, msg = gen_fault(r)
        res.nt(('fault', label, repr(t)[:60]))
        check_fault(res, label, t, msg, r, reqs, meta)


def run_wide(res, r, tier_n):
    reqs, meta = [], []
    run_reserved(res, r, tier_n, reqs, meta)
    run_hostile(res, r, tier_n, reqs, meta)
    run_fragments(res, r, tier_n // 3, reqs, meta, tier_n > 1000)
    run_faults(res, r, tier_n * 3, reqs, meta)
    return reqs, meta


def run(res, tier, have_driver):
    r = common.rng('C07')
    res.rule = ('abstract templates (all tags, attributes, nesting <= 3) printed 2x as <dtml->, 2x as <!--#--> (/, end, END forms) and '
                'as %(…); entity references for every modifier subset of size <= 2 (+ samples of 3..5) on 3 names vs the three '
                'var spellings; entities directly after end tags; else-with-arguments with 5 separators; words of the grammar '
                '(tag, continuation, end, attribute names, dotted / dashed names) as variable names at every place of every '
                'block kind + random templates renamed to such words; attribute values / names of every punctuation character '
                '(alone, after / before a letter, doubled; last and inner attribute; quoted and unquoted; blanks before the '
                'closing delimiter) at every free-text attribute site + random templates with several such attributes; stray '
                'tokens after the attributes (rejected alike); each group (6 spellings from two printers): same acceptance, '
                'same normalised program == the program the abstract template denotes, same output / exception / call log on '
                '3 namespaces (== the predicted text in the small-scope families); histories of the tag registry '
                '(String.commands): add-on simple / block tags (own continuations, simple_form, class and lazy entries, custom '
                'and built-in names) registered / replaced / removed / put back through 8 handles (both classes, instances, '
                'File classes), after every step an abstract template over the tags registered then (or an unregistered name / '
                'a mis-closed block: rejected alike) in 8 spellings (2 per syntax + subclasses of both template classes), '
                'with templates of both classes as namespace values; expected program and text from the abstract registry '
                'and the add-on tags\' documented meaning; compilation histories: 2..3 threads compiling at once (cook, first '
                'call, munge, manage_edit, first use as a namespace value; own templates of both classes / subclasses, two '
                'spellings of one template, one shared object; dtml, SSI, entity and %(…) spellings) under the line '
                'scheduler with 1 preemption at every / sampled line event, 3 preemptions, 3 threads: every thread\'s program '
                '== the abstract template\'s == the %(…) print compiled alone, same acceptance / message, same rendering on 3 '
                'namespaces; fragments of the delimiters of all syntaxes inside quoted values / expression strings at 14 sites '
                '(predicted text); fault reports: one compile-time fault per multi-line template (5 kinds, every depth / '
                'section), ParseError must name the tag at fault and the line it starts on in each of 6 spellings; '
                'non-trivial = distinct groups')
    run_all(res, r, 250 if tier == 'quick' else 5000, have_driver, tier != 'quick')
    reqs, meta = run_wide(res, common.rng('C07-wide'), 150 if tier == 'quick' else 3000)
    if have_driver:
        correspond(res, reqs, meta)
    reqs, meta = [], []
    run_registry(res, common.rng('C07-registry'), 40 if tier == 'quick' else 1000, reqs, meta)
    if have_driver:
        correspond(res, reqs, meta)
    run_concurrent(res, common.rng('C07-concurrent'), 12 if tier == 'quick' else 300, 72 if tier == 'quick' else 400)
    res.assumptions += ['concurrent compilations are explored by harness/sched.py (hand-over at line events inside the package, scripted preemptions): sampled interleavings, not all',
                        'hand-compiled scanners validated against CPython re by token/tree correspondence',
                        'rendering equality is checked on the implementation directly (three namespaces with logged callables, '
                        'undefined names, mappings)',
                        'expected programs / texts come from the abstract template (expect, ref_render in harness/props/c07.py: '
                        'documented line-end rule, missing= / null= / upper / lower / html_quote on plain strings)',
                        'registry histories: the add-on tags are harness classes written to the documented tag protocol '
                        '(parse_params / name_param / render_blocks); the registry is restored after every history; not '
                        'generated: tag names beginning with `end` or containing a non-letter (known findings), replacing '
                        '`var` / `else`',
                        'not generated: a variable named `var` with options; unquoted values ending in a Unicode blank; values '
                        'containing a double quote, "-->" or a tag opener (not printable in every syntax)']


def search_more(res, tier):
    r = common.rng('C07-more')
    res2 = common.Result('C07')
    run_all(res2, r, 2500, False, True)
    if not res2.oracle_fail:
        run_wide(res2, common.rng('C07-wide-more'), 1500)
    if not res2.oracle_fail:
        run_registry(res2, common.rng('C07-registry-more'), 400, [], [])
    if not res2.oracle_fail:
        run_concurrent(res2, common.rng('C07-concurrent-more'), 60, 200)
    return res2.oracle_fail


def replay(path):
    with open(path) as f:
        d = json.load(f)
    print(json.dumps(d.get('first', d), indent=1, ensure_ascii=False)[:3000])
    return 1
