"""C06 — compiling any source terminates and fails only with a located ParseError.

Correspondence: Lean `Scan.tokens` + `Parse.compile` (acceptance, the compiled tree, the list of
Python expressions handed to Eval) vs the real `parse`.  Oracle on the implementation: exception
class, error location (tag text at a token start on the reported line), running time on pumped
families (repetition  u v^n w  AND nesting  u^n v w^n, both syntaxes, every block tag), verdicts by
construction for deep chains of block tags, and compile HISTORIES: the verdict of every compilation
in a sequence of edits / re-compilations / ghost wake-ups on one template object (string and file
templates) must be the verdict a fresh template object gives for the same source.
"""
import gc
import json
import os
import random
import re
import shutil
import tempfile
import time

import common
import parselib
import scanlib
import tmplgen

FRAGS_HTML = ['<dtml-', '</dtml-', '<!--#', '-->', '>', '<', '&dtml-', '&dtml.', '&dtml', ';', '"', ' ', '\n',
              'var', 'if', 'elif', 'else', 'in', 'with', 'let', 'try', 'except', 'finally', 'raise', 'return',
              'call', 'comment', 'unless', 'tree', 'end', '/', 'x', 'y', ' x', ' y', '=', 'expr=', 'name=', '"x"',
              '"1+"', 'html_quote', 'upper', 'size=3', 'orphan=1', 'start=1', 'prefix=p-q', 'sort=k', 'mapping',
              'a=b', 'a="1"', 'KeyError', 'x.y', '-', '.', '_', '\x01', '\xa0', 'ſ', 'nosuch', 'type=', 'IF', ' \t',
              'branches=b', 'branches_expr="x"', 'fmt=s', 'null=""', '&', '%']
FRAGS_EPFS = ['%(', ')', ')s', ')[', ')]', ')!', ')d', ')5.2f', ' ', '  ', '\n', '"', 'var', 'if', 'elif', 'else',
              'in', 'with', 'let', 'try', 'except', 'finally', 'raise', 'return', 'call', 'comment', 'unless', 'x',
              'y', ' x', '=', 'expr=', '"x"', '"1+"', '")"', 'html_quote', 'size=3', 'orphan=1', 'a=b', '%', '(',
              's', '[', ']', '!', '1', '.', 'ſ', 'K', 'İ', 'nosuch', '/', '-', 'name=', 'a="1"', '\x00']


def junk(r, syn):
    fr = FRAGS_HTML if syn == 'html' else FRAGS_EPFS
    return ''.join(r.choice(fr) for _ in range(r.randint(1, 14)))


def mutate(r, src):
    """one mutation of a valid source: delete / duplicate / swap / truncate a character or a tag-ish span"""
    if not src:
        return src
    c = r.random()
    i = r.randrange(len(src))
    if c < 0.25:
        return src[:i] + src[i + 1:]
    if c < 0.4:
        return src[:i] + src[i] + src[i:]
    if c < 0.55:
        j = r.randrange(len(src))
        i, j = min(i, j), max(i, j)
        return src[:i] + src[j:]
    if c < 0.7:
        j = min(len(src), i + r.randint(1, 12))
        return src[:i] + src[i:j] + src[i:j] + src[j:]
    if c < 0.85:
        j = min(len(src), i + r.randint(1, 8))
        k = min(len(src), j + r.randint(1, 8))
        return src[:i] + src[j:k] + src[i:j] + src[k:]
    return src[:i] + r.choice(['"', '>', '<', ')', '-', ' ', '=', '/', '%(', '<dtml-', '&dtml-']) + src[i:]


# grammar faults, one per fault class of the property; (open-args / sections) are printed in the three syntaxes
FAULTS = [
    ('unknown tag', [('o', 'nosuch', 'x'), ('t', 'a'), ('c', 'nosuch')]),
    ('end without start', [('t', 'a'), ('c', 'if')]),
    ('wrong end', [('o', 'if', 'x'), ('t', 'a'), ('c', 'in')]),
    ('missing end', [('o', 'if', 'x'), ('t', 'a')]),
    ('missing end nested', [('o', 'if', 'x'), ('o', 'in', 'y'), ('t', 'a'), ('c', 'if')]),
    ('elif outside if', [('o', 'elif', 'x'), ('t', 'a')]),
    ('except outside try', [('o', 'in', 'x'), ('o', 'except', ''), ('t', 'a'), ('c', 'in')]),
    ('finally outside try', [('o', 'finally', ''), ('t', 'a')]),
    ('repeated else', [('o', 'if', 'x'), ('t', 'a'), ('o', 'else', ''), ('t', 'b'), ('o', 'else', ''), ('c', 'if')]),
    ('elif after else', [('o', 'if', 'x'), ('o', 'else', ''), ('o', 'elif', 'y'), ('c', 'if')]),
    ('two else in in', [('o', 'in', 'x'), ('o', 'else', ''), ('o', 'else', ''), ('c', 'in')]),
    ('else name mismatch in', [('o', 'in', 'x'), ('o', 'else', 'x y'), ('c', 'in')]),
    ('try finally with except', [('o', 'try', ''), ('o', 'except', ''), ('o', 'finally', ''), ('c', 'try')]),
    ('try two finally', [('o', 'try', ''), ('o', 'finally', ''), ('o', 'finally', ''), ('c', 'try')]),
    ('try except after else', [('o', 'try', ''), ('o', 'else', ''), ('o', 'except', 'KeyError'), ('c', 'try')]),
    ('try two else', [('o', 'try', ''), ('o', 'except', ''), ('o', 'else', ''), ('o', 'else', ''), ('c', 'try')]),
    ('try two default handlers', [('o', 'try', ''), ('o', 'except', ''), ('o', 'except', ''), ('c', 'try')]),
    ('try named attr', [('o', 'try', 'a=b'), ('c', 'try')]),
    ('unknown attribute', [('s', 'var', 'x nosuch')]),
    ('unknown attribute value', [('s', 'var', 'x nosuch=1')]),
    ('duplicate attribute', [('s', 'var', 'x size=1 size=2')]),
    ('duplicate attribute quoted', [('s', 'var', 'x fmt="a" fmt="b"')]),
    ('missing name', [('s', 'var', 'upper=1')]),
    ('missing name call', [('s', 'call', 'expr')]) if False else ('two names', [('s', 'var', 'x name=y')]),
    ('name and expr', [('s', 'var', 'x expr="y"')]),
    ('name= and expr', [('s', 'var', 'name=x expr="y"')]),
    ('two exprs', [('s', 'var', '"x" expr="y"')]),
    ('second unnamed', [('s', 'var', 'x "y"')]),
    ('bad expr shorthand', [('s', 'var', '"1 +"')]),
    ('shorthand in in-else', [('o', 'in', 'x'), ('o', 'else', '"x"'), ('c', 'in')]),
    ('no name if', [('o', 'if', ''), ('c', 'if')]),
    ('no name in', [('o', 'in', 'mapping=1'), ('c', 'in')]),
    ('orphan without batch', [('o', 'in', 'x orphan=1'), ('c', 'in')]),
    ('overlap without batch', [('o', 'in', 'x overlap=1'), ('c', 'in')]),
    ('previous without batch', [('o', 'in', 'x previous'), ('c', 'in')]),
    ('next without batch', [('o', 'in', 'x next'), ('c', 'in')]),
    ('non-simple prefix', [('o', 'in', 'x prefix=a-b'), ('c', 'in')]),
    ('non-simple prefix digit', [('o', 'in', 'x prefix=1a'), ('c', 'in')]),
    ('tree attr needs value', [('o', 'tree', 'x branches'), ('c', 'tree')]),
    ('tree branches twice', [('o', 'tree', 'x branches=a branches_expr="b"'), ('c', 'tree')]),
    ('tree prefix', [('o', 'tree', 'x prefix=a.b'), ('c', 'tree')]),
    ('let bad', [('o', 'let', 'a'), ('c', 'let')]),
    ('let bad expr', [('o', 'let', 'a="1 +"'), ('c', 'let')]),
    ('raise two', [('o', 'raise', 'KeyError type=X'), ('c', 'raise')]),
    ('with two', [('o', 'with', 'x y'), ('c', 'with')]),
    ('return none', [('s', 'return', 'size=1')]),
    ('invalid parameter', [('s', 'var', 'x =1')]),
    ('unclosed quote', [('s', 'var', 'x fmt="abc')]) if False else ('if else mismatch then end', [('o', 'if', 'x'), ('o', 'else', 'y'), ('c', 'if')]),
]


def print_fault(parts, syntax):
    out = []
    for p in parts:
        if p[0] == 't':
            out.append(p[1])
            continue
        kind, name, args = (p + ('',))[:3] if p[0] != 'c' else ('c', p[1], '')
        a = (' ' + args) if args else ''
        if syntax == 'epfs' and args.startswith('"'):
            a = '  ' + args
        if syntax == 'dtml':
            out.append({'o': '<dtml-%s%s>', 's': '<dtml-%s%s>', 'c': '</dtml-%s%s>'}[kind] % (name, a))
        elif syntax == 'ssi':
            out.append({'o': '<!--#%s%s-->', 's': '<!--#%s%s-->', 'c': '<!--#/%s%s-->'}[kind] % (name, a))
        else:
            out.append({'o': '%%(%s%s)[', 's': '%%(%s%s)[' if name != 'var' else '%%(%s%s)s', 'c': '%%(%s%s)]'}[kind]
                       % (name, a))
    return ''.join(out)


def located(src, tag, line):
    """is there an occurrence of `tag` in `src` that starts on line `line`?"""
    if tag is None or line is None:
        return False
    p = src.find(tag)
    while p >= 0:
        if 1 + src.count('\n', 0, p) == line:
            return True
        p = src.find(tag, p + 1)
    return False


def oracle(syn, src, res):
    st = res['status']
    if st == 'ok':
        return []
    if st == 'parse-error':
        if not located(src, res['tag'], res['line']):
            return ['ParseError names tag %r on line %r, but no such tag starts on that line' % (res['tag'], res['line'])]
        return []
    if st == 'syntax-error':
        if 'expr' in src:
            return []
        return ['SyntaxError escaped without an explicit expr= attribute: %s' % res.get('msg')]
    if st == 'timeout':
        return ['compilation did not finish within %d s' % parselib.TIMEOUT]
    if st == 'recursion':
        return ['RecursionError']
    return ['exception other than ParseError escaped: %s' % res.get('exc')]


def model_verdict(m):
    """model response -> ('ok', tree) | ('reject', why)"""
    if m['status'] != 'ok':
        return ('reject', m['msg'])
    for src, shorthand in m['exprs']:
        if not parselib.expr_ok(src):
            return ('reject', 'expression does not compile: %r' % src)
    return ('ok', m['tree'])


MAX_TIMEOUTS = 3


# --------------------------------------------------------------------------- deep chains of block tags

CHAIN_KINDS = ['if', 'unless', 'in', 'with', 'let', 'raise', 'try', 'comment']


def _side(r, fat):
    """what stands next to the nested block on one level: text, sometimes simple tags (never a block)"""
    if r.random() < fat:
        return tmplgen.gen_body(r, 0, 2)
    t = tmplgen.gen_lit(r, 2)
    return [('lit', t)] if t else []


def gen_chain(r, depth, kinds=None, fat=0.3):
    """an abstract template (tmplgen form) that is ONE chain of `depth` properly nested block tags: every level is a
    block tag of a random kind (all of the library's block tags, with their continuation sections), the next level sits
    in a random section of it.  Grammatical by construction."""
    body = [('lit', 'core\n'), ('var', ('name', 'y'), [])]
    for _ in range(depth):
        k = r.choice(kinds or CHAIN_KINDS)
        inner = _side(r, fat) + body + _side(r, fat)
        tgt = tmplgen.gen_target(r)
        if k == 'if':
            n = r.randint(1, 3)
            has_else = r.random() < 0.5
            j = r.randrange(n + (1 if has_else else 0))
            secs = [inner if i == j else _side(r, fat) for i in range(n + 1)]
            conds = [(tgt if i == 0 else tmplgen.gen_target(r), secs[i]) for i in range(n)]
            node = ('if', conds, secs[n] if has_else else None)
        elif k == 'unless':
            node = ('unless', tgt, inner)
        elif k == 'in':
            opts = [o for o in [('sort', 'k'), ('reverse', None), ('size', '2'), ('prefix', 'p'), ('mapping', None)]
                    if r.random() < 0.2]
            if r.random() < 0.4:
                two = [inner, _side(r, fat)]
                if r.random() < 0.5:
                    two.reverse()
                node = ('in', tgt, opts, two[0], two[1])
            else:
                node = ('in', tgt, opts, inner, None)
        elif k == 'with':
            node = ('with', tgt, [('mapping', None)] if r.random() < 0.2 else [], inner)
        elif k == 'let':
            binds = [('v0', r.choice(tmplgen.NAMES), False)]
            if r.random() < 0.4:
                binds.append(('v1', r.choice(tmplgen.EXPRS), True))
            node = ('let', binds, inner)
        elif k == 'raise':
            node = ('raise', ('name', r.choice(['KeyError', 'ValueError', 'Oops'])), inner)
        elif k == 'comment':
            node = ('comment', inner)
        else:
            c = r.random()
            if c < 0.3:     # try / finally
                two = [inner, _side(r, fat)]
                if r.random() < 0.5:
                    two.reverse()
                node = ('try', two[0], [], None, two[1])
            else:           # try / except ... [else]
                names = r.choice([['KeyError'], [''], ['KeyError', ''], ['ValueError KeyError', 'Exception']])
                has_else = r.random() < 0.3
                nsec = 1 + len(names) + (1 if has_else else 0)
                j = r.randrange(nsec)
                secs = [inner if i == j else _side(r, fat) for i in range(nsec)]
                node = ('try', secs[0], [(nm, secs[1 + i]) for i, nm in enumerate(names)],
                        secs[-1] if has_else else None, None)
        body = [node]
    return body


CLOSERS = {'dtml': re.compile(r'</dtml-[a-z]+[^>]*>'),
           'ssi': re.compile(r'<!--#(?:/|end ?|END)[a-z]+.*?-->', re.S),
           'epfs': re.compile(r'%\([a-z]+[^)]*\)\]')}


def drop_closer(r, src, syntax):
    """delete one end tag of a printed chain (the generator's literals contain no tag opener, so every match of the
    end-tag shape IS an end tag): a block is left without its end tag -> the source violates the grammar"""
    ms = list(CLOSERS[syntax].finditer(src))
    if not ms:
        return None
    m = r.choice(ms)
    return src[:m.start()] + src[m.end():]


# --------------------------------------------------------------------------- pumped families (running time)

def _nest(o, c, core='<dtml-var y>'):
    return lambda n: o * n + core + c * n


def pump_catalogue(r):
    """[(name, n -> (class kind, source), shape, expected status | None)]; shape 'flat' = a part repeated n times
    (sizes in the hundreds), 'nest' = n levels of properly nested blocks / n unmatched openers (n = nesting depth)."""
    F = []

    def flat(name, kind, f, expect=None):
        F.append((name, (lambda n, kind=kind, f=f: (kind, f(n))), 'flat', expect))

    def nest(name, kind, f, expect=None):
        F.append((name, (lambda n, kind=kind, f=f: (kind, f(n))), 'nest', expect))

    # --- the families the check always had
    flat('epfs-unclosed-args', 'epfs', lambda n: '%(x ' + 'a' * n, 'ok')
    flat('epfs-quotes', 'epfs', lambda n: '%(x ' + 'a "b" ' * n, 'ok')
    flat('epfs-openers', 'epfs', lambda n: '%(' * n, 'ok')
    flat('html-unclosed-quote', 'html', lambda n: '<dtml-var "' + 'a>' * n)
    flat('html-amp', 'html', lambda n: '&dtml-' * n, 'ok')
    flat('html-lt', 'html', lambda n: '<' * n + '<dtml-var x>', 'ok')
    flat('html-many-tags', 'html', lambda n: '<dtml-var x>' * n, 'ok')
    flat('html-ssi-unclosed', 'html', lambda n: '<!--#var ' + 'x-' * n)
    flat('html-params', 'html', lambda n: '<dtml-var x ' + 'a=b ' * n + '>', 'parse-error')
    # --- repetition of every other part a source is made of
    flat('html-entities', 'html', lambda n: '&dtml-x;' * n, 'ok')
    flat('html-entity-modifiers', 'html', lambda n: '&dtml.' + 'upper.' * n + 'lower-x;')
    flat('html-entity-unclosed', 'html', lambda n: '&dtml.' + 'upper.' * n)
    flat('html-blanks-in-tag', 'html', lambda n: '<dtml-var x' + ' ' * n + '>', 'ok')
    flat('html-blanks-unclosed', 'html', lambda n: '<dtml-var x' + ' \n' * n)
    flat('html-long-name', 'html', lambda n: '<dtml-var ' + 'x' * n + '>', 'ok')
    flat('html-long-tag-name', 'html', lambda n: '<dtml-' + 'a' * n + '>', 'parse-error')
    flat('html-long-end-name', 'html', lambda n: '</dtml-' + 'a' * n)
    flat('html-long-attr-name', 'html', lambda n: '<dtml-var x ' + 'a' * n + '=1>', 'parse-error')
    flat('html-long-quoted', 'html', lambda n: '<dtml-var x fmt="' + 'a' * n + '">', 'ok')
    flat('html-long-quoted-unclosed', 'html', lambda n: '<dtml-var x fmt="' + 'a ' * n)
    flat('html-quotes', 'html', lambda n: '<dtml-var ' + '"' * n + '>')
    flat('html-equals', 'html', lambda n: '<dtml-var x ' + '= ' * n + '>', 'parse-error')
    flat('html-quoted-params', 'html', lambda n: '<dtml-var x ' + 'a="b" ' * n + '>', 'parse-error')
    flat('html-let-bindings', 'html',
         lambda n: '<dtml-let ' + ' '.join('a%d=b' % i for i in range(n)) + '>x</dtml-let>', None)
    flat('html-let-expr-bindings', 'html',
         lambda n: '<dtml-let ' + ' '.join('a%d="1"' % i for i in range(n)) + '>x</dtml-let>', None)
    flat('html-distinct-params', 'html', lambda n: '<dtml-var x ' + ' '.join('a%d=b' % i for i in range(n)) + '>')
    flat('html-lines-then-error', 'html', lambda n: 'a\n' * n + '<dtml-nosuch>', 'parse-error')
    flat('html-tags-then-error', 'html', lambda n: '<dtml-var x>\n' * n + '<dtml-if x>', 'parse-error')
    flat('html-errors-each-line', 'html', lambda n: '</dtml-if>\n' * n, 'parse-error')
    flat('html-continuations-alone', 'html', lambda n: '<dtml-else>' * n, 'parse-error')
    flat('html-elifs', 'html', lambda n: '<dtml-if x>' + 'a<dtml-elif y>' * n + '</dtml-if>', 'ok')
    flat('html-excepts', 'html', lambda n: '<dtml-try>' + 'a<dtml-except KeyError>' * n + '</dtml-try>', 'ok')
    flat('html-elses', 'html', lambda n: '<dtml-in x>' + 'a<dtml-else>' * n + '</dtml-in>', 'parse-error')
    flat('html-block-children', 'html', lambda n: '<dtml-if x>' + '<dtml-var y>\n' * n + '</dtml-if>', 'ok')
    flat('html-sibling-blocks', 'html', lambda n: '<dtml-if x>a</dtml-if>\n' * n, 'ok')
    flat('html-sibling-blocks-in-block', 'html', lambda n: '<dtml-in x>' + '<dtml-if x>a</dtml-if>\n' * n + '</dtml-in>',
         'ok')
    flat('html-comment-body', 'html', lambda n: '<dtml-comment>' + '<dtml-var x> <b> ' * n + '</dtml-comment>', 'ok')
    flat('ssi-many-tags', 'html', lambda n: '<!--#var x-->' * n, 'ok')
    flat('ssi-sibling-blocks', 'html', lambda n: '<!--#if x-->a<!--#/if-->' * n, 'ok')
    flat('ssi-dashes', 'html', lambda n: '<!--#var x ' + '-' * n)
    flat('ssi-openers', 'html', lambda n: '<!--' * n + '#var x-->')
    flat('ssi-end-spellings', 'html', lambda n: '<!--#if x-->a<!--#endif-->' * n, 'ok')
    flat('epfs-many-tags', 'epfs', lambda n: '%(x)s' * n, 'ok')
    flat('epfs-sibling-blocks', 'epfs', lambda n: '%(if x)[a%(if x)]' * n, 'ok')
    flat('epfs-params', 'epfs', lambda n: '%(x ' + 'a=b ' * n + ')s', 'parse-error')
    flat('epfs-quoted-params', 'epfs', lambda n: '%(x ' + 'a "b" ' * n + ')s')
    flat('epfs-long-quoted', 'epfs', lambda n: '%(x fmt="' + 'a' * n + '")s', 'ok')
    flat('epfs-long-quoted-unclosed', 'epfs', lambda n: '%(x fmt="' + 'a ' * n, 'ok')
    flat('epfs-blanks', 'epfs', lambda n: '%(x' + ' ' * n + ')s')
    flat('epfs-blanks-unclosed', 'epfs', lambda n: '%(x' + ' \n' * n, 'ok')
    flat('epfs-percents', 'epfs', lambda n: '%' * n + '(x)s')
    flat('epfs-long-name', 'epfs', lambda n: '%(' + 'a' * n + ')s', 'ok')
    flat('epfs-no-format', 'epfs', lambda n: '%(x)' * n, 'ok')
    flat('epfs-bad-format', 'epfs', lambda n: '%(x ' + 'a' * n + ')#', 'ok')
    flat('epfs-bad-format-quotes', 'epfs', lambda n: '%(x ' + 'a "b" ' * n + ')#', 'ok')
    flat('epfs-prose', 'epfs', lambda n: 'Totals: %(count ' + 'of all the rows ' * n + ') listed', 'ok')
    flat('epfs-odd-quotes', 'epfs', lambda n: '%(x ' + 'a" ' * n + ')s')
    flat('epfs-elifs', 'epfs', lambda n: '%(if x)[' + 'a%(elif y)[' * n + '%(if x)]', 'ok')
    flat('epfs-lines-then-error', 'epfs', lambda n: 'a\n' * n + '%(nosuch x)[', 'parse-error')
    # --- long Python expressions wherever a tag takes one (Python's own limits must surface as ParseError, or as
    #     SyntaxError for an explicit expr=)
    flat('expr-sum', 'html', lambda n: '<dtml-var expr="' + '1+' * n + '1">', 'ok')
    flat('expr-sum-shorthand', 'html', lambda n: '<dtml-var "' + '1+' * n + '1">', 'ok')
    flat('expr-sum-epfs', 'epfs', lambda n: '%(var expr="' + '1+' * n + '1")s', 'ok')
    flat('expr-sum-let', 'html', lambda n: '<dtml-let a="' + '1+' * n + '1">x</dtml-let>', 'ok')
    flat('expr-or-if', 'html', lambda n: '<dtml-if "' + 'x or ' * n + 'x">a<dtml-elif "' + 'not ' * n + 'x">b</dtml-if>',
         'ok')
    flat('expr-sum-sort_expr', 'html', lambda n: '<dtml-in x sort_expr="' + '1+' * n + '1">x</dtml-in>', 'ok')
    flat('expr-attribute-chain', 'html', lambda n: '<dtml-call "x' + '.a[0]()' * n + '">', 'ok')
    flat('expr-parentheses-shorthand', 'html', lambda n: '<dtml-var "' + '(' * n + '1' + ')' * n + '">')
    flat('expr-parentheses', 'html', lambda n: '<dtml-with expr="' + '(' * n + '1' + ')' * n + '">x</dtml-with>')
    flat('expr-unbalanced-shorthand', 'html', lambda n: '<dtml-var "' + '(' * n + '1">', 'parse-error')
    flat('expr-long-string', 'html', lambda n: '<dtml-var expr="\'' + 'a' * n + '\'">', 'ok')
    # --- nesting depth: every block tag, the three spellings, closed / unclosed / only end tags
    heads = {'if': 'if x', 'unless': 'unless x', 'in': 'in x', 'with': 'with x', 'let': 'let a=b', 'try': 'try',
             'comment': 'comment', 'raise': 'raise KeyError'}
    for tag, head in heads.items():
        mid = '<dtml-except>' if tag == 'try' else ''
        nest('nest-dtml-' + tag, 'html', _nest('<dtml-%s>\n' % head, mid + '</dtml-%s>\n' % tag), 'ok')
        mid = '%(except)[' if tag == 'try' else ''
        nest('nest-epfs-' + tag, 'epfs', _nest('%%(%s)[\n' % head, mid + '%%(%s)]\n' % tag, '%(y)s'), 'ok')
    nest('nest-ssi-if', 'html', _nest('<!--#if x-->\n', '<!--#/if-->\n', '<!--#var y-->'), 'ok')
    nest('nest-ssi-in-endin', 'html', _nest('<!--#in x-->', '<!--#endin-->', '<!--#var y-->'), 'ok')
    nest('nest-dtml-if-else', 'html', _nest('<dtml-if x>a<dtml-else>', '</dtml-if>'), 'ok')
    nest('nest-dtml-if-then', 'html', _nest('<dtml-if x>', '<dtml-elif y>b<dtml-else>c</dtml-if>'), 'ok')
    nest('nest-dtml-try-handler', 'html', _nest('<dtml-try>a<dtml-except KeyError>', '</dtml-try>'), 'ok')
    nest('nest-dtml-try-finally', 'html', _nest('<dtml-try>', '<dtml-finally>f</dtml-try>'), 'ok')
    nest('nest-dtml-in-else', 'html', _nest('<dtml-in x>', '<dtml-else>e</dtml-in>'), 'ok')
    nest('nest-dtml-alternating', 'html', _nest('<dtml-in x><dtml-if y>', '</dtml-if></dtml-in>'), 'ok')
    nest('nest-dtml-with-siblings', 'html', _nest('<dtml-if x><dtml-var a><dtml-if b>c</dtml-if>',
                                                  '<dtml-call d></dtml-if>'), 'ok')
    nest('nest-dtml-unclosed', 'html', lambda n: 'a\n' + '<dtml-if x>\n' * n + 'b', 'parse-error')
    nest('nest-epfs-unclosed', 'epfs', lambda n: 'a\n' + '%(in x)[\n' * n + 'b', 'parse-error')
    nest('nest-dtml-half-closed', 'html', lambda n: '<dtml-with x>' * (2 * n) + 'a' + '</dtml-with>' * n, 'parse-error')
    nest('nest-dtml-wrong-innermost-end', 'html', lambda n: '<dtml-if x>' * n + '</dtml-in>' + '</dtml-if>' * n,
         'parse-error')
    nest('nest-dtml-error-at-the-bottom', 'html', lambda n: '<dtml-if x>\n' * n + '<dtml-var x nosuch>'
         + '</dtml-if>' * n, 'parse-error')
    nest('nest-dtml-bad-outermost', 'html', lambda n: '<dtml-in x orphan=1>' + '<dtml-if x>' * n + 'a'
         + '</dtml-if>' * n + '</dtml-in>', 'parse-error')
    # --- random chains (mixed tags, continuation sections, text and simple tags beside the nested block), scaled by
    #     depth: the same generator state for every size, so the n-deep chain is drawn the same way at each size
    for syntax in ('dtml', 'ssi', 'epfs'):
        for i in range(2):
            s0 = r.getrandbits(32)

            def chain(n, syntax=syntax, s0=s0):
                rr = random.Random(s0)
                return tmplgen.render_source(gen_chain(rr, n, fat=0.15), syntax, rr)
            F.append(('nest-chain-%s-%d' % (syntax, i), chain, 'nest', 'ok'))
    # --- random pumps from the junk alphabet:  u v^n w  and  u^n v w^n
    for i in range(24):
        syn = r.choice(['html', 'epfs'])
        fr = FRAGS_HTML if syn == 'html' else FRAGS_EPFS
        u, v, w = (''.join(r.choice(fr) for _ in range(r.randint(1, 3))) for _ in range(3))
        if i % 2:
            F.append(('rand-flat-%d' % i, (lambda n, syn=syn, u=u, v=v, w=w: (syn, u + v * n + w)), 'rand', None))
        else:
            F.append(('rand-nest-%d' % i, (lambda n, syn=syn, u=u, v=v, w=w: (syn, u * n + v + w * n)), 'rand', None))
    return F


PUMP_SIZES = {'quick': {'flat': [200, 400, 800], 'nest': [8, 12, 16, 24, 48, 96], 'rand': [50, 100, 200]},
              'thorough': {'flat': [500, 1000, 2000, 4000], 'nest': [8, 12, 16, 24, 32, 48, 64, 96, 128],
                           'rand': [50, 100, 200, 400]}}
PUMP_TIMEOUT = 10          # quick tier: seconds for ONE source of a few kB (the unchanged parser needs milliseconds)
PUMP_TIMEOUT_THOROUGH = 60  # the thorough tier's sources are up to 5x longer (quadratic parts: 25x the time)
MAX_TIME_FAILS = 3
RECURSION_FREE_DEPTH = 150  # the known finding (RecursionError) is about ~300 levels and more


def run_pumps(res, tier, n_timeouts):
    r = common.rng('C06-pump')
    timing = {}
    fails = 0
    limit = PUMP_TIMEOUT if tier == 'quick' else PUMP_TIMEOUT_THOROUGH
    for name, f, shape, expect in pump_catalogue(r):
        if n_timeouts >= MAX_TIMEOUTS or fails >= MAX_TIME_FAILS:
            res.partial.append('pumped families stopped early after %d timing failures / %d timeouts'
                               % (fails, n_timeouts))
            break
        sizes = PUMP_SIZES[tier][shape]
        ts = []
        res.count('pump-shape=' + shape)
        for n in sizes:
            kind, src = f(n)
            t0 = time.process_time()
            rr = parselib.compile_real(kind, src, timeout=limit)
            dt = time.process_time() - t0
            ts.append(round(dt, 4))
            res.evaluations += 1
            res.nt((kind, src))
            case = {'syntax': kind, 'src': src, 'origin': 'pump', 'family': name, 'n': n, 'cpu_s': ts[:]}
            if rr['status'] == 'timeout':
                n_timeouts += 1
                fails += 1
                res.oracle_fail.append({'case': case, 'what': 'pumped input (%d characters) did not compile within '
                                        '%d s' % (len(src), limit)})
                break
            if rr['status'] == 'recursion' and (shape == 'rand' or n > RECURSION_FREE_DEPTH):
                # nesting / attribute count beyond the interpreter's recursion limit: the known finding
                res.known_hits['C06-deep-nesting-recursion'] = {'src': '%s at n=%d' % (name, n)}
                res.count('pump-recursion')
                break
            for w in oracle(kind, src, rr):
                res.oracle_fail.append({'case': case, 'what': w})
            if expect is not None and rr['status'] != expect and rr['status'] != 'recursion':
                r2 = dict(rr)
                r2.pop('blocks', None)
                res.oracle_fail.append({'case': case, 'what': 'by construction this source must %s, got %r' % (
                    'compile' if expect == 'ok' else 'be rejected with a ParseError', r2)})
            # growing the input by a factor <= 2 may at most ~quadruple the time (generous factor 8, absolute floor);
            # a suspicious measurement is repeated (best of 3) so that a garbage collection of the harness' own heap
            # falling into the measured interval is not taken for the parser's running time
            for _ in range(2):
                if not (len(ts) > 1 and ts[-1] > 0.5 and ts[-1] > 8 * max(ts[-2], 0.02)):
                    break
                gc.collect()
                t0 = time.process_time()
                parselib.compile_real(kind, src, timeout=limit)
                ts[-1] = min(ts[-1], round(time.process_time() - t0, 4))
                case['cpu_s'] = ts[:]
            if len(ts) > 1 and ts[-1] > 0.5 and ts[-1] > 8 * max(ts[-2], 0.02):
                fails += 1
                res.oracle_fail.append({'case': dict(case, sizes=sizes[:len(ts)]),
                                        'what': 'running time grows faster than quadratically: n=%r -> cpu %r s'
                                        % (sizes[:len(ts)], ts)})
                break
        timing[name] = ts
    res.extra['pump_cpu_seconds'] = timing
    return n_timeouts


# --------------------------------------------------------------------------- compile histories on one object

def _template_class(kind):
    from DocumentTemplate import HTML, String, File, HTMLFile
    return {'html': HTML, 'epfs': String, 'htmlfile': HTMLFile, 'epfsfile': File}[kind]


def _base(kind):
    return 'html' if kind in ('html', 'htmlfile') else 'epfs'


def classify(kind, fn, done=None):
    """run one operation of a history under the watchdog and classify it like parselib.compile_real does;
    `done` (for operations that also render) tells whether compilation had succeeded when another exception came"""
    from DocumentTemplate.DT_Util import ParseError
    try:
        st, _ = parselib.with_alarm(fn)
        if st == 'timeout':
            return {'status': 'timeout'}
    except ParseError as e:
        m = parselib.ERR.match(str(e.args[0])) if e.args else None
        if not m:
            return {'status': 'parse-error', 'msg': str(e), 'tag': None, 'line': None}
        tag = m.group(2)
        if _base(kind) == 'html':
            tag = parselib.unquote_html(tag)
        return {'status': 'parse-error', 'msg': m.group(1), 'tag': tag, 'line': int(m.group(3))}
    except SyntaxError as e:
        return {'status': 'syntax-error', 'msg': str(e)[:80]}
    except RecursionError:
        return {'status': 'recursion'}
    except BaseException as e:  # noqa
        if done is not None and done():
            return {'status': 'ok'}
        return {'status': 'other', 'exc': type(e).__name__ + ': ' + str(e)[:100]}
    return {'status': 'ok'}


SOURCE_OPS = ['munge', 'edit', 'raw+cook']              # change the source of a string template, then compile
FILE_SOURCE_OPS = ['write+cook', 'edited+cook']         # change what a file template reads, then compile
SAME_OPS = ['cook', 'cook', 'ghost+cook', 'ghost+call', 'call', 'munge-none']


def run_history(h, tmpdir):
    """h = {'objects': [kind], 'init': [src], 'steps': [[object index, operation, source | None]]}
    -> [(source that was to be compiled, outcome) | None for steps that do not compile]"""
    objs, cur, paths = [], [], []
    for i, (kind, src) in enumerate(zip(h['objects'], h['init'])):
        cls = _template_class(kind)
        if kind.endswith('file'):
            path = os.path.join(tmpdir, 't%d.dtml' % i)
            with open(path, 'w') as f:
                f.write(src)
            objs.append(cls(path))
            paths.append(path)
        else:
            objs.append(cls(src))
            paths.append(None)
        cur.append(src)
    obs = []
    for i, op, src in h['steps']:
        t = objs[i]
        kind = h['objects'][i]
        compiles = True
        if op in ('ghost+cook', 'ghost+call'):
            # what the ZODB does to an object it evicts and loads again: a new object from the pickled state
            t2 = t.__class__.__new__(t.__class__)
            t2.__dict__.update(t.__getstate__())
            t = objs[i] = t2
        if op == 'munge':
            fn = lambda: t.munge(src)
        elif op == 'edit':
            fn = lambda: t.manage_edit(src)
        elif op == 'raw+cook':
            def fn():
                t.raw = src
                t.cook()
        elif op == 'write+cook':
            def fn():
                t.edited_source = ''
                with open(paths[i], 'w') as f:
                    f.write(src)
                t.cook()
        elif op == 'edited+cook':
            def fn():
                t.edited_source = src
                t.cook()
        elif op in ('cook', 'ghost+cook'):
            fn = t.cook
        elif op == 'munge-none':
            fn = t.munge
        else:   # 'call', 'ghost+call': compiles only when the object has no compiled form yet
            compiles = not hasattr(t, '_v_cooked')
            fn = t
        if src is not None:
            cur[i] = src
        if kind.endswith('file') and op == 'edited+cook' and src == '':
            # an empty edited source means "not edited": the file's text is the source again
            with open(paths[i]) as f:
                cur[i] = f.read()
        if not compiles:
            classify(kind, fn)      # a rendering between compilations: whatever it does, it is not a verdict
            obs.append(None)
            continue
        if hasattr(t, '_v_blocks') and op in ('call', 'ghost+call'):
            del t._v_blocks
        out = classify(kind, fn, done=(lambda: hasattr(t, '_v_blocks')) if op in ('call', 'ghost+call') else None)
        if out['status'] == 'ok':
            out['blocks'] = getattr(t, '_v_blocks', None)
            out['read'] = t.read()
        obs.append((cur[i], out))
    return obs


def verdict_key(rr):
    return (rr['status'], rr.get('msg'), rr.get('tag'), rr.get('line')) if rr['status'] != 'ok' else ('ok',)


def check_history(h, obs, fresh):
    """every compilation of a history == the compilation of the same source by a fresh template object"""
    for k, ob in enumerate(obs):
        if ob is None:
            continue
        src, out = ob
        kind = h['objects'][h['steps'][k][0]]
        exp = fresh(_base(kind), src)
        if exp['status'] not in ('ok', 'parse-error', 'syntax-error'):
            return None
        what = None
        if verdict_key(out) != verdict_key(exp):
            e2 = dict(exp)
            e2.pop('blocks', None)
            o2 = dict(out)
            o2.pop('blocks', None)
            what = 'step %d (%s on object %d, a %s template): a fresh template object gives %r for the source %r, ' \
                   'this object after its history gives %r' % (k, h['steps'][k][1], h['steps'][k][0], kind, e2, src, o2)
        elif out['status'] == 'ok':
            if out['blocks'] is None or parselib.norm(out['blocks']) != parselib.norm(exp['blocks']):
                what = 'step %d (%s): compiled form differs from the one a fresh template object builds for %r' % (
                    k, h['steps'][k][1], src)
            elif out['read'] != src:
                what = 'step %d (%s): the template reads back %r, not the compiled source %r' % (
                    k, h['steps'][k][1], out['read'], src)
        if what:
            return {'case': {'origin': 'history', 'history': {'objects': h['objects'], 'init': h['init'],
                                                             'steps': h['steps'][:k + 1]}}, 'what': what}
    return None


def gen_history(r, pools):
    """pools: base kind -> {'ok': [src], 'bad': [src]} (sources with a known fresh verdict)"""
    nobj = r.choice([1, 1, 1, 2, 2, 3])
    objects = [r.choice(['html', 'html', 'epfs', 'epfs', 'htmlfile', 'epfsfile']) for _ in range(nobj)]

    def usable(kind, s):
        # a file template reads its text through the platform's text layer: keep that an identity
        return not kind.endswith('file') or (s.isascii() and '\r' not in s and s != '')

    def pick(kind, used, current):
        c = r.random()
        if c < 0.12 and used:
            cands = [s for s in used if usable(kind, s)]
            if cands:
                return r.choice(cands)      # a source seen earlier in this history (A, B, A; or another object's)
        if c < 0.22 and current:
            s = mutate(r, current)          # a near-identical source
            if usable(kind, s):
                return s
        if c < 0.30:
            other = 'epfs' if _base(kind) == 'html' else 'html'
            s = r.choice(pools[other][r.choice(['ok', 'bad'])])   # a source written for the other syntax
            if usable(kind, s):
                return s
        for _ in range(20):
            s = r.choice(pools[_base(kind)]['ok' if r.random() < 0.5 else 'bad'])
            if usable(kind, s):
                return s
        return 'plain text'

    used = []
    init = []
    for kind in objects:
        s = pick(kind, used, None)
        init.append(s)
        used.append(s)
    cur = list(init)
    steps = []
    for _ in range(r.randint(2, 7)):
        i = r.randrange(nobj)
        kind = objects[i]
        src_ops = FILE_SOURCE_OPS if kind.endswith('file') else SOURCE_OPS
        c = r.random()
        if c < 0.35:
            steps.append([i, r.choice(SAME_OPS if not kind.endswith('file') else SAME_OPS[:-1]), None])
        elif c < 0.6:
            steps.append([i, r.choice(src_ops), cur[i]])          # the same source submitted again
        else:
            s = pick(kind, used, cur[i])
            steps.append([i, r.choice(src_ops), s])
            cur[i] = s
            used.append(s)
    return {'objects': objects, 'init': init, 'steps': steps}


def run_histories(res, tier, cases, results, one, n_timeouts):
    r = common.rng('C06-hist')
    memo = {}
    pools = {'html': {'ok': [], 'bad': []}, 'epfs': {'ok': [], 'bad': []}}
    for (kind, src, origin), rr in zip(cases, results):
        memo.setdefault((kind, src), rr)
        if len(src) <= 300 and rr['status'] in ('ok', 'parse-error', 'syntax-error'):
            pools[kind]['ok' if rr['status'] == 'ok' else 'bad'].append(src)
    state = {'timeouts': n_timeouts}

    def fresh(kind, src):
        if (kind, src) not in memo:
            cases.append((kind, src, 'history-source'))
            memo[(kind, src)] = one(kind, src, 'history-source')
            if memo[(kind, src)]['status'] == 'timeout':
                state['timeouts'] += 1
        return memo[(kind, src)]

    tmpdir = tempfile.mkdtemp(prefix='c06hist')
    try:
        for _ in range(1500 if tier == 'quick' else 30000):
            if state['timeouts'] >= MAX_TIMEOUTS:
                break
            h = gen_history(r, pools)
            obs = run_history(h, tmpdir)
            res.evaluations += sum(1 for o in obs if o is not None)
            res.nt(json.dumps(h, sort_keys=True))
            res.count('history-objects=' + '+'.join(sorted(set(h['objects']))))
            for (i, op, src), o in zip(h['steps'], obs):
                res.count('history-op=' + op + ('' if o is not None else ' (no compilation)'))
                if o is not None:
                    res.count('history-outcome=' + o[1]['status'])
                    if o[1]['status'] == 'timeout':
                        state['timeouts'] += 1
            f = check_history(h, obs, fresh)
            if f:
                res.oracle_fail.append(f)
    finally:
        shutil.rmtree(tmpdir, ignore_errors=True)
    return state['timeouts']


# --------------------------------------------------------------------------- tag layouts: else tags that repeat the start tag

# white space that may separate the parts of a tag (tags are often wrapped over several lines / aligned with tabs)
TAG_WS = [' ', '\t', '\n', '  ', '\n    ', '\t ', ' \n', '\n\t', '\n\n']
IN_OPTS = ['mapping', 'reverse', 'size=5', 'size=5 orphan=1', 'prefix=p', 'no_push_item', 'size=4 overlap=1']
ELSE_KINDS = ['same', 'bare', 'whole', 'other', 'prefix', 'longer']


def _ltag(syn, kind, name, args=''):
    if syn == 'dtml':
        return ('</dtml-%s%s>' if kind == 'c' else '<dtml-%s%s>') % (name, args)
    if syn == 'ssi':
        return ('<!--#/%s%s-->' if kind == 'c' else '<!--#%s%s-->') % (name, args)
    return ('%%(%s%s)]' if kind == 'c' else '%%(%s%s)[') % (name, args)


def gen_else_layout(r, syn, block, sep2, ekind):
    """a block (`if` / `in`) with an else tag, the parts of the tags separated by white space of every kind; the else
    tag is bare, repeats the (first attribute of the) start tag -- the old spelling, a CONTINUATION tag of the block
    --, repeats the whole argument text, or names something else (a different name, a proper prefix of the name, the
    name with one more letter: an old-style else START tag, which nothing closes -> the source violates the grammar).
    Returns (source, grammatical?, [(namespace, expected rendering)])."""
    nm = r.choice(['seq', 'x', 'items2', 'a_b'])
    if ekind == 'prefix' and len(nm) < 2:
        nm = 'seq'
    forms = ['%s', 'name=%s', 'expr="%s"'] + (['"%s"'] if syn != 'epfs' else [])
    if ekind in ('same', 'whole', 'prefix', 'longer'):
        forms = forms[:2]         # an else section takes a name only (an expr= there is an attribute error)
    form = r.choice(forms)
    target = form % nm
    sep1 = r.choice(TAG_WS)
    if syn == 'epfs' and target.startswith('"'):
        sep1 = '  '
    sargs = sep1 + target
    if block == 'in':
        opts = r.sample(IN_OPTS[:3] + IN_OPTS[4:6], r.randint(1, 2)) if r.random() < 0.7 else [r.choice(IN_OPTS)]
        if sum('size' in o for o in opts) > 1:
            opts = opts[:1]
        sargs += sep2 + r.choice(TAG_WS).join(o.replace(' ', r.choice(TAG_WS)) for o in opts)
        trail = r.choice(['', '', ' ', '\n'])
    else:
        trail = sep2 if r.random() < 0.5 else ''      # `if` takes no further attribute: the white space trails
    sargs += trail
    esep = r.choice(TAG_WS)
    etrail = r.choice(['', '', ' ', '\n', '\t'])
    if ekind == 'bare':
        eargs = r.choice(['', '', ' ', '\n'])
    elif ekind == 'same':
        eargs = esep + target + etrail
    elif ekind == 'whole':
        eargs = esep + sargs.strip() + etrail
    elif ekind == 'other':
        eargs = esep + (form % r.choice(['other', 'y', nm.upper(), '_' + nm])) + etrail
    elif ekind == 'prefix':
        eargs = esep + (form % nm[:-1]) + etrail
    else:
        eargs = esep + (form % (nm + r.choice('sq_2'))) + etrail
    if syn == 'epfs' and eargs.lstrip().startswith('"'):
        eargs = '  ' + eargs.lstrip()
    pre = r.choice(['', 'head\n', 'a\n\nb ', '\n'])
    post = r.choice(['', ' tail', ' z\n'])          # (a line feed right after an end tag belongs to the tag)
    body, mid, alt = 'BODY%d;' % r.randint(0, 9), 'MID;', 'ALT%d;' % r.randint(0, 9)
    elif_ = block == 'if' and r.random() < 0.3
    src = (pre + _ltag(syn, 'o', block, sargs) + body
           + (_ltag(syn, 'o', 'elif', r.choice(TAG_WS) + 'zero') + mid if elif_ else '')
           + _ltag(syn, 'o', 'else', eargs) + alt + _ltag(syn, 'c', block) + post)
    # `whole` on an `in` tag with options: a continuation tag all right, but with attributes an else section does not accept
    good = ekind in ('same', 'bare') or (ekind == 'whole' and block == 'if')
    renders = []
    if good:
        items = [{'k': 1}, {'k': 2}]
        renders = [({nm: [], 'zero': 0}, pre + alt + post),
                   ({nm: items, 'zero': 0}, pre + (body * 2 if block == 'in' else body) + post)]
    return src, good, renders


def run_else_layouts(res, tier, cases, one):
    from DocumentTemplate import HTML, String
    r = common.rng('C06-layout')
    for rep in range(2 if tier == 'quick' else 40):
        for syn in ('dtml', 'ssi', 'epfs'):
            for block in ('if', 'in'):
                for sep2 in TAG_WS:
                    for ekind in ELSE_KINDS:
                        src, good, renders = gen_else_layout(r, syn, block, sep2, ekind)
                        kind = 'epfs' if syn == 'epfs' else 'html'
                        origin = 'layout-ok' if good else 'layout-bad'
                        cases.append((kind, src, origin))
                        rr = one(kind, src, origin)
                        res.count('layout=%s/%s' % (block, ekind))
                        case = {'syntax': kind, 'src': src, 'origin': origin}
                        if good and rr['status'] != 'ok':
                            res.oracle_fail.append({'case': case, 'what': 'a grammatical block whose else tag is bare / '
                                                    'repeats the start tag was rejected: %r' % (rr,)})
                        if not good and rr['status'] == 'ok':
                            res.oracle_fail.append({'case': case, 'what': 'an else tag naming something other than the '
                                                    'start tag (an old-style else START tag that nothing closes), or '
                                                    'carrying attributes besides the name, was accepted'})
                        if good and rr['status'] == 'ok':
                            for ns, want in renders:
                                try:
                                    got = (String if kind == 'epfs' else HTML)(src)(**ns)
                                except Exception as e:  # noqa
                                    got = 'raised %r' % (e,)
                                res.evaluations += 1
                                if got != want:
                                    res.oracle_fail.append({'case': case, 'what': 'rendering with %r gives %r, the '
                                                            'sections of the block say %r' % (ns, got, want)})


# --------------------------------------------------------------------------- attribute VALUES: the prefix of in / tree

ASCII_LETTERS = 'abcdefghijklmnopqrstuvwxyzABCDEFGHIJKLMNOPQRSTUVWXYZ'
NAME_TAIL = ASCII_LETTERS + '0123456789_'
# the four non-ASCII characters that "ignoring case" maps onto an ASCII letter (dotted capital I, dotless i, long s,
# Kelvin sign); whether a name spelled with them is "simple" is not decided by the property's text: no expectation
CASE_EQUIV = 'İıſK'


def is_simple_name(s):
    """the documented rule for a prefix: an ASCII letter followed by ASCII letters, digits and underscores"""
    return s != '' and s[0] in ASCII_LETTERS and all(c in NAME_TAIL for c in s)


_ALPHABET = {}


def value_alphabet():
    """characters by kind, ASCII and not: what may be typed into an attribute value.  Non-ASCII kinds come from the
    Unicode categories (letters of every script incl. full-width and mathematical ones, decimal digits and other
    numbers, combining marks, connector punctuation -- everything a programming language's notion of "identifier"
    lets in --, symbols, spaces / controls / format characters)."""
    import unicodedata
    if _ALPHABET:
        return _ALPHABET
    A = {'letter': [], 'digit': [], 'mark': [], 'connector': [], 'symbol': [], 'space': []}
    ranges = [(0x80, 0x3100), (0xa000, 0xa4d0), (0xa720, 0xa800), (0xfb00, 0xfb50), (0xfe20, 0xfe50),
              (0xff00, 0xfff0), (0x10000, 0x10100), (0x10400, 0x10450), (0x1d400, 0x1d800), (0x1f600, 0x1f610),
              (0xe0100, 0xe0110)]
    for lo, hi in ranges:
        for c in range(lo, hi):
            ch = chr(c)
            cat = unicodedata.category(ch)
            if ch in CASE_EQUIV or cat in ('Cs', 'Cn', 'Co'):
                continue
            if cat[0] == 'L' or cat == 'Nl':
                A['letter'].append(ch)
            elif cat[0] == 'N':
                A['digit'].append(ch)
            elif cat[0] == 'M':
                A['mark'].append(ch)
            elif cat == 'Pc':
                A['connector'].append(ch)
            elif cat[0] in 'SP':
                A['symbol'].append(ch)
            else:
                A['space'].append(ch)
    # ASCII: punctuation that can stand in a value in every syntax (no quote, no tag terminator), and white space /
    # control characters (in a quoted value only)
    A['punct'] = [c for c in '!#$%&\'*+,-./:;=?@[\\]^`{|}~' ]
    A['ctrl'] = [chr(c) for c in range(0, 33)] + ['\x7f']
    _ALPHABET.update(A)
    return A


PREFIX_SHAPES = (['simple', 'simple-upper', 'simple-long', 'underscore-first', 'underscore-only', 'digit-first',
                  'all-foreign', 'case-equiv']
                 + ['%s@%s' % (g, pos) for g in ('letter', 'digit', 'mark', 'connector', 'symbol', 'space', 'punct',
                                                 'ctrl')
                    for pos in ('first', 'inside', 'last')])


def gen_prefix_value(r, shape):
    A = value_alphabet()

    def simple(lo=1, hi=6):
        return r.choice(ASCII_LETTERS) + ''.join(r.choice(NAME_TAIL) for _ in range(r.randint(lo, hi) - 1))
    if shape == 'simple':
        return simple()
    if shape == 'simple-upper':
        return simple().upper()
    if shape == 'simple-long':
        return simple(20, 60)
    if shape == 'underscore-first':
        return '_' * r.randint(1, 2) + ''.join(r.choice(NAME_TAIL) for _ in range(r.randint(1, 5)))
    if shape == 'underscore-only':
        return '_' * r.randint(1, 3)
    if shape == 'digit-first':
        return r.choice('0123456789') + ''.join(r.choice(NAME_TAIL) for _ in range(r.randint(0, 5)))
    if shape == 'all-foreign':
        return ''.join(r.choice(A[r.choice(['letter', 'letter', 'digit', 'mark', 'connector'])])
                       for _ in range(r.randint(1, 4)))
    if shape == 'case-equiv':
        base = simple(2, 5)
        i = r.randrange(len(base))
        return base[:i] + r.choice(CASE_EQUIV) + base[i + 1:]
    group, pos = shape.split('@')
    ch = r.choice(A[group]) * r.choice([1, 1, 1, 2])
    base = simple(2, 6)
    keep = r.random() < 0.5         # inserted next to the characters of the name / in place of one of them
    if pos == 'first':
        return ch + (base if keep else base[1:])
    if pos == 'last':
        return (base if keep else base[:-1]) + ch
    i = r.randint(1, len(base) - 1)
    return base[:i] + ch + base[i if keep else i + 1:]


# (block tag, its arguments with %(P)s where the prefix attribute goes, what the body renders by construction or None)
PREFIX_CONTEXTS = [
    ('in', 'seq %(P)s', 'all'),
    ('in', 'seq %(P)s size=2 orphan=0', 'first2'),
    ('in', '%(P)s name=seq', 'all'),
    ('in', 'expr="seq" %(P)s', 'all'),
    ('in', 'seq reverse %(P)s', None),
    ('in', 'seq mapping %(P)s', None),
    ('in', 'seq sort=k %(P)s no_push_item', None),
    ('in', 'seq start=2 %(P)s', None),
    ('tree', 'obj %(P)s', None),
    ('tree', 'obj branches=kids %(P)s nowrap', None),
    ('tree', 'expr="obj" %(P)s sort=id', None),
]


def gen_prefix_case(r, syn, ctx, shape):
    """-> (source, value, offset of the tag that carries the prefix, expected rendering or None)"""
    block, argt, rend = ctx
    v = gen_prefix_value(r, shape)
    quoted = r.random() < 0.5 or any(c <= ' ' or c in '="' or c.isspace() for c in v) or v == ''
    attr = r.choice(['prefix', 'prefix', 'PREFIX', 'Prefix']) + '=' + ('"%s"' % v if quoted else v)
    sep = r.choice([' ', ' ', '\n', '\t', '  '])
    args = ' ' + sep.join(attr if w == '%(P)s' else w for w in argt.split(' '))
    if syn == 'epfs' and args.lstrip().startswith('"'):
        args = '  ' + args.lstrip()
    pre = r.choice(['', 'head\n', 'a\n\nb ', '\n', 'x\r\ny\n'])
    wrap = r.random() < 0.3
    shown = pre                 # what the text before the tag renders as (a true `if` around it shows its body)
    if wrap:
        w = r.choice(['', 'w ', 'w\nv '])
        pre += _ltag(syn, 'o', 'if', ' flag') + w
        shown += w
    off = len(pre)
    want = None
    if block == 'in':
        # the body names the prefix variables when the prefix is a simple name; else (the var tags would be faulty
        # themselves, and the body is compiled before the block) the standard sequence variables
        vi, vx = (v + '_item', v + '_index') if is_simple_name(v) else ('sequence-item', 'sequence-index')
        body = '[' + _ltag(syn, 'o', 'var', ' ' + vi).replace(')[', ')s') + ':' + \
               _ltag(syn, 'o', 'var', ' ' + vx).replace(')[', ')s') + ']'
        els = r.random() < 0.3
        src = pre + _ltag(syn, 'o', 'in', args) + body + (_ltag(syn, 'o', 'else') + 'none' if els else '') + \
            _ltag(syn, 'c', 'in')
        if rend:
            items = ['a', 'b', 'c']
            want = ''.join('[%s:%d]' % (x, i) for i, x in enumerate(items if rend == 'all' else items[:2]))
    else:
        src = pre + _ltag(syn, 'o', 'tree', args) + 'leaf' + _ltag(syn, 'c', 'tree')
    post = r.choice(['', ' tail', ' z\n'])          # (a line feed right after an end tag belongs to the tag)
    if wrap:
        src += _ltag(syn, 'c', 'if')
    src += post
    if want is not None:
        want = shown + want + post
    return src, v, off, want


# attribute values that no lexical rule restricts at compile time: whatever is typed there, the source is grammatical
FREE_VALUE_TAGS = [('s', 'var', 'x null=%s'), ('s', 'var', 'x fmt=%s'), ('s', 'var', 'x missing=%s'),
                   ('o', 'in', 'seq sort=%s'), ('o', 'in', 'seq size=%s'), ('o', 'in', 'seq start=%s'),
                   ('o', 'with', 'x mapping=%s'), ('o', 'let', 'a=%s')]


def run_attribute_values(res, tier, cases, one):
    """(k) the prefix attribute of in / tree over every kind of value (see PREFIX_SHAPES) x every position of the
    attribute x spelling / quoting / separators x three syntaxes: accepted if and only if the value is a simple name
    (reference: is_simple_name), the rejection is a ParseError naming the in / tree tag on its line, an accepted
    in block renders its prefix variables; the same values where no rule restricts them: must compile"""
    from DocumentTemplate import HTML, String
    r = common.rng('C06-attrval')
    have_tree = {'html': 'tree' in HTML.commands, 'epfs': 'tree' in String.commands}
    for rep in range(3 if tier == 'quick' else 40):
        for syn in ('dtml', 'ssi', 'epfs'):
            kind = 'epfs' if syn == 'epfs' else 'html'
            for ctx in PREFIX_CONTEXTS:
                for shape in PREFIX_SHAPES:
                    src, v, off, want = gen_prefix_case(r, syn, ctx, shape)
                    if (syn == 'dtml' and ('>' in v or '<' in v)) or (syn == 'ssi' and '>' in v) or \
                            (syn == 'epfs' and ')' in v):
                        continue
                    simple = is_simple_name(v)
                    if v[-1:] == '\n' and is_simple_name(v[:-1]) or any(c in CASE_EQUIV for c in v):
                        # a simple name + one line feed at the very end of a quoted value; a name spelled with a
                        # character that is an ASCII letter "ignoring case": the text does not decide these
                        origin = 'attrval-open'
                    elif ctx[0] == 'tree' and not have_tree[kind]:
                        origin = 'attrval-bad'      # tree is not a tag of this template class: unknown tag
                        simple = False
                    else:
                        origin = 'attrval-ok' if simple else 'attrval-bad'
                    cases.append((kind, src, origin))
                    rr = one(kind, src, origin)
                    res.count('prefix-shape=' + shape.split('@')[0])
                    res.count('prefix-verdict=%s/%s' % (origin, rr['status']))
                    case = {'syntax': kind, 'src': src, 'origin': origin, 'prefix': v}
                    if origin == 'attrval-open':
                        continue
                    if simple and rr['status'] != 'ok':
                        res.oracle_fail.append({'case': case, 'what': 'the prefix %r is a simple name (ASCII letter, '
                                                'then ASCII letters / digits / underscores) but the source was '
                                                'rejected: %r' % (v, rr)})
                    if not simple and rr['status'] == 'ok':
                        res.oracle_fail.append({'case': case, 'what': 'the prefix %r is not a simple name (ASCII '
                                                'letter, then ASCII letters / digits / underscores) but the source '
                                                'was accepted' % (v,)})
                    if not simple and rr['status'] == 'parse-error' and rr['line'] is not None \
                            and (ctx[0] != 'tree' or have_tree[kind]):
                        lo = 1 + src.count('\n', 0, off)
                        if rr['line'] != lo or not src.startswith(rr['tag'] or '\0', off):
                            res.oracle_fail.append({'case': case, 'what': 'the tag with the non-simple prefix starts '
                                                    'at offset %d on line %d; the message names %r on line %r'
                                                    % (off, lo, rr['tag'], rr['line'])})
                    if simple and rr['status'] == 'ok' and want is not None:
                        try:
                            got = (String if kind == 'epfs' else HTML)(src)(seq=['a', 'b', 'c'], flag=1)
                        except Exception as e:  # noqa
                            got = 'raised %r' % (e,)
                        res.evaluations += 1
                        if got != want:
                            res.oracle_fail.append({'case': case, 'what': 'rendering over [a, b, c] gives %r; the '
                                                    'variables %s_item / %s_index say %r' % (got, v, v, want)})
            # the same kinds of value where nothing restricts them
            for k_, name, argt in FREE_VALUE_TAGS:
                for shape in PREFIX_SHAPES:
                    v = gen_prefix_value(r, shape)
                    if '>' in v or '<' in v or ')' in v or '"' in v:
                        continue
                    quoted = any(c <= ' ' or c in '="' or c.isspace() for c in v) or r.random() < 0.5
                    if name == 'let' and quoted:
                        continue        # a quoted value of let is a Python expression: another rule
                    args = ' ' + argt % ('"%s"' % v if quoted else v)
                    if k_ == 's':
                        src = 'p\n' + _ltag(syn, 'o', name, args).replace(')[', ')s') + 'q'
                    else:
                        src = 'p\n' + _ltag(syn, 'o', name, args) + 'body' + _ltag(syn, 'c', name) + 'q'
                    cases.append((kind, src, 'valid'))
                    one(kind, src, 'valid')
                    res.count('free-value=%s' % argt.split('=')[0].split()[-1])


# --------------------------------------------------------------------------- error location under every kind of text

def odd_chars():
    """characters some notion of 'line' / 'white space' treats specially although they are not a line feed: all control,
    format, space and separator characters of the BMP's first 0x3100 code points (carriage return, vertical tab, form
    feed, the ASCII separators, NEL, no-break space, U+2028 / U+2029, ...).  A line feed is the only line terminator."""
    import unicodedata
    out = []
    for c in range(0x3100):
        ch = chr(c)
        if ch == '\n':
            continue
        if ch.isspace() or unicodedata.category(ch) in ('Cc', 'Cf', 'Zs', 'Zl', 'Zp'):
            out.append(ch)
    return out


def gen_prelude(r, syn, odd, must):
    """text that precedes an offending tag: lines of plain text, valid simple tags with quoted attribute values, a
    comment block, all sprinkled with odd characters (`must` is used at least once).  Returns the text."""
    n = r.randint(1, 4)
    k_must = r.randrange(n)
    out = []
    for k in range(n):
        cs = [r.choice(odd) for _ in range(r.randint(0, 3))]
        if k == k_must:
            cs.append(must * r.choice([1, 1, 3]))
        c = r.random()
        words = [r.choice(['Page', 'one', 'x', 'q', '', '\n', '\r\n', ' ', '\n\n']) for _ in range(r.randint(1, 5))] + cs
        r.shuffle(words)
        txt = ''.join(words)
        if c < 0.5:
            out.append(txt)
        elif c < 0.8:
            val = txt.replace('"', '')
            if syn == 'epfs':
                val = val.replace(')', '')
                out.append('%%(a null="%s")s' % val)
            elif syn == 'ssi':
                out.append('<!--#var a null="%s"-->' % val.replace('-->', ''))
            else:
                out.append('<dtml-var a null="%s">' % val)
        else:
            inner = txt if not any(o in txt for o in tmplgen.OPENERS) else 'c'
            out.append(_ltag(syn, 'o', 'comment') + inner + _ltag(syn, 'c', 'comment'))
        out.append(r.choice(['', '\n', '\n', ' ', must]))
    return ''.join(out)


def run_located_faults(res, tier, cases, one):
    """every grammar fault of FAULTS x the three syntaxes, after a prelude of text / valid tags full of odd characters:
    rejected, and the reported line is 1 + the number of LINE FEEDS before a tag with the reported text (the fault part
    is printed on one line, so this pins the line exactly)"""
    r = common.rng('C06-odd')
    odd = odd_chars()
    i = 0
    for rep in range(2 if tier == 'quick' else 30):
        for label, parts in FAULTS:
            for syn in ('dtml', 'ssi', 'epfs'):
                must = odd[i % len(odd)]
                i += 1
                kind = 'epfs' if syn == 'epfs' else 'html'
                pre = gen_prelude(r, syn, odd, must)
                fault = print_fault(parts, syn)
                src = pre + fault + r.choice(['', 'post', '\npost' + must + '\n'])
                origin = 'fault:' + label
                cases.append((kind, src, origin))
                rr = one(kind, src, origin)
                res.count('odd-prelude')
                if i % 3 == 0:      # the same prelude before a grammatical block: must compile ('valid' rule of one())
                    good = pre + _ltag(syn, 'o', 'if', ' a') + 'then' + must + _ltag(syn, 'o', 'else') + 'or' + \
                        _ltag(syn, 'c', 'if') + 'post'
                    cases.append((kind, good, 'valid'))
                    one(kind, good, 'valid')
                if rr['status'] == 'parse-error' and rr['line'] is not None:
                    lo = 1 + pre.count('\n')
                    if rr['line'] != lo:
                        res.oracle_fail.append({'case': {'syntax': kind, 'src': src, 'origin': origin},
                                                'what': 'every tag of the faulty part starts on line %d (line feeds '
                                                'before it + 1), the message says line %d' % (lo, rr['line'])})


def run(res, tier, have_driver):
    r = common.rng('C06')
    res.rule = ('(a) valid abstract templates printed in dtml / SSI / EPFS syntax; (b) each with one mutation '
                '(delete, duplicate, swap, insert) ; (c) every prefix of a sample of templates; (d) junk: random '
                'concatenations of tag fragments, quotes and delimiters in both syntaxes; (e) grammar faults, one per '
                'fault class; (f) chains of 4-12 properly nested block tags of random kinds (all 8 block tags, their '
                'continuation sections, text / simple tags beside the nested block) in the three syntaxes: must '
                'compile; the same with one end tag deleted: must be rejected; (g) pumped families for running time, '
                'each at growing sizes under a %d s watchdog, time may grow at most ~quadratically: repetition '
                'u v^n w of every part a source is made of (tags, entities, attributes, quotes, blanks, lines, '
                'continuation tags, sibling blocks, errors at the end of long sources, long Python expressions in every '
                'expression position), NESTING u^n v w^n (n = depth '
                '8..96) of every block tag in every syntax, closed / unclosed / half closed / with continuation '
                'sections / error at the bottom, random mixed chains scaled by depth, and random u,v,w from the junk '
                'alphabet; each family also has its verdict by construction; (h) compile histories: 1-3 template '
                'objects (HTML, String, HTMLFile, File), 2-7 steps of munge / manage_edit / raw assignment + cook / '
                'file rewritten + cook / edited_source + cook / cook again / munge() / object re-created from its '
                'pickled state then cook or call / call, sources: valid and invalid ones, the same source again, '
                'a source seen earlier, a one-mutation neighbour, a source of the other syntax; expected outcome of '
                'every compilation in a history = outcome (verdict, message, tag, line, compiled tree) of a FRESH '
                'template object for that source; non-trivial = distinct source containing at least one tag opener / '
                'distinct history; (i) tag layouts: if / in blocks with an else tag that is bare, repeats the start '
                'tag\'s first attribute (name, name=, expr=, "..." forms) or its whole argument text -> grammatical, '
                'must compile AND render the section the namespace selects -- or names something else (other name, '
                'proper prefix, one letter more) -> must be rejected; every white-space separator (blank, tab, line '
                'feed, runs, wrapped + indented) after the first attribute x every else kind x three syntaxes; '
                '(j) every grammar fault x three syntaxes after a prelude of text lines, valid tags with quoted '
                'attribute values and comment blocks sprinkled with every control / format / space / separator '
                'character below U+3100 (CR, VT, FF, FS/GS/RS, NEL, NBSP, U+2028/9 ...): rejected, reported line = '
                '1 + number of line feeds before the faulty part; (k) attribute values: the prefix attribute of in / '
                'tree (11 positions: with / without batch, sort, mapping, name= / expr= forms, inside an if, with an '
                'else section; spelled prefix / PREFIX; quoted / unquoted; blank / tab / line-feed separators; three '
                'syntaxes) over every kind of value: simple names (short, upper case, long), leading underscore(s), '
                'underscores only, leading digit, only non-ASCII characters, and a simple name with a character of '
                'each kind -- non-ASCII letter (every script, full-width, mathematical), non-ASCII digit / number, '
                'combining mark, connector punctuation, symbol, non-ASCII space / format character, ASCII '
                'punctuation, ASCII white space / control -- inserted or substituted at the first / an inner / the '
                'last position: accepted iff ASCII letter followed by ASCII letters, digits, underscores (plain '
                'Python reference), rejection = ParseError naming that tag on its line, accepted in blocks render '
                '<prefix>_item / <prefix>_index over a 3-element sequence; the same values in attributes without a '
                'lexical rule (null, fmt, missing, sort, size, start, mapping, let binding): must compile' % (PUMP_TIMEOUT if tier == 'quick' else PUMP_TIMEOUT_THOROUGH))
    cases = []
    n_t = 250 if tier == 'quick' else 4000
    for i in range(n_t):
        t = tmplgen.gen_template(r, r.choice([1, 2, 3, 3]), 3)
        for syn in ('dtml', 'ssi', 'epfs'):
            kind, src = tmplgen.render_source(t, syn, r)
            cases.append((kind, src, 'valid'))
            for _ in range(2 if tier == 'quick' else 4):
                cases.append((kind, mutate(r, src), 'mutated'))
            if i % 10 == 0 and len(src) < 400:
                for k in range(0, len(src), 1 if tier == 'thorough' else 3):
                    cases.append((kind, src[:k], 'prefix'))
    for _ in range(6000 if tier == 'quick' else 200000):
        syn = r.choice(['html', 'epfs'])
        cases.append((syn, junk(r, syn), 'junk'))
    for label, parts in FAULTS:
        for syn in ('dtml', 'ssi', 'epfs'):
            src = print_fault(parts, syn)
            cases.append(('epfs' if syn == 'epfs' else 'html', 'pre\n' + src + 'post', 'fault:' + label))
    rn = common.rng('C06-nest')
    for i in range(40 if tier == 'quick' else 400):
        t = gen_chain(rn, rn.randint(4, 12))
        for syn in ('dtml', 'ssi', 'epfs'):
            kind, src = tmplgen.render_source(t, syn, rn)
            cases.append((kind, src, 'nest'))
            broken = drop_closer(rn, src, syn)
            if broken is not None:
                cases.append((kind, broken, 'nest-broken'))
    results = []
    reqs = []
    n_timeouts = 0

    def one(kind, src, origin):
        """compile one source with a fresh template object, apply the stateless oracles, queue it for the model"""
        rr = parselib.compile_real(kind, src)
        results.append(rr)
        res.evaluations += 1
        res.count('origin=' + origin.split(':')[0])
        res.count('status=' + rr['status'])
        if rr['status'] == 'parse-error':
            res.count('error:' + rr['msg'].strip()[:40])
        for f in oracle(kind, src, rr):
            res.oracle_fail.append({'case': {'syntax': kind, 'src': src, 'origin': origin}, 'what': f})
        if origin.startswith('fault:') and rr['status'] == 'ok':
            res.oracle_fail.append({'case': {'syntax': kind, 'src': src, 'origin': origin},
                                    'what': 'a source violating the tag grammar (%s) was accepted' % origin[6:]})
        if origin in ('valid', 'nest') and rr['status'] != 'ok':
            res.oracle_fail.append({'case': {'syntax': kind, 'src': src, 'origin': origin},
                                    'what': 'a grammatical template was rejected: %r' % (rr,)})
        if origin == 'nest-broken' and rr['status'] == 'ok':
            res.oracle_fail.append({'case': {'syntax': kind, 'src': src, 'origin': origin},
                                    'what': 'a chain of nested blocks with one end tag deleted was accepted'})
        if any(o in src for o in tmplgen.OPENERS):
            res.nt((kind, src))
        reqs.append({'op': 'compile', 'syntax': kind, 'src': src})
        return rr

    for kind, src, origin in cases:
        if n_timeouts >= MAX_TIMEOUTS:
            # every further hang costs TIMEOUT seconds and adds nothing: the witnesses are recorded
            res.partial.append('stopped compiling generated sources after %d of them did not finish' % n_timeouts)
            cases = cases[:len(results)]
            break
        if one(kind, src, origin)['status'] == 'timeout':
            n_timeouts += 1

    if n_timeouts < MAX_TIMEOUTS:
        run_else_layouts(res, tier, cases, one)
        run_located_faults(res, tier, cases, one)
        run_attribute_values(res, tier, cases, one)
    # compile histories on one object: expected outcome = a fresh template object's (the stateless verdicts above)
    if n_timeouts < MAX_TIMEOUTS:
        n_timeouts = run_histories(res, tier, cases, results, one, n_timeouts)
    for i in (0, 1, len(cases) // 2, len(cases) - 1):
        rr = dict(results[i])
        rr.pop('blocks', None)
        res.sample({'syntax': cases[i][0], 'src': cases[i][1][:300], 'origin': cases[i][2], 'impl': rr})
    if have_driver:
        resp = common.run_driver(reqs)
        for (kind, src, origin), rr, rp in zip(cases, results, resp):
            if 'ok' not in rp:
                res.harness_errors.append('driver: %r' % (rp,))
                break
            if rr['status'] in ('timeout', 'recursion', 'other'):
                continue
            res.corr_checked += 1
            mv = model_verdict(rp['ok'])
            impl_ok = rr['status'] == 'ok'
            if impl_ok != (mv[0] == 'ok'):
                r2 = dict(rr)
                r2.pop('blocks', None)
                res.corr_mismatch.append({'case': {'syntax': kind, 'src': src, 'origin': origin}, 'impl': r2,
                                          'model': mv, 'diff': 'acceptance'})
            elif impl_ok:
                a = parselib.norm(rr['blocks'])
                b = parselib.norm_model(mv[1])
                if a != b:
                    res.corr_mismatch.append({'case': {'syntax': kind, 'src': src, 'origin': origin},
                                              'impl': a, 'model': b, 'diff': 'compiled tree'})
    # token-level correspondence on the junk (scanner fidelity)
    if have_driver:
        sub = [(k, s) for k, s, o in cases if o in ('junk', 'mutated')][:8000 if tier == 'quick' else 200000]
        resp = common.run_driver([{'op': 'tokens', 'syntax': k, 'src': s} for k, s in sub])
        for (k, s), rp in zip(sub, resp):
            if n_timeouts >= MAX_TIMEOUTS:
                break
            res.corr_checked += 1
            try:
                st_, real = parselib.with_alarm(lambda: scanlib.real_tokens(k, s))
            except Exception as e:  # noqa
                res.oracle_fail.append({'case': {'syntax': k, 'src': s}, 'what': 'scanner raised %r' % (e,)})
                continue
            if st_ == 'timeout':
                n_timeouts += 1
                res.oracle_fail.append({'case': {'syntax': k, 'src': s, 'origin': 'junk'},
                                        'what': 'the tag scanner did not finish within %d s' % parselib.TIMEOUT})
                continue
            if rp.get('ok') != real:
                res.corr_mismatch.append({'case': {'syntax': k, 'src': s}, 'impl': real, 'model': rp.get('ok'),
                                          'diff': 'tokens'})
    # running time on pumped families (repetition and nesting): must stay (at most) quadratic
    n_timeouts = run_pumps(res, tier, n_timeouts)
    # deep nesting: interpreter recursion limit (known finding)
    rr = parselib.compile_real('html', '<dtml-if x>' * 1000, timeout=60)
    if rr['status'] == 'recursion':
        res.known_hits['C06-deep-nesting-recursion'] = {'src': "'<dtml-if x>' * 1000"}
    elif rr['status'] not in ('parse-error',):
        res.oracle_fail.append({'case': {'src': "'<dtml-if x>' * 1000"}, 'what': 'unexpected outcome %r' % (rr['status'],)})
    res.partial.append('running time of CPython re / the hand-written scanner is measured (pumped families), not proved; '
                       'nesting deeper than the interpreter recursion limit raises RecursionError (known finding)')
    res.assumptions += ['Python expression syntax (RestrictedPython Eval) is external: the model lists the expressions, '
                        'the harness compiles them', 'the hand-compiled EPFS matcher is validated against CPython re by '
                        'the token correspondence, not proved equivalent']


def search_more(res, tier):
    r = common.rng('C06-more')
    found = []
    for _ in range(20000):
        syn = r.choice(['html', 'epfs'])
        src = junk(r, syn)
        rr = parselib.compile_real(syn, src)
        for f in oracle(syn, src, rr):
            found.append({'case': {'syntax': syn, 'src': src}, 'what': f})
        if len(found) >= 3:
            break
    return found


def replay(path):
    with open(path) as f:
        d = json.load(f)
    c = d['first']['case']
    if 'history' in c:
        h = c['history']
        tmpdir = tempfile.mkdtemp(prefix='c06hist')
        try:
            obs = run_history(h, tmpdir)
        finally:
            shutil.rmtree(tmpdir, ignore_errors=True)
        f = check_history(h, obs, lambda kind, src: parselib.compile_real(kind, src))
        for st, o in zip(h['steps'], obs):
            print(st, None if o is None else {k: v for k, v in o[1].items() if k != 'blocks'})
        print(f['what'] if f else 'every compilation of the history agrees with a fresh template object')
        return 1 if f else 0
    if 'family' in c:
        # imports (the library, the lazily loaded block tags) are not part of the measured compilation
        parselib.compile_real('html', '<dtml-if x><dtml-in x><dtml-with x><dtml-let a=b><dtml-try><dtml-unless x>'
                              '<dtml-raise x><dtml-comment></dtml-comment></dtml-raise></dtml-unless><dtml-except>'
                              '</dtml-try></dtml-let></dtml-with></dtml-in></dtml-if>')
        parselib.compile_real('epfs', '%(if x)[%(x)s%(if x)]')
    t0 = time.process_time()
    rr = parselib.compile_real(c['syntax'], c['src'], timeout=PUMP_TIMEOUT if 'family' in c else parselib.TIMEOUT)
    dt = time.process_time() - t0
    rr.pop('blocks', None)
    fails = oracle(c['syntax'], c['src'], rr)
    if c.get('origin') in ('valid', 'nest', 'layout-ok', 'attrval-ok') and rr['status'] != 'ok':
        fails.append('a grammatical template was rejected')
    if (c.get('origin') in ('nest-broken', 'layout-bad', 'attrval-bad') or str(c.get('origin')).startswith('fault:')) and rr['status'] == 'ok':
        fails.append('a source violating the tag grammar was accepted')
    if 'family' in c:
        print('family %s n=%s: %d characters, cpu %.3f s (recorded: %r)' % (c['family'], c.get('n'), len(c['src']), dt,
                                                                          c.get('cpu_s')))
        if dt > 0.5 and c.get('cpu_s') and len(c['cpu_s']) > 1 and dt > 8 * max(c['cpu_s'][-2], 0.02):
            fails.append('running time grows faster than quadratically')
    print(rr, fails)
    return 1 if fails else 0
