"""C06 — compiling any source terminates and fails only with a located ParseError.

Correspondence: Lean `Scan.tokens` + `Parse.compile` (acceptance, the compiled tree, the list of
Python expressions handed to Eval) vs the real `parse`.  Oracle on the implementation: exception
class, error location (tag text at a token start on the reported line), running time on pumped
families.
"""
import json
import time

import common
import parselib
import scanlib
import tmplgen

FRAGS_HTML = ['<dtml-', '</dtml-', '<!--#', '-->', '>', '<', '&dtml-', '&dtml.', '&dtml', ';', '"', ' ', '\n',
              'var', 'if', 'elif', 'else', 'in', 'with', 'let', 'try', 'except', 'finally', 'raise', 'return',
              'call', 'comment', 'unless', 'tree', 'end', '/', 'x', 'y', ' x', ' y', '=', 'expr=', 'name=', '"x"',
              '"1+"', 'html_quote', 'upper', 'size=3', 'orphan=1', 'start=1', 'prefix=p-q', 'sort=k', 'mapping',
              'a=b', 'a="1"', 'KeyError', 'x.y', '-', '.', '_', '\x01', '\xa0', 'ſ', 'nosuch', 'type=', 'IF', ' \t',
              'branches=b', 'branches_expr="x"', 'fmt=s', 'null=""', '&', '%']
FRAGS_EPFS = ['%(', ')', ')s', ')[', ')]', ')!', ')d', ')5.2f', ' ', '  ', '\n', '"', 'var', 'if', 'elif', 'else',
              'in', 'with', 'let', 'try', 'except', 'finally', 'raise', 'return', 'call', 'comment', 'unless', 'x',
              'y', ' x', '=', 'expr=', '"x"', '"1+"', '")"', 'html_quote', 'size=3', 'orphan=1', 'a=b', '%', '(',
              's', '[', ']', '!', '1', '.', 'ſ', 'K', 'İ', 'nosuch', '/', '-', 'name=', 'a="1"', '\x00']


def junk(r, syn):
    fr = FRAGS_HTML if syn == 'html' else FRAGS_EPFS
    return ''.join(r.choice(fr) for _ in range(r.randint(1, 14)))


def mutate(r, src):
    """one mutation of a valid source: delete / duplicate / swap / truncate a character or a tag-ish span"""
    if not src:
        return src
    c = r.random()
    i = r.randrange(len(src))
    if c < 0.25:
        return src[:i] + src[i + 1:]
    if c < 0.4:
        return src[:i] + src[i] + src[i:]
    if c < 0.55:
        j = r.randrange(len(src))
        i, j = min(i, j), max(i, j)
        return src[:i] + src[j:]
    if c < 0.7:
        j = min(len(src), i + r.randint(1, 12))
        return src[:i] + src[i:j] + src[i:j] + src[j:]
    if c < 0.85:
        j = min(len(src), i + r.randint(1, 8))
        k = min(len(src), j + r.randint(1, 8))
        return src[:i] + src[j:k] + src[i:j] + src[k:]
    return src[:i] + r.choice(['"', '>', '<', ')', '-', ' ', '=', '/', '%(', '<dtml-', '&dtml-']) + src[i:]


# grammar faults, one per fault class of the property; (open-args / sections) are printed in the three syntaxes
FAULTS = [
    ('unknown tag', [('o', 'nosuch', 'x'), ('t', 'a'), ('c', 'nosuch')]),
    ('end without start', [('t', 'a'), ('c', 'if')]),
    ('wrong end', [('o', 'if', 'x'), ('t', 'a'), ('c', 'in')]),
    ('missing end', [('o', 'if', 'x'), ('t', 'a')]),
    ('missing end nested', [('o', 'if', 'x'), ('o', 'in', 'y'), ('t', 'a'), ('c', 'if')]),
    ('elif outside if', [('o', 'elif', 'x'), ('t', 'a')]),
    ('except outside try', [('o', 'in', 'x'), ('o', 'except', ''), ('t', 'a'), ('c', 'in')]),
    ('finally outside try', [('o', 'finally', ''), ('t', 'a')]),
    ('repeated else', [('o', 'if', 'x'), ('t', 'a'), ('o', 'else', ''), ('t', 'b'), ('o', 'else', ''), ('c', 'if')]),
    ('elif after else', [('o', 'if', 'x'), ('o', 'else', ''), ('o', 'elif', 'y'), ('c', 'if')]),
    ('two else in in', [('o', 'in', 'x'), ('o', 'else', ''), ('o', 'else', ''), ('c', 'in')]),
    ('else name mismatch in', [('o', 'in', 'x'), ('o', 'else', 'x y'), ('c', 'in')]),
    ('try finally with except', [('o', 'try', ''), ('o', 'except', ''), ('o', 'finally', ''), ('c', 'try')]),
    ('try two finally', [('o', 'try', ''), ('o', 'finally', ''), ('o', 'finally', ''), ('c', 'try')]),
    ('try except after else', [('o', 'try', ''), ('o', 'else', ''), ('o', 'except', 'KeyError'), ('c', 'try')]),
    ('try two else', [('o', 'try', ''), ('o', 'except', ''), ('o', 'else', ''), ('o', 'else', ''), ('c', 'try')]),
    ('try two default handlers', [('o', 'try', ''), ('o', 'except', ''), ('o', 'except', ''), ('c', 'try')]),
    ('try named attr', [('o', 'try', 'a=b'), ('c', 'try')]),
    ('unknown attribute', [('s', 'var', 'x nosuch')]),
    ('unknown attribute value', [('s', 'var', 'x nosuch=1')]),
    ('duplicate attribute', [('s', 'var', 'x size=1 size=2')]),
    ('duplicate attribute quoted', [('s', 'var', 'x fmt="a" fmt="b"')]),
    ('missing name', [('s', 'var', 'upper=1')]),
    ('missing name call', [('s', 'call', 'expr')]) if False else ('two names', [('s', 'var', 'x name=y')]),
    ('name and expr', [('s', 'var', 'x expr="y"')]),
    ('name= and expr', [('s', 'var', 'name=x expr="y"')]),
    ('two exprs', [('s', 'var', '"x" expr="y"')]),
    ('second unnamed', [('s', 'var', 'x "y"')]),
    ('bad expr shorthand', [('s', 'var', '"1 +"')]),
    ('shorthand in in-else', [('o', 'in', 'x'), ('o', 'else', '"x"'), ('c', 'in')]),
    ('no name if', [('o', 'if', ''), ('c', 'if')]),
    ('no name in', [('o', 'in', 'mapping=1'), ('c', 'in')]),
    ('orphan without batch', [('o', 'in', 'x orphan=1'), ('c', 'in')]),
    ('overlap without batch', [('o', 'in', 'x overlap=1'), ('c', 'in')]),
    ('previous without batch', [('o', 'in', 'x previous'), ('c', 'in')]),
    ('next without batch', [('o', 'in', 'x next'), ('c', 'in')]),
    ('non-simple prefix', [('o', 'in', 'x prefix=a-b'), ('c', 'in')]),
    ('non-simple prefix digit', [('o', 'in', 'x prefix=1a'), ('c', 'in')]),
    ('tree attr needs value', [('o', 'tree', 'x branches'), ('c', 'tree')]),
    ('tree branches twice', [('o', 'tree', 'x branches=a branches_expr="b"'), ('c', 'tree')]),
    ('tree prefix', [('o', 'tree', 'x prefix=a.b'), ('c', 'tree')]),
    ('let bad', [('o', 'let', 'a'), ('c', 'let')]),
    ('let bad expr', [('o', 'let', 'a="1 +"'), ('c', 'let')]),
    ('raise two', [('o', 'raise', 'KeyError type=X'), ('c', 'raise')]),
    ('with two', [('o', 'with', 'x y'), ('c', 'with')]),
    ('return none', [('s', 'return', 'size=1')]),
    ('invalid parameter', [('s', 'var', 'x =1')]),
    ('unclosed quote', [('s', 'var', 'x fmt="abc')]) if False else ('if else mismatch then end', [('o', 'if', 'x'), ('o', 'else', 'y'), ('c', 'if')]),
]


def print_fault(parts, syntax):
    out = []
    for p in parts:
        if p[0] == 't':
            out.append(p[1])
            continue
        kind, name, args = (p + ('',))[:3] if p[0] != 'c' else ('c', p[1], '')
        a = (' ' + args) if args else ''
        if syntax == 'epfs' and args.startswith('"'):
            a = '  ' + args
        if syntax == 'dtml':
            out.append({'o': '<dtml-%s%s>', 's': '<dtml-%s%s>', 'c': '</dtml-%s%s>'}[kind] % (name, a))
        elif syntax == 'ssi':
            out.append({'o': '<!--#%s%s-->', 's': '<!--#%s%s-->', 'c': '<!--#/%s%s-->'}[kind] % (name, a))
        else:
            out.append({'o': '%%(%s%s)[', 's': '%%(%s%s)[' if name != 'var' else '%%(%s%s)s', 'c': '%%(%s%s)]'}[kind]
                       % (name, a))
    return ''.join(out)


def located(src, tag, line):
    """is there an occurrence of `tag` in `src` that starts on line `line`?"""
    if tag is None or line is None:
        return False
    p = src.find(tag)
    while p >= 0:
        if 1 + src.count('\n', 0, p) == line:
            return True
        p = src.find(tag, p + 1)
    return False


def oracle(syn, src, res):
    st = res['status']
    if st == 'ok':
        return []
    if st == 'parse-error':
        if not located(src, res['tag'], res['line']):
            return ['ParseError names tag %r on line %r, but no such tag starts on that line' % (res['tag'], res['line'])]
        return []
    if st == 'syntax-error':
        if 'expr' in src:
            return []
        return ['SyntaxError escaped without an explicit expr= attribute: %s' % res.get('msg')]
    if st == 'timeout':
        return ['compilation did not finish within %d s' % parselib.TIMEOUT]
    if st == 'recursion':
        return ['RecursionError']
    return ['exception other than ParseError escaped: %s' % res.get('exc')]


def model_verdict(m):
    """model response -> ('ok', tree) | ('reject', why)"""
    if m['status'] != 'ok':
        return ('reject', m['msg'])
    for src, shorthand in m['exprs']:
        if not parselib.expr_ok(src):
            return ('reject', 'expression does not compile: %r' % src)
    return ('ok', m['tree'])


MAX_TIMEOUTS = 3


def run(res, tier, have_driver):
    r = common.rng('C06')
    res.rule = ('(a) valid abstract templates printed in dtml / SSI / EPFS syntax; (b) each with one mutation '
                '(delete, duplicate, swap, insert) ; (c) every prefix of a sample of templates; (d) junk: random '
                'concatenations of tag fragments, quotes and delimiters in both syntaxes; (e) pumped families for '
                'running time; non-trivial = distinct source containing at least one tag opener')
    cases = []
    n_t = 250 if tier == 'quick' else 4000
    for i in range(n_t):
        t = tmplgen.gen_template(r, r.choice([1, 2, 3, 3]), 3)
        for syn in ('dtml', 'ssi', 'epfs'):
            kind, src = tmplgen.render_source(t, syn, r)
            cases.append((kind, src, 'valid'))
            for _ in range(2 if tier == 'quick' else 4):
                cases.append((kind, mutate(r, src), 'mutated'))
            if i % 10 == 0 and len(src) < 400:
                for k in range(0, len(src), 1 if tier == 'thorough' else 3):
                    cases.append((kind, src[:k], 'prefix'))
    for _ in range(6000 if tier == 'quick' else 200000):
        syn = r.choice(['html', 'epfs'])
        cases.append((syn, junk(r, syn), 'junk'))
    for label, parts in FAULTS:
        for syn in ('dtml', 'ssi', 'epfs'):
            src = print_fault(parts, syn)
            cases.append(('epfs' if syn == 'epfs' else 'html', 'pre\n' + src + 'post', 'fault:' + label))
    results = []
    reqs = []
    n_timeouts = 0
    for kind, src, origin in cases:
        if n_timeouts >= MAX_TIMEOUTS:
            # every further hang costs TIMEOUT seconds and adds nothing: the witnesses are recorded
            res.partial.append('stopped compiling generated sources after %d of them did not finish' % n_timeouts)
            cases = cases[:len(results)]
            break
        rr = parselib.compile_real(kind, src)
        if rr['status'] == 'timeout':
            n_timeouts += 1
        results.append(rr)
        res.evaluations += 1
        res.count('origin=' + origin.split(':')[0])
        res.count('status=' + rr['status'])
        if rr['status'] == 'parse-error':
            res.count('error:' + rr['msg'].strip()[:40])
        for f in oracle(kind, src, rr):
            if origin == 'valid' or True:
                res.oracle_fail.append({'case': {'syntax': kind, 'src': src, 'origin': origin}, 'what': f})
        if origin.startswith('fault:') and rr['status'] == 'ok':
            res.oracle_fail.append({'case': {'syntax': kind, 'src': src, 'origin': origin},
                                    'what': 'a source violating the tag grammar (%s) was accepted' % origin[6:]})
        if origin == 'valid' and rr['status'] != 'ok':
            res.oracle_fail.append({'case': {'syntax': kind, 'src': src, 'origin': origin},
                                    'what': 'a grammatical template was rejected: %r' % (rr,)})
        if any(o in src for o in tmplgen.OPENERS):
            res.nt((kind, src))
        reqs.append({'op': 'compile', 'syntax': kind, 'src': src})
    for i in (0, 1, len(cases) // 2, len(cases) - 1):
        rr = dict(results[i])
        rr.pop('blocks', None)
        res.sample({'syntax': cases[i][0], 'src': cases[i][1][:300], 'origin': cases[i][2], 'impl': rr})
    if have_driver:
        resp = common.run_driver(reqs)
        for (kind, src, origin), rr, rp in zip(cases, results, resp):
            if 'ok' not in rp:
                res.harness_errors.append('driver: %r' % (rp,))
                break
            if rr['status'] in ('timeout', 'recursion', 'other'):
                continue
            res.corr_checked += 1
            mv = model_verdict(rp['ok'])
            impl_ok = rr['status'] == 'ok'
            if impl_ok != (mv[0] == 'ok'):
                r2 = dict(rr)
                r2.pop('blocks', None)
                res.corr_mismatch.append({'case': {'syntax': kind, 'src': src, 'origin': origin}, 'impl': r2,
                                          'model': mv, 'diff': 'acceptance'})
            elif impl_ok:
                a = parselib.norm(rr['blocks'])
                b = parselib.norm_model(mv[1])
                if a != b:
                    res.corr_mismatch.append({'case': {'syntax': kind, 'src': src, 'origin': origin},
                                              'impl': a, 'model': b, 'diff': 'compiled tree'})
    # token-level correspondence on the junk (scanner fidelity)
    if have_driver:
        sub = [(k, s) for k, s, o in cases if o in ('junk', 'mutated')][:8000 if tier == 'quick' else 200000]
        resp = common.run_driver([{'op': 'tokens', 'syntax': k, 'src': s} for k, s in sub])
        for (k, s), rp in zip(sub, resp):
            if n_timeouts >= MAX_TIMEOUTS:
                break
            res.corr_checked += 1
            try:
                st_, real = parselib.with_alarm(lambda: scanlib.real_tokens(k, s))
            except Exception as e:  # noqa
                res.oracle_fail.append({'case': {'syntax': k, 'src': s}, 'what': 'scanner raised %r' % (e,)})
                continue
            if st_ == 'timeout':
                n_timeouts += 1
                res.oracle_fail.append({'case': {'syntax': k, 'src': s, 'origin': 'junk'},
                                        'what': 'the tag scanner did not finish within %d s' % parselib.TIMEOUT})
                continue
            if rp.get('ok') != real:
                res.corr_mismatch.append({'case': {'syntax': k, 'src': s}, 'impl': real, 'model': rp.get('ok'),
                                          'diff': 'tokens'})
    # running time on pumped families: must stay (at most) quadratic
    fams = {
        'epfs-unclosed-args': lambda n: ('epfs', '%(x ' + 'a' * n),
        'epfs-quotes': lambda n: ('epfs', '%(x ' + 'a "b" ' * n),
        'epfs-openers': lambda n: ('epfs', '%(' * n),
        'html-unclosed-quote': lambda n: ('html', '<dtml-var "' + 'a>' * n),
        'html-amp': lambda n: ('html', '&dtml-' * n),
        'html-lt': lambda n: ('html', '<' * n + '<dtml-var x>'),
        'html-many-tags': lambda n: ('html', '<dtml-var x>' * n),
        'html-ssi-unclosed': lambda n: ('html', '<!--#var ' + 'x-' * n),
        'html-params': lambda n: ('html', '<dtml-var x ' + 'a=b ' * n + '>'),
    }
    sizes = [200, 400, 800] if tier == 'quick' else [500, 1000, 2000, 4000]
    timing = {}
    for name, f in fams.items():
        if n_timeouts >= MAX_TIMEOUTS:
            break
        ts = []
        for n in sizes:
            kind, src = f(n)
            t0 = time.process_time()
            rr = parselib.compile_real(kind, src, timeout=60)
            dt = time.process_time() - t0
            ts.append(round(dt, 4))
            res.evaluations += 1
            if rr['status'] == 'timeout':
                n_timeouts += 1
                res.oracle_fail.append({'case': {'family': name, 'n': n}, 'what': 'pumped input timed out'})
                break
        timing[name] = ts
        # doubling the input may at most ~quadruple the time (generous factor, small absolute floor)
        for a, b in zip(ts, ts[1:]):
            if b > 0.5 and b > 8 * max(a, 0.02):
                res.oracle_fail.append({'case': {'family': name, 'sizes': sizes, 'cpu_s': ts},
                                        'what': 'running time grows faster than quadratically'})
                break
    res.extra['pump_cpu_seconds'] = timing
    # deep nesting: interpreter recursion limit (known finding)
    rr = parselib.compile_real('html', '<dtml-if x>' * 1000, timeout=60)
    if rr['status'] == 'recursion':
        res.known_hits['C06-deep-nesting-recursion'] = {'src': "'<dtml-if x>' * 1000"}
    elif rr['status'] not in ('parse-error',):
        res.oracle_fail.append({'case': {'src': "'<dtml-if x>' * 1000"}, 'what': 'unexpected outcome %r' % (rr['status'],)})
    res.partial.append('running time of CPython re / the hand-written scanner is measured (pumped families), not proved; '
                       'nesting deeper than the interpreter recursion limit raises RecursionError (known finding)')
    res.assumptions += ['Python expression syntax (RestrictedPython Eval) is external: the model lists the expressions, '
                        'the harness compiles them', 'the hand-compiled EPFS matcher is validated against CPython re by '
                        'the token correspondence, not proved equivalent']


def search_more(res, tier):
    r = common.rng('C06-more')
    found = []
    for _ in range(20000):
        syn = r.choice(['html', 'epfs'])
        src = junk(r, syn)
        rr = parselib.compile_real(syn, src)
        for f in oracle(syn, src, rr):
            found.append({'case': {'syntax': syn, 'src': src}, 'what': f})
        if len(found) >= 3:
            break
    return found


def replay(path):
    with open(path) as f:
        d = json.load(f)
    c = d['first']['case']
    rr = parselib.compile_real(c['syntax'], c['src'])
    rr.pop('blocks', None)
    print(rr, oracle(c['syntax'], c['src'], rr))
    return 1 if oracle(c['syntax'], c['src'], rr) else 0
