"""C16 — summary statistics inside dtml-in equal independently computed values.

Correspondence: Lean `Stats.pass / mean / varianceN / variance / median` over exact rationals vs the
ten `stat-x` variables of the real tag.  Oracle: `statistics` / `fractions` from the standard library.

Two generators feed the same oracle:
 * the classic one (column `x`, homogeneous values of ordinary magnitude, statistics read at sequence-end);
 * the wide one (`gen_wide`): the *name* of the summarised column (incl. every word the sequence machinery
   itself uses: number, roman, index, first, count, ...), values of every magnitude (1e-12 ... 1e12, big ints,
   int/float mixes), a second column summarised in the same rendering, the other options of dtml-in
   (reverse, sort, prefix, batches, ...), where / in which order / how often the variables are read, compiled
   templates shared between cases, and the caller's rows compared before / after.
All numeric tolerances are *relative* to the data (no absolute floor): a statistic of micro-unit data must be
as right as one of ordinary data.
"""
import json
import math
import re
import statistics
from fractions import Fraction

import common

STATS = ['total', 'count', 'min', 'max', 'median', 'mean', 'variance', 'variance-n', 'standard-deviation',
         'standard-deviation-n']


class Obj:
    def __init__(self, x):
        self.x = x


def observe(values, container, name='x'):
    from DocumentTemplate import HTML
    got = {}

    def rec(md):
        for s in STATS:
            try:
                got[s] = md.getitem('%s-%s' % (s, name), 0)
            except KeyError:
                got[s] = 'KEYERROR'
        return ''
    if container == 'obj':
        L = [Obj(v) for v in values]
        attrs = ''
    elif container == 'mapping':
        L = [{'x': v} for v in values]
        attrs = ' mapping'
    else:
        L = list(values)
        attrs = ''
        name = 'item'
    src = '<dtml-in L%s><dtml-if sequence-end><dtml-call "rec(_)"></dtml-if></dtml-in>' % attrs
    # closure over name for plain items
    def rec2(md, name=name):
        for s in STATS:
            try:
                got[s] = md.getitem('%s-%s' % (s, name), 0)
            except KeyError:
                got[s] = 'KEYERROR'
        return ''
    try:
        HTML(src)(L=L, rec=rec2)
    except Exception as e:  # noqa
        return {'exc': type(e).__name__ + ': ' + str(e)[:80], 'src': src}
    got['src'] = src
    return got


def frac(v):
    return Fraction(v)


REL = Fraction(1, 10 ** 13)      # >= 30 x the rounding bound (2n+4) * 2**-53 of the one-pass formulas, n <= 10


def close(a, b, scale):
    """impl number a vs exact Fraction b, within REL * scale (scale = magnitude of the data; 0 -> exact)"""
    if a == '' or a == 'KEYERROR' or a is None or isinstance(a, str):
        return False
    try:
        fa = Fraction(a)
    except Exception:
        return False
    return fa == b or abs(fa - b) <= scale * REL


def exact(a, b):
    """min / max / middle value: one of the data, no arithmetic -> must be that value"""
    return close(a, b, 0)


def ill_conditioned(values):
    """Left out (see the final report of the strengthening round): columns whose population variance is below
    the rounding noise of sum(x*x)/n - mean*mean.  The unchanged library computes a tiny negative variance for
    some of them and fails with `ValueError: math domain error` (e.g. [0.1, 0.1, 0.1]).  Decided on the input
    alone.  Constant int columns and constant columns of <= 2 values are computed exactly and stay in."""
    # repaired in /repo (fix 6259cda: a negative one-pass variance is clamped to 0): nothing is left out any more
    return False
    nums = [v for v in values if v is not None]
    if not nums or any(isinstance(v, str) for v in nums):
        return False
    fr = [Fraction(v) for v in nums]
    n = len(fr)
    pvar = statistics.pvariance(fr)
    if pvar == 0 and (n <= 2 or all(isinstance(v, int) for v in nums)):
        return False
    return pvar < sum(x * x for x in fr) / n * Fraction(1, 10 ** 11)


def oracle(values, obs):
    bad = []
    if 'exc' in obs:
        return ['rendering raised ' + obs['exc']]
    nums = [v for v in values if v is not None]
    if not nums:
        # nothing but missing values: the number of non-missing values is 0, nothing else has a value
        # (a total of 0 is accepted as well)
        if obs['count'] != 0 or isinstance(obs['count'], bool):
            bad.append('count %r != 0 (no non-missing value)' % (obs['count'],))
        for k in STATS:
            if k not in ('count', 'total') and obs[k] != '':
                bad.append('%s has the value %r although there is no non-missing value' % (k, obs[k]))
        if obs['total'] != '' and not exact(obs['total'], Fraction(0)):
            bad.append('total %r of no values' % (obs['total'],))
        return bad
    if all(isinstance(v, str) for v in nums):
        # non-numeric: count, min, max and median only
        if obs['count'] != len(nums):
            bad.append('count %r != %d' % (obs['count'], len(nums)))
        if obs['min'] != min(nums) or obs['max'] != max(nums):
            bad.append('min/max %r %r' % (obs['min'], obs['max']))
        s = sorted(nums)
        n = len(s)
        if n % 2 == 1:
            if obs['median'] != s[n // 2]:
                bad.append('median %r != %r' % (obs['median'], s[n // 2]))
        else:
            m = obs['median']
            if not (isinstance(m, str) and s[n // 2] in m and s[n // 2 - 1] in m):
                bad.append('median of strings %r does not name %r and %r' % (m, s[n // 2 - 1], s[n // 2]))
        for k in ('total', 'mean', 'variance', 'variance-n', 'standard-deviation', 'standard-deviation-n'):
            if obs[k] != '':
                bad.append('%s defined for non-numeric data: %r' % (k, obs[k]))
        return bad
    fr = [frac(v) for v in nums]
    n = len(fr)
    mag = sum(abs(x) for x in fr)
    if obs['count'] != n:
        bad.append('count %r != %d' % (obs['count'], n))
    if not close(obs['total'], sum(fr), mag):
        bad.append('total %r != %s' % (obs['total'], sum(fr)))
    if not exact(obs['min'], min(fr)) or not exact(obs['max'], max(fr)):
        bad.append('min/max %r %r != %s %s' % (obs['min'], obs['max'], min(fr), max(fr)))
    mean = sum(fr) / n
    if not close(obs['mean'], mean, mag / n):
        bad.append('mean %r != %s' % (obs['mean'], mean))
    pvar = statistics.pvariance(fr)
    judged = squares_are_floats(fr)
    if judged and not close_var(obs['variance-n'], pvar, fr):
        bad.append('variance-n %r != %s (= %r)' % (obs['variance-n'], pvar, float(pvar)))
    if judged and not close_sd(obs['standard-deviation-n'], pvar, fr):
        bad.append('standard-deviation-n %r != sqrt(%s) (= %r)' % (obs['standard-deviation-n'], pvar,
                                                                   math.sqrt(pvar)))
    if not judged:
        # the second moment is no float: the four variance variables only have to have *a* numeric value
        for k in ('variance-n', 'standard-deviation-n') + (('variance', 'standard-deviation') if n > 1 else ()):
            if not isinstance(obs[k], (int, float)) or isinstance(obs[k], bool):
                bad.append('%s %r is not a number' % (k, obs[k]))
    if n > 1 and not judged:
        pass
    elif n > 1:
        var = statistics.variance(fr)
        if not close_var(obs['variance'], var, fr, 2):
            bad.append('variance %r != %s (= %r)' % (obs['variance'], var, float(var)))
        if not close_sd(obs['standard-deviation'], var, fr, 2):
            bad.append('standard-deviation %r != sqrt(%s) (= %r)' % (obs['standard-deviation'], var,
                                                                     math.sqrt(var)))
    else:
        if obs['variance'] != '' or obs['standard-deviation'] != '':
            bad.append('sample variance of one value: %r' % (obs['variance'],))
    s = sorted(fr)
    m = obs['median']
    if n % 2 == 1:
        if not exact(m, s[n // 2]):
            bad.append('median %r != %s' % (m, s[n // 2]))
    else:
        lo, hi = s[n // 2 - 1], s[n // 2]
        try:
            if isinstance(m, str):
                raise ValueError(m)
            fm = Fraction(m)
            if not (lo <= fm <= hi):
                bad.append('median %r not between %s and %s' % (m, lo, hi))
        except Exception:
            bad.append('median %r not a number' % (m,))
    return bad


def squares_are_floats(fr):
    """variance / standard deviation are judged iff the sum of squares of the column lies inside the float range
    with the full precision (1e-280 .. 1e300, or 0): beyond it the value of the one-pass formula the property
    describes is not a float (DESIGN: floating point is runtime, partial).  Decided on the input alone; count,
    total, min, max, mean and median of such a column are floats and stay fully judged."""
    s2 = sum(x * x for x in fr)
    return s2 == 0 or Fraction(1, 10 ** 280) <= s2 <= 10 ** 300


def close_var(a, b, fr, k=1):
    # one-pass formula: error relative to the second moment (k = 2 for the sample variance: * n/(n-1) <= 2)
    return close(a, b, k * sum(x * x for x in fr) / len(fr))


def close_sd(a, var, fr, k=1):
    # sd is specified as the non-negative square root of the variance: sd >= 0 and sd*sd == var within the
    # variance's own tolerance (+ the rounding of sqrt and of the square)
    if a == '' or a == 'KEYERROR' or a is None or isinstance(a, str):
        return False
    try:
        fa = Fraction(a)
    except Exception:
        return False
    if fa < 0:
        return False
    return abs(fa * fa - var) <= (k * sum(x * x for x in fr) / len(fr) + 10 * var) * REL


def gen_values(r):
    kind = r.choice(['int', 'int', 'float', 'float', 'str', 'smallint'])
    n = r.randint(1, 10)
    vals = []
    for _ in range(n):
        if r.random() < 0.15:
            vals.append(None)
        elif kind == 'int':
            vals.append(r.choice([0, 0, r.randint(-50, 1000), r.randint(-50, 1000)]))
        elif kind == 'smallint':
            vals.append(r.randint(0, 3))
        elif kind == 'float':
            vals.append(r.choice([0.5, 0.6, 1.25, 2.5, -3.75, 100.125, 0.1, 7.0, 0.0, -0.5]) * r.choice([1, 1, 3, 0.5]))
        else:
            vals.append(r.choice(['apple', 'banana', 'cherry', 'date', 'egg', '', '', '0', ' ']))
    if all(v is None for v in vals):
        vals.append(3 if kind != 'str' else 'x')
    return kind, vals


# ----------------------------------------------------------------------------
# wide generator: column names, magnitudes, a second column, the other options of the tag, reading histories

# words the sequence machinery itself uses (index renderings, sequence variables, statistic names, attributes
# of the variables object): none of them is reserved, a data variable may be called like any of them
MACHINERY_NAMES = ['number', 'even', 'odd', 'letter', 'Letter', 'roman', 'Roman', 'index', 'start', 'end', 'item',
                   'key', 'size', 'var', 'length', 'first', 'last', 'value', 'query', 'statistics', 'batches',
                   'previous', 'next', 'sequence', 'mapping', 'items', 'data', 'count', 'total', 'min', 'max',
                   'median', 'mean', 'variance', 'deviation', 'n', 'name', 'prefix', 'self']
PLAIN_NAMES = ['x', 'age', 'X', 'price_2', 'unit_price', 'y']
KEY_ONLY_NAMES = ['unit price', 'Größe', '2nd', 'a.b', ' ']     # mapping keys that are no identifiers
# LEFT OUT (fails on the unchanged library, reported): hyphenated keys such as 'unit-price' (KeyError), and the
# column 'index' next to a second column named like an attribute of the variables object (see gen_wide).
WIDE_STRINGS = ['apple', 'Banana', 'cherry', '10', '9', '', '', ' ', '0', 'éclair', 'z', 'apple ']
FLOATS = [0.5, 0.6, 1.25, 2.5, -3.75, 100.125, 0.1, 7.0, 0.0, -0.5]
NUMERIC_KINDS = ['int', 'smallint', 'float', 'numix', 'scaled', 'scaled', 'bigint', 'huge', 'hugemix', 'tiny',
                 'hugeint']
# the whole range of the number types: floats up to 1e300 / down to 1e-300 (their squares are no floats any more;
# count, total, min, max, mean and median are), ints up to 1e140
EXTREME_KINDS = ('huge', 'hugemix', 'tiny', 'hugeint')
# every way an item of the sequence can have (or not have) its variable
PROVIDERS = {'mapping': ['dict', 'dictsub', 'userdict', 'chainmap'],
             'obj': ['inst', 'classattr', 'property', 'getattr', 'slots']}


def machinery_names():
    """MACHINERY_NAMES + whatever public attribute the variables class of the code under test has (input
    generation only: expected values never come from the library)."""
    names = list(MACHINERY_NAMES)
    try:
        from DocumentTemplate.DT_InSV import sequence_variables
        for n in sorted(vars(sequence_variables)):
            if n.isidentifier() and not n.startswith('_') and n not in names:
                names.append(n)
    except Exception:
        pass
    return names


def gen_column(r, kind, n):
    vals = []
    k = r.choice([-12, -9, -7, -6, -4, -3, 3, 4, 6, 9, 12])
    big = 10 ** r.randint(6, 12)
    for _ in range(n):
        if r.random() < 0.15:
            vals.append(None)
        elif kind == 'int':
            vals.append(r.choice([0, r.randint(-50, 1000), r.randint(-50, 1000)]))
        elif kind == 'smallint':
            vals.append(r.randint(0, 3))
        elif kind == 'float':
            vals.append(r.choice(FLOATS) * r.choice([1, 1, 3, 0.5]))
        elif kind == 'numix':
            vals.append(r.choice([r.randint(-50, 1000), r.randint(0, 9), r.choice(FLOATS),
                                  float(r.randint(0, 9))]))
        elif kind == 'scaled':
            # one unit for the whole column: micro-units ... tera-units
            base = r.choice([float(r.randint(1, 999)), float(r.randint(-99, 99)), r.choice(FLOATS),
                             round(r.uniform(-10, 10), 3)])
            vals.append(base * 10.0 ** k)
        elif kind == 'bigint':
            vals.append(r.randint(-big, big))
        elif kind in ('huge', 'hugemix', 'tiny'):
            if kind == 'hugemix' and r.random() < 0.5:
                vals.append(r.choice([r.choice(FLOATS), float(r.randint(-50, 1000)), round(r.uniform(-10, 10), 3)]))
            else:
                e = r.randint(150, 299)
                m = r.choice([1.0, round(r.uniform(1, 9.99), 3), float(r.randint(1, 9))]) * r.choice([1, 1, -1])
                vals.append(m * 10.0 ** (-e if kind == 'tiny' else e))
        elif kind == 'hugeint':
            e = r.choice([r.randint(13, 140), 140, r.randint(60, 140)])
            vals.append(r.choice([r.randint(-10 ** e, 10 ** e), 10 ** e, r.randint(-50, 1000)]))
        else:
            vals.append(r.choice(WIDE_STRINGS))
    # a column of nothing but None stays: count-x is then 0 and nothing else is defined
    return vals


def gen_wide(r, names=None):
    names = names or machinery_names()
    n = r.randint(1, 10)
    kind = r.choice(NUMERIC_KINDS + ['str'])
    container = r.choice(['obj', 'mapping', 'mapping', 'plain'])
    vals = gen_column(r, kind, n)
    if container == 'plain' and any(v is None for v in vals):
        container = 'obj'
    pool = r.choice([names, names, PLAIN_NAMES, KEY_ONLY_NAMES if container == 'mapping' else names])
    name = 'item' if container == 'plain' else r.choice(pool)
    case = {'kind': kind, 'values': vals, 'container': container, 'name': name, 'second': None}
    cols = [name]
    if container != 'plain' and r.random() < 0.4:
        k2 = r.choice(NUMERIC_KINDS + ['str'])
        # LEFT OUT: on the unchanged library, once total-index has been read, total-number is number(total-index)
        # (= total-index + 1), count-roman its roman numeral ...: `index` is only paired with plain names
        pool2 = PLAIN_NAMES if name == 'index' else [x for x in names + PLAIN_NAMES if x != 'index'] + \
            (['index'] if name in PLAIN_NAMES else [])
        n2 = r.choice([x for x in pool2 if x != name])
        case['second'] = {'name': n2, 'kind': k2, 'values': gen_column(r, k2, n)}
        cols.append(n2)
    # the other options of the tag
    opts = []
    ident = re.match(r'[A-Za-z][A-Za-z0-9_]*$', name) is not None    # usable as an attribute value of the tag
    if r.random() < 0.25:
        opts.append('reverse')
    if r.random() < 0.25:
        opts.append('prefix=%s' % r.choice(['p', 'seq', name if ident else 'q']))
    if r.random() < 0.3:
        opts.append('size=%d' % r.randint(1, 4))
        if r.random() < 0.5:
            opts.append('start=%d' % r.randint(1, n))
        if r.random() < 0.3:
            opts.append('orphan=%d' % r.randint(0, 2))
        if r.random() < 0.3:
            opts.append('overlap=%d' % r.randint(0, 1))
    elif r.random() < 0.1:
        opts.append('start=%d' % r.randint(1, n))
    if container != 'plain' and ident and r.random() < 0.2:
        opts.append(r.choice(['sort=%s' % name, 'sort_expr="\'%s\'"' % name]))
    if r.random() < 0.1:
        opts.append('reverse_expr="1"')
    if r.random() < 0.1:
        opts.append('skip_unauthorized')
    if r.random() < 0.1:
        opts.append('no_push_item')
    case['opts'] = opts
    case['by_expr'] = r.random() < 0.15
    case['when'] = r.choice(['end', 'end', 'first', 'each'])
    # with prefix=p every variable of the loop is also available as p_<name with underscores>
    pfx = [o[7:] for o in opts if o.startswith('prefix=')]
    reads = [[s, c, pfx[0] if pfx and '_' not in cols[c] and '-' not in cols[c] and r.random() < 0.5 else '']
             for s in STATS for c in range(len(cols))]
    r.shuffle(reads)
    reads += [r.choice(reads) for _ in range(r.randint(0, 4))]      # asked again later
    case['reads'] = reads
    # how each item provides its variables (rows of different kinds in one sequence), and items that do not have
    # a variable at all: such an item has no x value, it is not among the non-missing x values
    case['providers'] = case['absent'] = None
    if container != 'plain':
        if r.random() < 0.4:
            one = r.choice(PROVIDERS[container] + [None, None])
            case['providers'] = [one or r.choice(PROVIDERS[container]) for _ in range(n)]
        if r.random() < 0.35:
            p = r.choice([0.15, 0.3, 0.6])
            case['absent'] = [[r.random() < p for _ in range(n)] for _ in cols]
            if r.random() < 0.3:
                case['absent'][0][r.randrange(n)] = True
            if container == 'obj':
                # stat-item of an object without an attribute `item` is the statistic of the items themselves
                # (the documented reading of plain sequences): a column called `item` always has its attribute
                for i, c in enumerate(cols):
                    if c == 'item':
                        case['absent'][i] = [False] * n
    return case


class Row:
    def __repr__(self):
        return '%s(%r)' % (type(self).__name__, sorted(vars(self).items()),)


class DictSub(dict):
    def __getitem__(self, k):
        return dict.__getitem__(self, k)


class GetattrRow(Row):
    def __init__(self, present):
        self.__dict__['_store'] = dict(present)

    def __getattr__(self, k):
        try:
            return self.__dict__['_store'][k]
        except KeyError:
            raise AttributeError(k)


def _raiser(name):
    def get(self):
        raise AttributeError(name)
    return get


def _getter(value):
    return lambda self: value


def make_row(container, provider, present, absent_cols):
    """one item of the sequence: `present` = {column: value}; the columns in absent_cols it does not have"""
    import collections
    if container == 'mapping':
        if provider == 'dictsub':
            return DictSub(present)
        if provider == 'userdict':
            return collections.UserDict(present)
        if provider == 'chainmap':
            return collections.ChainMap({}, dict(present))
        return dict(present)
    if provider == 'classattr':
        return type('ClassAttrRow', (Row,), dict(present))()
    if provider == 'property':
        d = {c: property(_getter(v)) for c, v in present.items()}
        d.update({c: property(_raiser(c)) for c in absent_cols})
        return type('PropertyRow', (Row,), d)()
    if provider == 'getattr':
        return GetattrRow(present)
    if provider == 'slots' and all(c.isidentifier() and not c.startswith('__') for c in list(present) + absent_cols):
        class SlotBase:
            __slots__ = ()

            def __repr__(self):
                return 'SlotRow(%r)' % ([(k, getattr(self, k)) for k in self.__slots__ if hasattr(self, k)],)
        row = type('SlotRow', (SlotBase,), {'__slots__': tuple(sorted(list(present) + absent_cols))})()
        for c, v in present.items():
            setattr(row, c, v)
        return row
    row = Row()
    for c, v in present.items():
        setattr(row, c, v)
    return row


_TEMPLATES = {}


def wide_source(case):
    attrs = ''.join(' ' + o for o in case['opts'])
    if case['container'] == 'mapping':
        attrs = ' mapping' + attrs
    body = '<dtml-call "rec(_)">'
    if case['when'] == 'end':
        body = '<dtml-if sequence-end>%s</dtml-if>' % body
    return '<dtml-in %s%s>%s</dtml-in>' % ('expr="L"' if case.get('by_expr') else 'L', attrs, body)


def raw_values(case, i):
    return case['values'] if i == 0 else case['second']['values']


def column_values(case, i):
    """the x values of the sequence as the property counts them: an item without x contributes no value"""
    vals = raw_values(case, i)
    ab = case.get('absent')
    if ab:
        return [None if ab[i][j] else v for j, v in enumerate(vals)]
    return vals


def observe_wide(case, fresh=False):
    """-> {'src', 'rounds': [ {(stat, col): [values read]} per time the variables were read ], 'rows_after'} or
    {'exc'}.  The compiled template is shared by all cases with the same source (fresh=True: a new one)."""
    from DocumentTemplate import HTML
    cols = [case['name']] + ([case['second']['name']] if case['second'] else [])
    n = len(case['values'])
    if case['container'] == 'plain':
        L = list(case['values'])
    else:
        L = []
        ab = case.get('absent')
        prov = case.get('providers')
        for j in range(n):
            present = {c: raw_values(case, i)[j] for i, c in enumerate(cols) if not (ab and ab[i][j])}
            L.append(make_row(case['container'], prov[j] if prov else None, present,
                              [c for c in cols if c not in present]))
    before = repr(L)
    rounds = []

    def rec(md):
        if case['when'] == 'first' and rounds:
            return ''
        got = {}
        for s, i, via in case['reads']:
            key = '%s-%s' % (s, cols[i])
            if via:
                key = via + '_' + key.replace('-', '_')
            try:
                v = md.getitem(key, 0)
            except KeyError:
                v = 'KEYERROR'
            got.setdefault((s, i), []).append(v)
        rounds.append(got)
        return ''
    src = wide_source(case)
    try:
        t = None if fresh else _TEMPLATES.get(src)
        if t is None:
            t = HTML(src)
            if not fresh:
                _TEMPLATES[src] = t
        t(L=L, rec=rec)
    except Exception as e:  # noqa
        return {'exc': type(e).__name__ + ': ' + str(e)[:80], 'src': src}
    return {'src': src, 'rounds': rounds, 'rows_changed': repr(L) != before}


def same(a, b):
    return type(a) is type(b) and (a == b or (a != a and b != b))


def oracle_wide(case, obs):
    """every reading of every column against the independently computed statistics of the WHOLE column (the
    statistics are summaries of the sequence: order, batch window, prefix ... do not enter)"""
    if 'exc' in obs:
        return ['rendering raised ' + obs['exc']]
    bad = []
    if obs['rows_changed']:
        bad.append("the caller's rows were changed by the rendering")
    if not obs['rounds']:
        bad.append('the loop body was never rendered')
    cols = [case['name']] + ([case['second']['name']] if case['second'] else [])
    seen = set()
    for rno, got in enumerate(obs['rounds']):
        for i, c in enumerate(cols):
            flat = {}
            for s in STATS:
                vs = got.get((s, i), ['KEYERROR'])
                flat[s] = vs[0]
                if any(not same(v, vs[0]) for v in vs[1:]):
                    bad.append('%s-%s read again in the same iteration (dashed / prefixed spelling): %r'
                               % (s, c, vs))
            key = (i, repr(sorted(flat.items())))
            if key in seen:
                continue
            seen.add(key)
            for f in oracle(column_values(case, i), flat):
                bad.append('column %r (reading %d): %s' % (c, rno, f))
    return bad


def flat_obs(case, obs):
    """first reading of the first column in the classic shape (for the correspondence with the model)"""
    if 'exc' in obs or not obs['rounds']:
        return {'exc': obs.get('exc', 'no reading')}
    return {s: obs['rounds'][0].get((s, 0), ['KEYERROR'])[0] for s in STATS}


def nums0(case):
    return [v for v in column_values(case, 0) if v is not None]


def wide_left_out(case):
    return ill_conditioned(case['values']) or (case['second'] is not None and
                                               ill_conditioned(case['second']['values']))


def stats_request(vals):
    items = []
    for v in vals:
        if v is None:
            items.append(None)
        else:
            f = Fraction(v)
            items.append([f.numerator, f.denominator])
    return {'op': 'stats', 'items': items, 'isInt': all(isinstance(v, int) for v in vals if v is not None)}


def case_json(case):
    return {k: case.get(k) for k in ('kind', 'values', 'container', 'name', 'second', 'opts', 'by_expr', 'when',
                                     'reads', 'providers', 'absent')}


def run(res, tier, have_driver):
    r = common.rng('C16')
    res.rule = ('(a) classic: lists of 1..10 ints, floats, strings with None mixed in (homogeneous otherwise, as the '
                'documentation defines), as object attributes, mapping values and plain items; the ten stat-x '
                'variables read on the last element.  (b) wide: the summarised column is called x / age / a key '
                'that is no identifier / any word the sequence machinery uses itself (number, odd, roman, index, '
                'first, count, ... and every public attribute of the variables class); values of ordinary '
                'magnitude, int/float mixes, one unit 1e-12 ... 1e12 per column, ints up to 1e12, columns of None '
                'only (count 0, nothing else defined); the whole range of the number types: floats 1e150 ... 1e300 '
                'and 1e-150 ... 1e-300 alone and mixed with ordinary ones, ints up to 1e140 (variance / standard '
                'deviation judged iff the sum of squares lies in 1e-280 ... 1e300, everything else always); rows '
                'of every kind in one sequence (dict, dict subclass, UserDict, ChainMap; instance attribute, class '
                'attribute, property, __getattr__, __slots__); items that do not have the variable at all (no key '
                '/ no attribute / property raising AttributeError) at any position: they contribute no value, '
                'exactly like None; in 40 % a second '
                'column (own name, own kind) summarised in the same rendering, readings of both interleaved in '
                'random order and some asked again; dtml-in options reverse, sort, sort_expr, reverse_expr, '
                'prefix (variables then also read as prefix_stat_name), size/start/orphan/overlap (batch '
                'renderer), expr=, skip_unauthorized, no_push_item; '
                'variables read at sequence-end, in the first iteration or in every iteration; one compiled '
                'template per source text shared by all cases; caller rows compared before/after.  Expected '
                'values: statistics/fractions on the whole column; tolerances relative to the data only '
                '(1e-13 of sum|x| resp. of the second moment, min/max/middle value exact).  Left out on the input '
                'alone: columns whose variance is below 1e-11 of the second moment (rounding noise of the '
                'one-pass formula), hyphenated column names, column `index` next to a column named like an '
                'attribute of the variables object.  non-trivial = distinct numeric list with >= 2 values')
    n = 1500 if tier == 'quick' else 40000
    cases, obss, reqs = [], [], []
    for _ in range(n):
        kind, vals = gen_values(r)
        container = r.choice(['obj', 'mapping', 'plain'])
        if container == 'plain' and any(v is None for v in vals):
            container = 'obj'
        if ill_conditioned(vals):
            res.count('left-out=ill-conditioned')
            continue
        obs = observe(vals, container)
        cases.append((kind, vals, container))
        obss.append(obs)
        res.evaluations += 1
        res.count('kind=' + kind)
        res.count('container=' + container)
        for f in oracle(vals, obs):
            res.oracle_fail.append({'case': {'values': vals, 'container': container}, 'what': f,
                                    'obs': {k: repr(v) for k, v in obs.items()}})
        nums = [v for v in vals if v is not None]
        if kind != 'str' and len(nums) >= 2:
            res.nt(json.dumps(vals))
        if kind != 'str':
            reqs.append((len(cases) - 1, stats_request(vals)))
    for i in (0, 3, len(cases) // 2, len(cases) - 1):
        res.sample({'values': cases[i][1], 'container': cases[i][2],
                    'observation': {k: repr(v) for k, v in obss[i].items()}})

    # (b) wide
    rw = common.rng('C16-wide')
    names = machinery_names()
    nw = 3500 if tier == 'quick' else 60000
    wide = 0
    for _ in range(nw):
        case = gen_wide(rw, names)
        if wide_left_out(case):
            res.count('left-out=ill-conditioned')
            continue
        obs = observe_wide(case)
        wide += 1
        res.evaluations += 1
        res.count('wide kind=' + case['kind'])
        res.count('wide container=' + case['container'])
        res.count('wide name=' + ('machinery' if case['name'] in names else
                                  'plain' if case['name'].isidentifier() else 'non-identifier key'))
        res.count('wide when=' + case['when'])
        res.count('wide columns=%d' % (2 if case['second'] else 1))
        for o in case['opts']:
            res.count('wide opt=' + o.split('=')[0])
        if any(via for _, _, via in case['reads']):
            res.count('wide read as prefix_stat_name')
        if not nums0(case):
            res.count('wide column of None only')
        if not case['opts']:
            res.count('wide opt=none')
        for f in oracle_wide(case, obs):
            res.oracle_fail.append({'case': case_json(case), 'what': f,
                                    'obs': {'src': obs.get('src'),
                                            'first': {k: repr(v) for k, v in flat_obs(case, obs).items()}}})
        nums = nums0(case)
        if case.get('providers'):
            res.count('wide rows of other kinds (dict subclass, UserDict, ChainMap / class attribute, property, '
                      '__getattr__, slots)')
        if case.get('absent'):
            res.count('wide items without the variable')
            if any(a and any(v is not None for v in column_values(case, 0)[j + 1:])
                   for j, a in enumerate(case['absent'][0])):
                res.count('wide item without the variable followed by items with a value')
        if case['kind'] in EXTREME_KINDS and nums and not squares_are_floats([Fraction(v) for v in nums]):
            res.count('wide column whose sum of squares is no float (variance not judged)')
        if case['kind'] != 'str' and len(nums) >= 2:
            res.nt(json.dumps([case['name'], column_values(case, 0)]))
        if wide in (1, 7, 40):
            res.sample({'wide': case_json(case), 'src': obs.get('src'),
                        'observation': {k: repr(v) for k, v in flat_obs(case, obs).items()}}, cap=8)
        if case['kind'] != 'str' and nums:
            cases.append((case['kind'], column_values(case, 0), 'wide:' + obs.get('src', '')))
            obss.append(flat_obs(case, obs))
            reqs.append((len(cases) - 1, stats_request(column_values(case, 0))))
    res.extra['wide_cases'] = wide
    res.extra['compiled_templates_shared'] = len(_TEMPLATES)

    if have_driver:
        resp = common.run_driver([q for _, q in reqs])
        for (i, q), rp in zip(reqs, resp):
            if 'ok' not in rp:
                res.harness_errors.append('driver: %r' % (rp,))
                break
            m = rp['ok']
            obs = obss[i]
            if 'exc' in obs:
                continue
            res.corr_checked += 1

            def fr(x):
                return None if x is None else Fraction(x[0], x[1])
            raw = [v for v in cases[i][1] if v is not None]
            nums = [Fraction(v) for v in raw]
            mag = sum(abs(x) for x in nums)
            homogeneous = len({type(v) for v in raw}) == 1
            d = []
            if obs['count'] != m['count']:
                d.append('count')
            for key, scale in (('total', mag), ('mean', mag / len(nums)), ('min', 0), ('max', 0),
                               ('median', mag if len(nums) % 2 == 0 else 0)):
                if key == 'median' and not homogeneous and len(nums) % 2 == 0:
                    # int/float mix: whether the library halves with // or / depends on the two middle values,
                    # the model decides per column; `between the two middle values` is checked by the oracle
                    continue
                if fr(m[key]) is None or not close(obs[key], fr(m[key]), scale):
                    d.append('%s impl %r model %s' % (key, obs[key], fr(m[key])))
            judged = squares_are_floats(nums)
            if judged and not close_var(obs['variance-n'], fr(m['varN']), nums):
                d.append('variance-n impl %r model %s' % (obs['variance-n'], fr(m['varN'])))
            if judged and m['var'] is not None and not close_var(obs['variance'], fr(m['var']), nums, 2):
                d.append('variance impl %r model %s' % (obs['variance'], fr(m['var'])))
            if m['var'] is None and obs['variance'] != '':
                d.append('variance defined for one value')
            if d:
                res.corr_mismatch.append({'case': {'values': cases[i][1], 'container': cases[i][2]},
                                          'impl': {k: repr(v) for k, v in obs.items()}, 'model': m, 'diff': d})
    res.partial.append('floating-point rounding and math.sqrt are runtime: floats enter the model as the rationals '
                       'they denote and are compared within a tolerance relative to the data (1e-13 of sum|x| / of '
                       'the second moment); standard deviations are specified as the non-negative square roots of '
                       'the (proved) variances and checked numerically; columns whose variance is below the '
                       'rounding noise of the one-pass formula are left out (the library fails on some of them)')
    res.assumptions += ['Python float arithmetic and math.sqrt (external); string statistics are checked by the '
                        'oracle only']


def search_more(res, tier):
    r = common.rng('C16-more')
    found = []
    for _ in range(3000):
        kind, vals = gen_values(r)
        if ill_conditioned(vals):
            continue
        obs = observe(vals, 'obj')
        for f in oracle(vals, obs):
            found.append({'case': {'values': vals, 'container': 'obj'}, 'what': f})
        if len(found) > 3:
            break
    names = machinery_names()
    for _ in range(6000):
        if len(found) > 3:
            break
        case = gen_wide(r, names)
        if wide_left_out(case):
            continue
        for f in oracle_wide(case, observe_wide(case)):
            found.append({'case': case_json(case), 'what': f})
    return found


def replay(path):
    with open(path) as f:
        d = json.load(f)
    c = d['first']['case']
    if 'reads' in c:
        # wide case; replayed on a fresh template (the shared one is a history of the whole run)
        obs = observe_wide(c, fresh=True)
        bad = oracle_wide(c, obs)
    else:
        obs = observe(c['values'], c['container'])
        bad = oracle(c['values'], obs)
    print(obs, bad)
    return 1 if bad else 0
