"""C16 — summary statistics inside dtml-in equal independently computed values.

Correspondence: Lean `Stats.pass / mean / varianceN / variance / median` over exact rationals vs the
ten `stat-x` variables of the real tag.  Oracle: `statistics` / `fractions` from the standard library.
"""
import json
import math
import statistics
from fractions import Fraction

import common

STATS = ['total', 'count', 'min', 'max', 'median', 'mean', 'variance', 'variance-n', 'standard-deviation',
         'standard-deviation-n']


class Obj:
    def __init__(self, x):
        self.x = x


def observe(values, container, name='x'):
    from DocumentTemplate import HTML
    got = {}

    def rec(md):
        for s in STATS:
            try:
                got[s] = md.getitem('%s-%s' % (s, name), 0)
            except KeyError:
                got[s] = 'KEYERROR'
        return ''
    if container == 'obj':
        L = [Obj(v) for v in values]
        attrs = ''
    elif container == 'mapping':
        L = [{'x': v} for v in values]
        attrs = ' mapping'
    else:
        L = list(values)
        attrs = ''
        name = 'item'
    src = '<dtml-in L%s><dtml-if sequence-end><dtml-call "rec(_)"></dtml-if></dtml-in>' % attrs
    # closure over name for plain items
    def rec2(md, name=name):
        for s in STATS:
            try:
                got[s] = md.getitem('%s-%s' % (s, name), 0)
            except KeyError:
                got[s] = 'KEYERROR'
        return ''
    try:
        HTML(src)(L=L, rec=rec2)
    except Exception as e:  # noqa
        return {'exc': type(e).__name__ + ': ' + str(e)[:80], 'src': src}
    got['src'] = src
    return got


def frac(v):
    return Fraction(v)


def close(a, b):
    """impl number a vs exact Fraction b"""
    if a == '' or a == 'KEYERROR' or a is None:
        return False
    try:
        fa = Fraction(a)
    except Exception:
        return False
    if fa == b:
        return True
    scale = max(abs(b), abs(fa), Fraction(1, 10 ** 6))
    return abs(fa - b) <= scale * Fraction(1, 10 ** 9)


def oracle(values, obs):
    bad = []
    if 'exc' in obs:
        return ['rendering raised ' + obs['exc']]
    nums = [v for v in values if v is not None]
    if not nums:
        return bad
    if all(isinstance(v, str) for v in nums):
        # non-numeric: count, min, max and median only
        if obs['count'] != len(nums):
            bad.append('count %r != %d' % (obs['count'], len(nums)))
        if obs['min'] != min(nums) or obs['max'] != max(nums):
            bad.append('min/max %r %r' % (obs['min'], obs['max']))
        s = sorted(nums)
        n = len(s)
        if n % 2 == 1:
            if obs['median'] != s[n // 2]:
                bad.append('median %r != %r' % (obs['median'], s[n // 2]))
        else:
            m = obs['median']
            if not (isinstance(m, str) and s[n // 2] in m and s[n // 2 - 1] in m):
                bad.append('median of strings %r does not name %r and %r' % (m, s[n // 2 - 1], s[n // 2]))
        for k in ('total', 'mean', 'variance', 'variance-n', 'standard-deviation', 'standard-deviation-n'):
            if obs[k] != '':
                bad.append('%s defined for non-numeric data: %r' % (k, obs[k]))
        return bad
    fr = [frac(v) for v in nums]
    n = len(fr)
    if obs['count'] != n:
        bad.append('count %r != %d' % (obs['count'], n))
    if not close(obs['total'], sum(fr)):
        bad.append('total %r != %s' % (obs['total'], sum(fr)))
    if not close(obs['min'], min(fr)) or not close(obs['max'], max(fr)):
        bad.append('min/max %r %r' % (obs['min'], obs['max']))
    mean = sum(fr) / n
    if not close(obs['mean'], mean):
        bad.append('mean %r != %s' % (obs['mean'], mean))
    pvar = statistics.pvariance(fr)
    if not close_var(obs['variance-n'], pvar, fr):
        bad.append('variance-n %r != %s' % (obs['variance-n'], pvar))
    if not close_sd(obs['standard-deviation-n'], pvar, fr):
        bad.append('standard-deviation-n %r != sqrt(%s)' % (obs['standard-deviation-n'], pvar))
    if n > 1:
        var = statistics.variance(fr)
        if not close_var(obs['variance'], var, fr):
            bad.append('variance %r != %s' % (obs['variance'], var))
        if not close_sd(obs['standard-deviation'], var, fr):
            bad.append('standard-deviation %r != sqrt(%s)' % (obs['standard-deviation'], var))
    else:
        if obs['variance'] != '' or obs['standard-deviation'] != '':
            bad.append('sample variance of one value: %r' % (obs['variance'],))
    s = sorted(fr)
    m = obs['median']
    if n % 2 == 1:
        if not close(m, s[n // 2]):
            bad.append('median %r != %s' % (m, s[n // 2]))
    else:
        lo, hi = s[n // 2 - 1], s[n // 2]
        try:
            fm = Fraction(m)
            if not (lo <= fm <= hi):
                bad.append('median %r not between %s and %s' % (m, lo, hi))
        except Exception:
            bad.append('median %r not a number' % (m,))
    return bad


def close_var(a, b, fr):
    # one-pass formula loses precision for floats: tolerance relative to the second moment
    try:
        fa = Fraction(a)
    except Exception:
        return False
    scale = max(sum(x * x for x in fr) / len(fr), Fraction(1, 10 ** 6))
    return abs(fa - b) <= scale * Fraction(1, 10 ** 8)


def close_sd(a, var, fr):
    try:
        fa = float(a)
    except Exception:
        return False
    scale = max(float(sum(x * x for x in fr) / len(fr)), 1e-6)
    return abs(fa * fa - float(var)) <= scale * 1e-7


def gen_values(r):
    kind = r.choice(['int', 'int', 'float', 'float', 'str', 'smallint'])
    n = r.randint(1, 10)
    vals = []
    for _ in range(n):
        if r.random() < 0.15:
            vals.append(None)
        elif kind == 'int':
            vals.append(r.choice([0, 0, r.randint(-50, 1000), r.randint(-50, 1000)]))
        elif kind == 'smallint':
            vals.append(r.randint(0, 3))
        elif kind == 'float':
            vals.append(r.choice([0.5, 0.6, 1.25, 2.5, -3.75, 100.125, 0.1, 7.0, 0.0, -0.5]) * r.choice([1, 1, 3, 0.5]))
        else:
            vals.append(r.choice(['apple', 'banana', 'cherry', 'date', 'egg', '', '', '0', ' ']))
    if all(v is None for v in vals):
        vals.append(3 if kind != 'str' else 'x')
    return kind, vals


def run(res, tier, have_driver):
    r = common.rng('C16')
    res.rule = ('lists of 1..10 ints, floats, strings with None mixed in (homogeneous otherwise, as the documentation '
                'defines), as object attributes, mapping values and plain items; the ten stat-x variables read on the '
                'last element; non-trivial = distinct numeric list with >= 2 values')
    n = 1500 if tier == 'quick' else 40000
    cases, obss, reqs = [], [], []
    for _ in range(n):
        kind, vals = gen_values(r)
        container = r.choice(['obj', 'mapping', 'plain'])
        if container == 'plain' and any(v is None for v in vals):
            container = 'obj'
        obs = observe(vals, container)
        cases.append((kind, vals, container))
        obss.append(obs)
        res.evaluations += 1
        res.count('kind=' + kind)
        res.count('container=' + container)
        for f in oracle(vals, obs):
            res.oracle_fail.append({'case': {'values': vals, 'container': container}, 'what': f,
                                    'obs': {k: repr(v) for k, v in obs.items()}})
        nums = [v for v in vals if v is not None]
        if kind != 'str' and len(nums) >= 2:
            res.nt(json.dumps(vals))
        if kind != 'str':
            items = []
            for v in vals:
                if v is None:
                    items.append(None)
                else:
                    f = Fraction(v)
                    items.append([f.numerator, f.denominator])
            reqs.append((len(cases) - 1, {'op': 'stats', 'items': items,
                                          'isInt': all(isinstance(v, int) for v in nums)}))
    for i in (0, 3, len(cases) // 2, len(cases) - 1):
        res.sample({'values': cases[i][1], 'container': cases[i][2],
                    'observation': {k: repr(v) for k, v in obss[i].items()}})
    if have_driver:
        resp = common.run_driver([q for _, q in reqs])
        for (i, q), rp in zip(reqs, resp):
            if 'ok' not in rp:
                res.harness_errors.append('driver: %r' % (rp,))
                break
            m = rp['ok']
            obs = obss[i]
            if 'exc' in obs:
                continue
            res.corr_checked += 1

            def fr(x):
                return None if x is None else Fraction(x[0], x[1])
            nums = [Fraction(v) for v in cases[i][1] if v is not None]
            d = []
            if obs['count'] != m['count']:
                d.append('count')
            for key, mk, tol in (('total', 'total', close), ('mean', 'mean', close), ('min', 'min', close),
                                 ('max', 'max', close), ('median', 'median', close)):
                if fr(m[mk]) is None or not tol(obs[key], fr(m[mk])):
                    d.append('%s impl %r model %s' % (key, obs[key], fr(m[mk])))
            if not close_var(obs['variance-n'], fr(m['varN']), nums):
                d.append('variance-n impl %r model %s' % (obs['variance-n'], fr(m['varN'])))
            if m['var'] is not None and not close_var(obs['variance'], fr(m['var']), nums):
                d.append('variance impl %r model %s' % (obs['variance'], fr(m['var'])))
            if m['var'] is None and obs['variance'] != '':
                d.append('variance defined for one value')
            if d:
                res.corr_mismatch.append({'case': {'values': cases[i][1], 'container': cases[i][2]},
                                          'impl': {k: repr(v) for k, v in obs.items()}, 'model': m, 'diff': d})
    res.partial.append('floating-point rounding and math.sqrt are runtime: floats enter the model as the rationals '
                       'they denote and are compared within a relative tolerance; standard deviations are specified '
                       'as the non-negative square roots of the (proved) variances and checked numerically')
    res.assumptions += ['Python float arithmetic and math.sqrt (external); string statistics are checked by the '
                        'oracle only']


def search_more(res, tier):
    r = common.rng('C16-more')
    found = []
    for _ in range(3000):
        kind, vals = gen_values(r)
        obs = observe(vals, 'obj')
        for f in oracle(vals, obs):
            found.append({'case': {'values': vals, 'container': 'obj'}, 'what': f})
        if len(found) > 3:
            break
    return found


def replay(path):
    with open(path) as f:
        d = json.load(f)
    c = d['first']['case']
    obs = observe(c['values'], c['container'])
    bad = oracle(c['values'], obs)
    print(obs, bad)
    return 1 if bad else 0
