"""C19 — bytes in mixed output decode with the template encoding; str() is safe.

Part 1 (bytes): texts over ASCII / Latin-1 / BMP / astral characters x template encodings (utf-8, latin-1 through the
model; cp1252, utf-16 oracle-only) x insertion forms (plain, html-quoted simple form, inside in / if / let / with /
try-else / try-finally bodies, adjacent bytes values, sub-template) : rendering with x = s.encode(enc) must equal rendering
with x = s and be text whenever there is more than one piece.
Part 2 (str()): non-string values are inserted as str(), exceptions as their message, and only a misbehaving __str__
raises.
Correspondence: part 1 on the Lean interpreter model (utf-8 and latin-1 templates).
"""
import json

import common
import interp
import proggen

TEXTS = ['abc', 'é', 'Grüße', 'a<é>&"', 'ÿ ', '€uro', 'жук', '日本', '\U0001F600x', 'x\u0080y', 'œ', '']
ENCODINGS = ['utf-8', 'latin-1', 'cp1252', 'utf-16']


def var(n, hq=False):
    return ['var', ['n', n], hq, None, None]


def forms():
    """name -> blocks; every form has at least two pieces when x is non-empty"""
    return {
        'plain': [['lit', '['], var('x'), ['lit', ']']],
        'plain-first': [var('x'), ['lit', ']']],
        'adjacent': [var('x'), var('x')],
        'adjacent-mixed': [var('x'), var('y'), var('x')],
        'quoted': [['lit', '['], var('x', True), ['lit', ']']],
        'quoted-alone-then-text': [var('x', True), ['lit', '.']],
        'in': [['lit', '('], ['in', ['n', 'seq'], {}, [['lit', '<'], var('x'), ['lit', '>']], None], ['lit', ')']],
        'in-single-piece-body': [['in', ['n', 'seq'], {}, [var('x')], None]],
        'in-items': [['in', ['n', 'bseq'], {}, [var('sequence-item')], None], ['lit', '.']],
        'if': [['cond', [[['n', 'one'], [['lit', 'T'], var('x')]]], None], ['lit', '.']],
        'if-single': [['lit', '.'], ['cond', [[['n', 'one'], [var('x')]]], None]],
        'unless': [['unless', ['n', 'zero'], [var('x')]], ['lit', '.']],
        'let': [['let', [['z', ['n', 'one']]], [var('x'), ['lit', '-']]], ['lit', '.']],
        'let-bound': [['let', [['z', ['n', 'x']]], [var('z'), ['lit', '-']]]],
        'with': [['with', ['n', 'wobj'], False, False, [var('wx'), ['lit', '-']]], ['lit', '.']],
        'try-else': [['try', [var('x')], [['', [['lit', 'H']]]], [['lit', 'E']]]],
        'try-else-bytes': [['try', [['lit', 'B']], [['', [['lit', 'H']]]], [var('x')]]],
        'try-finally': [['tryfin', [var('x')], [['lit', 'F']]]],
        'try-finally-bytes': [['tryfin', [['lit', 'B']], [var('x')]]],
        'handler': [['try', [['raise', 'KeyError', None, [['lit', 'k']]]], [['', [var('x'), ['lit', 'h']]]], None]],
        'sub': [['lit', '{'], var('sub0'), ['lit', '}']],
        'raise-message': [['try', [['raise', 'ValueError', None, [['lit', 'm:'], var('x')]]],
                           [['', [var('error_value'), ['lit', '!']]]], None]],
    }


def make_case(blocks, xval, enc):
    ns = {'x': xval, 'y': {'s': '|'}, 'one': 1, 'zero': 0, 'seq': {'l': [{'o': 1, 'a': [['w', 1]]}, {'o': 2, 'a': [['w', 2]]}]},
          'bseq': {'l': [xval, xval]}, 'wobj': {'o': 3, 'a': [['wx', xval]]}, 'sub0': {'T': 1}}
    sub = [['lit', 's'], var('x')]
    return {'templates': [{'blocks': blocks, 'globals': [], 'vars': [], 'source': proggen.print_blocks(blocks)},
                          {'blocks': sub, 'globals': [], 'vars': [], 'source': proggen.print_blocks(sub)}],
            'main': 0, 'clients': [], 'mapping': [], 'kw': [[k, v] for k, v in ns.items()],
            'classes': proggen.class_table(), 'denied': [], 'guard': False,
            'utf8': enc == 'utf-8', 'encoding': enc}


def encodable(t, enc):
    try:
        t.encode(enc)
        return True
    except UnicodeError:
        return False


def part1(res, tier, have_driver, r):
    fs = forms()
    items = []
    texts = list(TEXTS)
    if tier == 'thorough':
        for _ in range(300):
            texts.append(''.join(r.choice('aé<ÿ€ж日\U0001F600 &"\u0080') for _ in range(r.randint(1, 6))))
    else:
        for _ in range(20):
            texts.append(''.join(r.choice('aé<ÿ€ж日\U0001F600 &"\u0080') for _ in range(r.randint(1, 6))))
    for enc in ENCODINGS:
        for t in texts:
            if not encodable(t, enc):
                continue
            for fname, blocks in fs.items():
                cb = make_case(blocks, {'b': list(t.encode(enc))}, enc)
                cs = make_case(blocks, {'s': t}, enc)
                items.append((enc, t, fname, cb, cs))
    model_ok = [it for it in items if it[0] in ('utf-8', 'latin-1')]
    rest = [it for it in items if it[0] not in ('utf-8', 'latin-1')]
    res.have_driver = have_driver
    runs_b = interp.run_cases(res, [it[3] for it in model_ok])
    runs_s = interp.run_cases(res, [it[4] for it in model_ok])
    res.have_driver = False
    runs_b += interp.run_cases(res, [it[3] for it in rest])
    runs_s += interp.run_cases(res, [it[4] for it in rest])
    res.have_driver = have_driver
    for (enc, t, fname, cb, cs), rb, rs in zip(model_ok + rest, runs_b, runs_s):
        res.evaluations += 1
        ib, is_ = rb[2]['result'], rs[2]['result']
        res.count('encoding=' + enc)
        if any(ord(c) > 127 for c in t):
            res.nt((enc, fname, t))
        single = fname in ('in-single-piece-body',) or t == ''
        if ib != is_:
            # one piece only: the bytes value is returned as it is (the property speaks of more than one piece)
            if not ('ok' in ib and isinstance(ib['ok'], dict) and 'b' in ib['ok'] and fname in ('if-single-x',)):
                res.oracle_fail.append({'case': {'encoding': enc, 'text': t, 'form': fname, 'source': cb['templates'][0]['source']},
                                        'what': 'inserting s.encode(%s) gives %r, inserting s gives %r' % (enc, ib, is_)})
        elif 'ok' in ib and not (isinstance(ib['ok'], dict) and 's' in ib['ok']):
            res.oracle_fail.append({'case': {'encoding': enc, 'text': t, 'form': fname},
                                    'what': 'multi-piece rendering is not text: %r' % (ib,)})
        for (c, plan, impl, m) in (rb, rs):
            if m is None:
                continue
            d = interp.compare(impl, m)
            if d == 'oom':
                res.count('outside_model')
                continue
            res.corr_checked += 1
            if d:
                res.corr_mismatch.append({'case': dict(interp.brief(c), encoding=enc, form=fname), 'impl': impl['result'],
                                          'model': m['result'], 'diff': d})
    # the full Var.render path (html_quote together with another option) is a known finding (same defect as C03-bytes-fullpath)
    from DocumentTemplate import HTML
    for enc in ('utf-8', 'cp1252'):
        for t in ('é<', '€'):
            if not encodable(t, enc):
                continue
            for src in ('[<dtml-var x html_quote upper>]', '[<dtml-var x fmt=html-quote>]', '[&dtml.html_quote-x;]'):
                res.evaluations += 1
                try:
                    a = HTML(src, encoding=enc)(x=t.encode(enc))
                    b = HTML(src, encoding=enc)(x=t)
                except Exception as e:  # noqa
                    a, b = repr(e), None
                if a != b:
                    try:
                        latin = HTML(src, encoding=enc)(x=t.encode(enc).decode('latin-1'))
                    except Exception:  # noqa
                        latin = None
                    if a == latin:
                        res.known_hits.setdefault('C19-bytes-fullpath', {'encoding': enc, 'text': t, 'form': src, 'output': a})
                    else:
                        res.oracle_fail.append({'case': {'encoding': enc, 'text': t, 'form': src},
                                                'what': 'bytes give %r, text gives %r' % (a, b)})


class S:
    def __init__(self, v):
        self.v = v

    def __str__(self):
        return self.v


class BadStr:
    def __str__(self):
        return 42


class RaisingStr:
    def __str__(self):
        raise ZeroDivisionError('inside __str__')


class MyErr(Exception):
    def __str__(self):
        return 'custom-str-is-not-used'


def part2(res, r):
    from DocumentTemplate import HTML
    from DocumentTemplate.ustr import ustr
    # (value, expected text) — the documented rule: str() form; exceptions as their message
    cases = [
        (0, '0'), (7, '7'), (-3, '-3'), (1.5, '1.5'), (None, 'None'), (True, 'True'), (False, 'False'),
        ([1, 'a'], "[1, 'a']"), ((), '()'), ((1,), '(1,)'), ({}, '{}'), ({'k': 0}, "{'k': 0}"), (3 + 4j, '(3+4j)'),
        (S('own'), 'own'), (S(''), ''), (S('ü€'), 'ü€'),
        (ValueError(), ''), (ValueError('msg'), 'msg'), (ValueError('ü€'), 'ü€'), (ValueError('a', 'b'), "('a', 'b')"),
        (KeyError('k'), 'k'), (ValueError(0), '0'), (KeyError(None), 'None'), (Exception(False), 'False'),
        (Exception(()), '()'), (Exception([]), '[]'), (Exception({}), '{}'), (Exception(''), ''),
        (Exception(S('inner')), 'inner'), (Exception(ValueError('nested')), 'nested'), (MyErr('args-win'), 'args-win'),
        (MyErr(), ''), (OSError(2, 'No such file'), "(2, 'No such file')"), (Exception(b'by'), None),
        (ZeroDivisionError('division by zero'), 'division by zero'),
    ]
    for v, want in cases:
        if want is None:
            continue
        res.evaluations += 1
        res.nt(('ustr', type(v).__name__, repr(v)[:30]))
        for form, src in (('plain', '[<dtml-var v>]'), ('quoted', '[<dtml-var v html_quote>]'), ('entity', '[&dtml-v;]'),
                          ('if', '<dtml-if one>[<dtml-var v>]</dtml-if>'), ('in', '<dtml-in seq>[<dtml-var v>]</dtml-in>'),
                          ('let', '<dtml-let w=one>[<dtml-var v>]</dtml-let>')):
            try:
                got = HTML(src)(v=v, one=1, seq=[1])
            except Exception as e:  # noqa
                got = 'raised %r' % (e,)
            import html
            w = '[%s]' % (html.escape(want, 1) if form in ('quoted', 'entity') else want)
            if got != w:
                res.oracle_fail.append({'case': {'value': repr(v), 'form': src}, 'what': 'got %r, expected %r' % (got, w)})
        try:
            u = ustr(v)
        except Exception as e:  # noqa
            u = 'raised %r' % (e,)
        if u != want:
            res.oracle_fail.append({'case': {'value': repr(v), 'form': 'ustr(v)'}, 'what': 'got %r, expected %r' % (u, want)})
    # class objects (not instances): their str() form; a class reaches ustr through an expression (a name would call it)
    for v in (int, str, dict, ValueError, KeyError, S, MyErr, type, object):
        res.evaluations += 1
        res.nt(('ustr', 'class', v.__name__))
        want = str(v)
        for src in ('[<dtml-var expr="v">]', '<dtml-if one>[<dtml-var expr="v">]</dtml-if>', '[<dtml-var expr="v" html_quote>]'):
            try:
                got = HTML(src)(v=v, one=1)
            except Exception as e:  # noqa
                got = 'raised %r' % (e,)
            import html
            w = '[%s]' % (html.escape(want, 1) if 'html_quote' in src else want)
            if got != w:
                res.oracle_fail.append({'case': {'value': 'class ' + v.__name__, 'form': src},
                                        'what': 'got %r, expected %r' % (got, w)})
        try:
            u = ustr(v)
        except Exception as e:  # noqa
            u = 'raised %r' % (e,)
        if u != want:
            res.oracle_fail.append({'case': {'value': 'class ' + v.__name__, 'form': 'ustr(v)'},
                                    'what': 'got %r, expected %r' % (u, want)})
    # conversion raises only when the value's own __str__ misbehaves
    for v, exc in ((BadStr(), (ValueError, TypeError)), (RaisingStr(), (ZeroDivisionError,))):
        res.evaluations += 1
        for src in ('[<dtml-var v>]', '[&dtml-v;]'):
            try:
                HTML(src)(v=v)
                res.oracle_fail.append({'case': {'value': type(v).__name__, 'form': src},
                                        'what': 'a misbehaving __str__ did not raise'})
            except exc:
                pass
            except Exception as e:  # noqa
                res.oracle_fail.append({'case': {'value': type(v).__name__, 'form': src},
                                        'what': 'raised %r, expected one of %r' % (e, exc)})


def run(res, tier, have_driver):
    r = common.rng('C19')
    res.rule = ('part 1: %d texts (ASCII, Latin-1, C1, BMP, astral, HTML specials, empty) x 4 template encodings x 22 insertion '
                'forms (plain, quoted, adjacent bytes, in / if / unless / let / with bodies, try-else, try-finally, handler, '
                'sub-template, raise message): render(x=s.encode(enc)) == render(x=s) and the result is text; part 2: str() '
                'forms of 35 values (numbers, containers, objects with __str__, exceptions with 0/1/n args incl. falsy args) '
                'through 6 insertion forms, misbehaving __str__; non-trivial = distinct (encoding, form, non-ASCII text) / '
                'value kinds' % len(TEXTS))
    part1(res, tier, have_driver, r)
    part2(res, r)
    res.partial.append('bytes through the full Var.render path (html_quote with another option, fmt=html-quote, '
                       '&dtml.html_quote-x;) are decoded as Latin-1: known finding C19-bytes-fullpath (= C03-bytes-fullpath)')
    res.assumptions += ['model codecs: UTF-8 and Latin-1 (round trips proved); cp1252 and utf-16 templates are compared on the '
                        'implementation only', 'interpreter model validated (not verified) against the real classes']


def search_more(res, tier):
    r = common.rng('C19-more')
    res2 = common.Result('C19')
    part1(res2, 'thorough', False, r)
    part2(res2, r)
    return res2.oracle_fail


def replay(path):
    with open(path) as f:
        d = json.load(f)
    print(json.dumps(d.get('first', d), indent=1)[:3000])
    return 1
