"""C19 — bytes in mixed output decode with the template encoding; str() is safe.

Part 1 (bytes): texts over ASCII / Latin-1 / BMP / astral characters x template encodings (utf-8, latin-1 through the
model; cp1252, utf-16 oracle-only) x insertion forms (plain, html-quoted simple form, inside in / if / let / with /
try-else / try-finally bodies, adjacent bytes values, sub-template) : rendering with x = s.encode(enc) must equal rendering
with x = s and be text whenever there is more than one piece.
Part 2 (str()): non-string values are inserted as str(), exceptions as their message, and only a misbehaving __str__
raises.
Part 3 (several templates in one process): one source text compiled under several encodings / classes, one after the
other, and rendered again with other data; one bytes object rendered by templates of different encodings.
Part 4 (histories of values): values that are equal but print differently, one after the other; values that change
between two renderings.  Expected outputs of parts 3 and 4 are literals built from the property, never a rendering.
Part 5 (several encodings in ONE rendering): a part created with encoding b looked up by name from a document created with
encoding a (top level, block bodies, expression call, two parts, three levels, HTML / subclass / String, passed as keyword /
mapping / client attribute / default), every template inserting bytes of its own encoding.
Part 6 (histories of one template object): created with an encoding, then munge / manage_edit / raw+cook with new, equal and
empty text, recompiled, given defaults, copied, pickled, rendered as a part - rendered with bytes and text after every step.
Correspondence: part 1 on the Lean interpreter model (utf-8 and latin-1 templates).
"""
import json

import common
import interp
import proggen

TEXTS = ['abc', 'é', 'Grüße', 'a<é>&"', 'ÿ ', '€uro', 'жук', '日本', '\U0001F600x', 'x\u0080y', 'œ', '']
ENCODINGS = ['utf-8', 'latin-1', 'cp1252', 'utf-16']


def var(n, hq=False):
    return ['var', ['n', n], hq, None, None]


def forms():
    """name -> blocks; every form has at least two pieces when x is non-empty"""
    return {
        'plain': [['lit', '['], var('x'), ['lit', ']']],
        'plain-first': [var('x'), ['lit', ']']],
        'adjacent': [var('x'), var('x')],
        'adjacent-mixed': [var('x'), var('y'), var('x')],
        'quoted': [['lit', '['], var('x', True), ['lit', ']']],
        'quoted-alone-then-text': [var('x', True), ['lit', '.']],
        'in': [['lit', '('], ['in', ['n', 'seq'], {}, [['lit', '<'], var('x'), ['lit', '>']], None], ['lit', ')']],
        'in-single-piece-body': [['in', ['n', 'seq'], {}, [var('x')], None]],
        'in-items': [['in', ['n', 'bseq'], {}, [var('sequence-item')], None], ['lit', '.']],
        'if': [['cond', [[['n', 'one'], [['lit', 'T'], var('x')]]], None], ['lit', '.']],
        'if-single': [['lit', '.'], ['cond', [[['n', 'one'], [var('x')]]], None]],
        'unless': [['unless', ['n', 'zero'], [var('x')]], ['lit', '.']],
        'let': [['let', [['z', ['n', 'one']]], [var('x'), ['lit', '-']]], ['lit', '.']],
        'let-bound': [['let', [['z', ['n', 'x']]], [var('z'), ['lit', '-']]]],
        'with': [['with', ['n', 'wobj'], False, False, [var('wx'), ['lit', '-']]], ['lit', '.']],
        'try-else': [['try', [var('x')], [['', [['lit', 'H']]]], [['lit', 'E']]]],
        'try-else-bytes': [['try', [['lit', 'B']], [['', [['lit', 'H']]]], [var('x')]]],
        'try-finally': [['tryfin', [var('x')], [['lit', 'F']]]],
        'try-finally-bytes': [['tryfin', [['lit', 'B']], [var('x')]]],
        'handler': [['try', [['raise', 'KeyError', None, [['lit', 'k']]]], [['', [var('x'), ['lit', 'h']]]], None]],
        'sub': [['lit', '{'], var('sub0'), ['lit', '}']],
        'raise-message': [['try', [['raise', 'ValueError', None, [['lit', 'm:'], var('x')]]],
                           [['', [var('error_value'), ['lit', '!']]]], None]],
    }


def make_case(blocks, xval, enc):
    ns = {'x': xval, 'y': {'s': '|'}, 'one': 1, 'zero': 0, 'seq': {'l': [{'o': 1, 'a': [['w', 1]]}, {'o': 2, 'a': [['w', 2]]}]},
          'bseq': {'l': [xval, xval]}, 'wobj': {'o': 3, 'a': [['wx', xval]]}, 'sub0': {'T': 1}}
    sub = [['lit', 's'], var('x')]
    return {'templates': [{'blocks': blocks, 'globals': [], 'vars': [], 'source': proggen.print_blocks(blocks)},
                          {'blocks': sub, 'globals': [], 'vars': [], 'source': proggen.print_blocks(sub)}],
            'main': 0, 'clients': [], 'mapping': [], 'kw': [[k, v] for k, v in ns.items()],
            'classes': proggen.class_table(), 'denied': [], 'guard': False,
            'utf8': enc == 'utf-8', 'encoding': enc}


def encodable(t, enc):
    try:
        t.encode(enc)
        return True
    except UnicodeError:
        return False


def part1(res, tier, have_driver, r):
    fs = forms()
    items = []
    texts = list(TEXTS)
    if tier == 'thorough':
        for _ in range(300):
            texts.append(''.join(r.choice('aé<ÿ€ж日\U0001F600 &"\u0080') for _ in range(r.randint(1, 6))))
    else:
        for _ in range(20):
            texts.append(''.join(r.choice('aé<ÿ€ж日\U0001F600 &"\u0080') for _ in range(r.randint(1, 6))))
    for enc in ENCODINGS:
        for t in texts:
            if not encodable(t, enc):
                continue
            for fname, blocks in fs.items():
                cb = make_case(blocks, {'b': list(t.encode(enc))}, enc)
                cs = make_case(blocks, {'s': t}, enc)
                items.append((enc, t, fname, cb, cs))
    model_ok = [it for it in items if it[0] in ('utf-8', 'latin-1')]
    rest = [it for it in items if it[0] not in ('utf-8', 'latin-1')]
    res.have_driver = have_driver
    runs_b = interp.run_cases(res, [it[3] for it in model_ok])
    runs_s = interp.run_cases(res, [it[4] for it in model_ok])
    res.have_driver = False
    runs_b += interp.run_cases(res, [it[3] for it in rest])
    runs_s += interp.run_cases(res, [it[4] for it in rest])
    res.have_driver = have_driver
    for (enc, t, fname, cb, cs), rb, rs in zip(model_ok + rest, runs_b, runs_s):
        res.evaluations += 1
        ib, is_ = rb[2]['result'], rs[2]['result']
        res.count('encoding=' + enc)
        if any(ord(c) > 127 for c in t):
            res.nt((enc, fname, t))
        single = fname in ('in-single-piece-body',) or t == ''
        if ib != is_:
            # one piece only: the bytes value is returned as it is (the property speaks of more than one piece)
            if not ('ok' in ib and isinstance(ib['ok'], dict) and 'b' in ib['ok'] and fname in ('if-single-x',)):
                res.oracle_fail.append({'case': {'encoding': enc, 'text': t, 'form': fname, 'source': cb['templates'][0]['source']},
                                        'what': 'inserting s.encode(%s) gives %r, inserting s gives %r' % (enc, ib, is_)})
        elif 'ok' in ib and not (isinstance(ib['ok'], dict) and 's' in ib['ok']):
            res.oracle_fail.append({'case': {'encoding': enc, 'text': t, 'form': fname},
                                    'what': 'multi-piece rendering is not text: %r' % (ib,)})
        for (c, plan, impl, m) in (rb, rs):
            if m is None:
                continue
            d = interp.compare(impl, m)
            if d == 'oom':
                res.count('outside_model')
                continue
            res.corr_checked += 1
            if d:
                res.corr_mismatch.append({'case': dict(interp.brief(c), encoding=enc, form=fname), 'impl': impl['result'],
                                          'model': m['result'], 'diff': d})
    # the full Var.render path (html_quote together with another option) is a known finding (same defect as C03-bytes-fullpath)
    from DocumentTemplate import HTML
    for enc in ('utf-8', 'cp1252'):
        for t in ('é<', '€'):
            if not encodable(t, enc):
                continue
            for src in ('[<dtml-var x html_quote upper>]', '[<dtml-var x fmt=html-quote>]', '[&dtml.html_quote-x;]'):
                res.evaluations += 1
                try:
                    a = HTML(src, encoding=enc)(x=t.encode(enc))
                    b = HTML(src, encoding=enc)(x=t)
                except Exception as e:  # noqa
                    a, b = repr(e), None
                if a != b:
                    try:
                        latin = HTML(src, encoding=enc)(x=t.encode(enc).decode('latin-1'))
                    except Exception:  # noqa
                        latin = None
                    if a == latin:
                        res.known_hits.setdefault('C19-bytes-fullpath', {'encoding': enc, 'text': t, 'form': src, 'output': a})
                    else:
                        res.oracle_fail.append({'case': {'encoding': enc, 'text': t, 'form': src},
                                                'what': 'bytes give %r, text gives %r' % (a, b)})


class S:
    def __init__(self, v):
        self.v = v

    def __str__(self):
        return self.v


class BadStr:
    def __str__(self):
        return 42


class RaisingStr:
    def __str__(self):
        raise ZeroDivisionError('inside __str__')


class MyErr(Exception):
    def __str__(self):
        return 'custom-str-is-not-used'


def part2(res, r):
    from DocumentTemplate import HTML
    from DocumentTemplate.ustr import ustr
    # (value, expected text) — the documented rule: str() form; exceptions as their message
    cases = [
        (0, '0'), (7, '7'), (-3, '-3'), (1.5, '1.5'), (None, 'None'), (True, 'True'), (False, 'False'),
        ([1, 'a'], "[1, 'a']"), ((), '()'), ((1,), '(1,)'), ({}, '{}'), ({'k': 0}, "{'k': 0}"), (3 + 4j, '(3+4j)'),
        (S('own'), 'own'), (S(''), ''), (S('ü€'), 'ü€'),
        (ValueError(), ''), (ValueError('msg'), 'msg'), (ValueError('ü€'), 'ü€'), (ValueError('a', 'b'), "('a', 'b')"),
        (KeyError('k'), 'k'), (ValueError(0), '0'), (KeyError(None), 'None'), (Exception(False), 'False'),
        (Exception(()), '()'), (Exception([]), '[]'), (Exception({}), '{}'), (Exception(''), ''),
        (Exception(S('inner')), 'inner'), (Exception(ValueError('nested')), 'nested'), (MyErr('args-win'), 'args-win'),
        (MyErr(), ''), (OSError(2, 'No such file'), "(2, 'No such file')"), (Exception(b'by'), None),
        (ZeroDivisionError('division by zero'), 'division by zero'),
    ]
    for v, want in cases:
        if want is None:
            continue
        res.evaluations += 1
        res.nt(('ustr', type(v).__name__, repr(v)[:30]))
        for form, src in (('plain', '[<dtml-var v>]'), ('quoted', '[<dtml-var v html_quote>]'), ('entity', '[&dtml-v;]'),
                          ('if', '<dtml-if one>[<dtml-var v>]</dtml-if>'), ('in', '<dtml-in seq>[<dtml-var v>]</dtml-in>'),
                          ('let', '<dtml-let w=one>[<dtml-var v>]</dtml-let>')):
            try:
                got = HTML(src)(v=v, one=1, seq=[1])
            except Exception as e:  # noqa
                got = 'raised %r' % (e,)
            import html
            w = '[%s]' % (html.escape(want, 1) if form in ('quoted', 'entity') else want)
            if got != w:
                res.oracle_fail.append({'case': {'value': repr(v), 'form': src}, 'what': 'got %r, expected %r' % (got, w)})
        try:
            u = ustr(v)
        except Exception as e:  # noqa
            u = 'raised %r' % (e,)
        if u != want:
            res.oracle_fail.append({'case': {'value': repr(v), 'form': 'ustr(v)'}, 'what': 'got %r, expected %r' % (u, want)})
    # class objects (not instances): their str() form; a class reaches ustr through an expression (a name would call it)
    for v in (int, str, dict, ValueError, KeyError, S, MyErr, type, object):
        res.evaluations += 1
        res.nt(('ustr', 'class', v.__name__))
        want = str(v)
        for src in ('[<dtml-var expr="v">]', '<dtml-if one>[<dtml-var expr="v">]</dtml-if>', '[<dtml-var expr="v" html_quote>]'):
            try:
                got = HTML(src)(v=v, one=1)
            except Exception as e:  # noqa
                got = 'raised %r' % (e,)
            import html
            w = '[%s]' % (html.escape(want, 1) if 'html_quote' in src else want)
            if got != w:
                res.oracle_fail.append({'case': {'value': 'class ' + v.__name__, 'form': src},
                                        'what': 'got %r, expected %r' % (got, w)})
        try:
            u = ustr(v)
        except Exception as e:  # noqa
            u = 'raised %r' % (e,)
        if u != want:
            res.oracle_fail.append({'case': {'value': 'class ' + v.__name__, 'form': 'ustr(v)'},
                                    'what': 'got %r, expected %r' % (u, want)})
    # conversion raises only when the value's own __str__ misbehaves
    for v, exc in ((BadStr(), (ValueError, TypeError)), (RaisingStr(), (ZeroDivisionError,))):
        res.evaluations += 1
        for src in ('[<dtml-var v>]', '[&dtml-v;]'):
            try:
                HTML(src)(v=v)
                res.oracle_fail.append({'case': {'value': type(v).__name__, 'form': src},
                                        'what': 'a misbehaving __str__ did not raise'})
            except exc:
                pass
            except Exception as e:  # noqa
                res.oracle_fail.append({'case': {'value': type(v).__name__, 'form': src},
                                        'what': 'raised %r, expected one of %r' % (e, exc)})


# ----------------------------------------------------------------------------
# part 3: several template objects in one process (same source text, other encoding / class), templates rendered again
# with other data.  Every expectation is written down here from the property (literal text around s, html.escape for
# the quoted form); nothing is taken from a rendering.

def _q(s):
    import html
    return html.escape(s, True)


class Holder:
    """client / dtml-with object"""

    def __init__(self, **kw):
        self.__dict__.update(kw)


# name, HTML source, expected text as a function of the inserted text s
SHARED_SOURCES = [
    ('top', '[<dtml-var x>|&dtml-x;]', lambda s: '[%s|%s]' % (s, _q(s))),
    ('in', '<ul><dtml-in seq><li><dtml-var x> / &dtml-x; / <dtml-if x>&dtml-x;</dtml-if></li></dtml-in></ul>',
     lambda s: '<ul>' + ('<li>%s / %s / %s</li>' % (s, _q(s), _q(s) if s else '')) * 2 + '</ul>'),
    ('in-items', '<dtml-in bseq>(<dtml-var sequence-item>)</dtml-in>.', lambda s: '(%s)(%s).' % (s, s)),
    ('in-items-quoted', '<dtml-in bseq>(&dtml-sequence-item;)</dtml-in>.', lambda s: '(%s)(%s).' % (_q(s), _q(s))),
    ('in-else', '<dtml-in empty>never<dtml-else>-<dtml-var x>-</dtml-in>', lambda s: '-%s-' % s),
    ('in-in', '<dtml-in seq><dtml-in seq>.<dtml-var x></dtml-in>;</dtml-in>', lambda s: (('.' + s) * 2 + ';') * 2),
    ('if', '<dtml-if one>T<dtml-var x><dtml-else>F</dtml-if>.', lambda s: 'T%s.' % s),
    ('if-else', '<dtml-if zero>T<dtml-else>F&dtml-x;</dtml-if>.', lambda s: 'F%s.' % _q(s)),
    ('unless', '<dtml-unless zero><dtml-var x>!</dtml-unless>', lambda s: '%s!' % s),
    ('let', '<dtml-let z=x>{<dtml-var z>}{&dtml-x;}</dtml-let>', lambda s: '{%s}{%s}' % (s, _q(s))),
    ('with', '<dtml-with wobj>{<dtml-var wx>}</dtml-with>', lambda s: '{%s}' % s),
    ('with-mapping', '<dtml-with wmap mapping>{&dtml-wx;}</dtml-with>', lambda s: '{%s}' % _q(s)),
    ('try-body', '<dtml-try>B<dtml-var x><dtml-except>H</dtml-try>', lambda s: 'B%s' % s),
    ('try-handler', '<dtml-try><dtml-raise KeyError>k</dtml-raise><dtml-except>h<dtml-var x>h</dtml-try>',
     lambda s: 'h%sh' % s),
    ('try-else', '<dtml-try>B<dtml-except>H<dtml-else>E<dtml-var x></dtml-try>', lambda s: 'BE%s' % s),
    ('try-finally', '<dtml-try>B<dtml-var x><dtml-finally>F&dtml-x;</dtml-try>', lambda s: 'B%sF%s' % (s, _q(s))),
    ('raise-message', '<dtml-try><dtml-raise ValueError>m:<dtml-var x></dtml-raise><dtml-except>'
                      '<dtml-var error_value>!</dtml-try>', lambda s: 'm:%s!' % s),
    ('in-let-try', '<dtml-in seq><dtml-let z=x><dtml-try><dtml-var z>,<dtml-except>H</dtml-try></dtml-let></dtml-in>',
     lambda s: (s + ',') * 2),
    ('sub', '{<dtml-var sub>}', lambda s: '{s%s}' % s),
]
# the %(name)s syntax of the String class
STRING_SOURCES = [
    ('string-top', '[%(x)s]', lambda s: '[%s]' % s),
    ('string-in-with', '[%(x)s]%(in seq)[<%(x)s>%(in)]%(with wobj)[{%(wx)s}%(with)]',
     lambda s: '[%s]<%s><%s>{%s}' % (s, s, s, s)),
]
SUB_SOURCE = 's<dtml-var x>'
ENC_LABELS = [None, 'utf-8', 'latin-1', 'cp1252', 'utf-16']      # None: the default of a new template = UTF-8
SHARED_TEXTS = ['é<ÿ>', 'Grüße & "x"', '€uro …', 'naïve €', 'жук', '日本\U0001F600<', 'x\u0080y']
# byte strings that are valid in several encodings and mean something else in each of them
RAW_BYTES = [b'\xc3\xa9', b'\x80\xe9', b'<\x00&\x00', b'\xe2\x82\xac<']


def real_enc(label):
    return label or 'utf-8'


def ns_for(val, sub=None):
    ns = {'x': val, 'seq': [1, 2], 'bseq': [val, val], 'empty': [], 'one': 1, 'zero': 0,
          'wobj': Holder(wx=val), 'wmap': {'wx': val}}
    if sub is not None:
        ns['sub'] = sub
    return ns


def part3(res, r, pairs_per_source=None):
    from DocumentTemplate import HTML, String

    class SubHTML(HTML):
        """a second template class with the same syntax"""

    class SubString(String):
        pass

    history = []
    created = {}

    def make(cls, src, label):
        created.setdefault(src, []).append('%s(source, encoding=%r)' % (cls.__name__, label) if label
                                           else '%s(source)' % cls.__name__)
        return cls(src, encoding=label) if label else cls(src)

    def check(kind, name, src, t, label, val, s, want):
        res.evaluations += 1
        sub = HTML(SUB_SOURCE, encoding=label) if name == 'sub' else None
        try:
            got = t(**ns_for(val, sub))
        except Exception as e:  # noqa
            got = 'raised %r' % (e,)
        history.append('%s(%r, encoding=%r) rendered with x=%r' % (type(t).__name__, src, label, val))
        if got != want or not isinstance(got, str):
            res.oracle_fail.append({
                'case': {'kind': kind, 'source': src, 'template class': type(t).__name__, 'encoding': label, 'x': repr(val),
                         'text': s, 'templates created from this source so far, oldest first': created.get(src, [])[-8:],
                         'renderings before this one, oldest first': history[-5:-1]},
                'what': 'got %r, expected %r (x decoded with the encoding this template was created with)' % (got, want)})

    def bytes_then_text(kind, name, src, fn, t, label, s):
        check(kind, name, src, t, label, s.encode(real_enc(label)), s, fn(s))
        check(kind, name, src, t, label, s, s, fn(s))

    def pick(label, k):
        ok = [s for s in SHARED_TEXTS if encodable(s, real_enc(label))]
        return [ok[k % len(ok)], r.choice(ok)]

    all_pairs = [(a, b) for a in ENC_LABELS for b in ENC_LABELS if a != b]
    k = 0
    for classes, sources in (((HTML, SubHTML), SHARED_SOURCES), ((String, SubString), STRING_SOURCES)):
        for name, src, fn in sources:
            pairs = list(all_pairs)
            r.shuffle(pairs)
            if pairs_per_source:
                pairs = pairs[:pairs_per_source]
            for a, b in pairs:
                k += 1
                # the same source under the same class: once with encoding a, then with encoding b
                cls = classes[k % 2]
                other = classes[(k + 1) % 2]
                res.count('same source, two encodings')
                res.nt(('shared-source', name, a, b))
                for sa, sb in zip(pick(a, k), pick(b, k + 1)):
                    ta = make(cls, src, a)
                    bytes_then_text('same-source/first', name, src, fn, ta, a, sa)
                    tb = make(cls, src, b)
                    bytes_then_text('same-source/second', name, src, fn, tb, b, sb)
                    # the first one again (other data), a template of the other class, a third object with encoding a
                    bytes_then_text('same-source/first-again', name, src, fn, ta, a, sb if encodable(sb, real_enc(a)) else sa)
                    tc = make(other, src, b)
                    bytes_then_text('same-source/other-class', name, src, fn, tc, b, sb)
                    td = make(cls, src, a)
                    bytes_then_text('same-source/third', name, src, fn, td, a, sa)
                    # one bytes object, templates of both encodings: it means what each template's encoding says
                    for raw in RAW_BYTES:
                        for t, label in ((ta, a), (tb, b), (ta, a)):
                            try:
                                s = raw.decode(real_enc(label))
                            except UnicodeError:
                                continue
                            res.count('same bytes, two encodings')
                            check('same-bytes', name, src, t, label, raw, s, fn(s))


# ----------------------------------------------------------------------------
# part 4: histories of values.  Values that compare equal (and hash alike) but print differently, rendered one after
# the other by the same and by new template objects; values that change between two renderings.

class MyInt(int):
    def __str__(self):
        return 'my-int'


class MyFloat(float):
    def __str__(self):
        return 'my-float'


class Eq:
    """equal and hash alike whenever the key is, printed as the label"""

    def __init__(self, key, label):
        self.key, self.label = key, label

    def __eq__(self, other):
        return (other.key if isinstance(other, Eq) else other) == self.key

    def __hash__(self):
        return hash(self.key)

    def __str__(self):
        return self.label


class Mut:
    def __init__(self):
        self.v = 'm0'

    def __str__(self):
        return self.v


def value_families():
    """family -> [(value, expected text)]; within a family the values are == (element-wise for containers).
    Expected text: str() of the value — Python's own rule, written as a literal wherever the literal is short."""
    import enum
    from decimal import Decimal
    from fractions import Fraction

    class Colour(enum.IntEnum):
        RED = 1

    def own(*vs):
        return [(v, str(v)) for v in vs]
    return {
        'one': [(1, '1'), (1.0, '1.0'), (True, 'True'), (Fraction(1), '1'), (Decimal('1'), '1'), (Decimal('1.0'), '1.0'),
                (Decimal('1.00'), '1.00'), (1 + 0j, '(1+0j)'), (MyInt(1), 'my-int'), (MyFloat(1.0), 'my-float'),
                (Eq(1, 'eq-one'), 'eq-one'), (Eq(1.0, 'eq-one-float'), 'eq-one-float')] + own(Colour.RED),
        'zero': [(0, '0'), (0.0, '0.0'), (-0.0, '-0.0'), (False, 'False'), (Decimal('0'), '0'), (Decimal('-0'), '-0'),
                 (Decimal('0.0'), '0.0'), (0j, '0j'), (Fraction(0), '0'), (MyInt(0), 'my-int'), (Eq(0, ''), '')],
        'three': [(3, '3'), (3.0, '3.0'), (Fraction(3), '3'), (Decimal('3.0'), '3.0')],
        'minus-three': [(-3, '-3'), (-3.0, '-3.0'), (Decimal('-3'), '-3'), (Decimal('-3.00'), '-3.00')],
        'seven': [(7, '7'), (7.0, '7.0'), (Decimal('7.0'), '7.0')],
        'half': [(2.5, '2.5'), (Fraction(5, 2), '5/2'), (Decimal('2.5'), '2.5'), (Decimal('2.50'), '2.50')],
        '2^53': [(2 ** 53, '9007199254740992'), (float(2 ** 53), '9007199254740992.0')],
        '10^20': [(10 ** 20, '100000000000000000000'), (1e20, '1e+20'), (Decimal('1E+20'), '1E+20')],
        '10^22': own(10 ** 22, 1e22),
        'non-finite': own(float('inf'), float('-inf'), float('nan'), Decimal('Infinity')),
        'tuple': [((1,), '(1,)'), ((1.0,), '(1.0,)'), ((True,), '(True,)'), ((0.0,), '(0.0,)'), ((-0.0,), '(-0.0,)'),
                  ((0,), '(0,)')],
        'list': [([1, 2], '[1, 2]'), ([1.0, 2], '[1.0, 2]'), ([True, 2.0], '[True, 2.0]')],
        'dict': [({1: 1.0}, '{1: 1.0}'), ({1.0: 1}, '{1.0: 1}'), ({True: True}, '{True: True}')],
        'set': [(frozenset([3]), 'frozenset({3})'), (frozenset([3.0]), 'frozenset({3.0})')],
        'range': own(range(2), range(0, 2, 1), range(0, 2, 3)),
        'bytearray': own(bytearray(b'ab')),
        'eq-objects': [(Eq('k', 'first'), 'first'), (Eq('k', 'second'), 'second'), (Eq('k', 'k<'), 'k<')],
        'exception-message': [(ValueError(1), '1'), (ValueError(1.0), '1.0'), (ValueError(True), 'True'),
                              (KeyError(0), '0'), (KeyError(0.0), '0.0'), (KeyError(-0.0), '-0.0'),
                              (Exception(1, 2), '(1, 2)'), (Exception(1.0, 2), '(1.0, 2)'),
                              (Exception(MyInt(1)), 'my-int'), (Exception(Eq(1, 'eq')), 'eq')],
    }


# name, source, expected output from the expected text w of v
VALUE_FORMS = [
    ('plain', 'value=<dtml-var v>;', lambda w: 'value=%s;' % w),
    ('entity', 'value=&dtml-v;;', lambda w: 'value=%s;' % _q(w)),
    ('quoted', '[<dtml-var v html_quote>]', lambda w: '[%s]' % _q(w)),
    ('expr', '[<dtml-var expr="v">]', lambda w: '[%s]' % w),
    ('twice', '<dtml-var v>|<dtml-var v>', lambda w: '%s|%s' % (w, w)),
    ('upper', '[<dtml-var v upper>]', lambda w: '[%s]' % w.upper()),
    ('in-body', '<dtml-in seq>[<dtml-var v>]</dtml-in>', lambda w: '[%s]' % w),
    ('if-body', '<dtml-if one>[<dtml-var v>]</dtml-if>', lambda w: '[%s]' % w),
    ('let-bound', '<dtml-let w=v>[<dtml-var w>]</dtml-let>', lambda w: '[%s]' % w),
    ('try-body', '<dtml-try>[<dtml-var v>]<dtml-except>H</dtml-try>', lambda w: '[%s]' % w),
]
TABLE = '<dtml-in vals>[<dtml-var sequence-item>]</dtml-in>'
TABLE_Q = '<dtml-in vals>[&dtml-sequence-item;]</dtml-in>'
PAIR = '<dtml-var a>|<dtml-var b>|&dtml-a;'


def part4(res, r, rounds=1):
    from DocumentTemplate import HTML
    kept = {name: HTML(src) for name, src, fn in VALUE_FORMS}      # rendered again and again with other data
    kept_table, kept_table_q, kept_pair = HTML(TABLE), HTML(TABLE_Q), HTML(PAIR)
    history = []
    styles = ('keyword', 'mapping', 'client')

    def render(t, style, ns):
        try:
            if style == 'mapping':
                return t(None, ns)
            if style == 'client':
                return t(Holder(**ns))
            return t(**ns)
        except Exception as e:  # noqa
            return 'raised %r' % (e,)

    def fail(case, got, want):
        case['values rendered before, oldest first'] = history[-8:]
        res.oracle_fail.append({'case': case, 'what': 'got %r, expected %r (the str() form of the value)' % (got, want)})

    k = 0

    def one(v, w, family):
        nonlocal k
        res.evaluations += 1
        for name, src, fn in VALUE_FORMS:
            k += 1
            style = styles[k % 3]
            for which, t in (('kept', kept[name]), ('new', HTML(src))):
                got = render(t, style, {'v': v, 'seq': [1], 'one': 1})
                if got != fn(w):
                    fail({'kind': 'value-history', 'family': family, 'value': repr(v), 'type': type(v).__name__,
                          'form': src, 'template': which, 'passed as': style}, got, fn(w))
        history.append('%s %r' % (type(v).__name__, v))

    fams = value_families()
    for family, members in fams.items():
        orders = [list(members), list(reversed(members))]
        for _ in range(rounds):
            o = list(members)
            r.shuffle(o)
            orders.append(o)
        for order in orders:
            res.count('value history: ' + family)
            res.nt(('value-history', family, tuple(repr(v) for v, _ in order)))
            for v, w in order:
                one(v, w, family)
            # the whole family as one table, plainly and quoted; neighbours side by side
            vals = [v for v, _ in order]
            for src, t, quote in ((TABLE, kept_table, False), (TABLE, HTML(TABLE), False), (TABLE_Q, kept_table_q, True)):
                res.evaluations += 1
                want = ''.join('[%s]' % (_q(w) if quote else w) for _, w in order)
                got = render(t, 'keyword', {'vals': vals})
                if got != want:
                    fail({'kind': 'value-table', 'family': family, 'form': src, 'vals': repr(vals)}, got, want)
            for (a, wa), (b, wb) in zip(order, order[1:]):
                res.evaluations += 1
                want = '%s|%s|%s' % (wa, wb, _q(wa))
                got = render(kept_pair, 'keyword', {'a': a, 'b': b})
                if got != want:
                    fail({'kind': 'value-pair', 'family': family, 'form': PAIR, 'a': repr(a), 'b': repr(b)}, got, want)
    # across families, in a random order (what is equal to what is the library's business, not ours)
    flat = [(v, w, f) for f, ms in fams.items() for v, w in ms]
    for _ in range(rounds):
        r.shuffle(flat)
        res.count('value history: mixed')
        for v, w, f in flat:
            one(v, w, f)
    # values that change between two renderings of the same template: the text of now, not the text of before
    lst, dct, mut, exc, ba = [1], {}, Mut(), ValueError('a'), bytearray(b'a')
    steps = [
        (lst, lambda: None, '[1]'), (lst, lambda: lst.append(2.0), '[1, 2.0]'), (lst, lambda: lst.__setitem__(0, 1.0), '[1.0, 2.0]'),
        (dct, lambda: None, '{}'), (dct, lambda: dct.__setitem__('k', 0), "{'k': 0}"), (dct, lambda: dct.__setitem__('k', 0.0), "{'k': 0.0}"),
        (mut, lambda: None, 'm0'), (mut, lambda: setattr(mut, 'v', 'm1<'), 'm1<'), (mut, lambda: setattr(mut, 'v', ''), ''),
        (exc, lambda: None, 'a'), (exc, lambda: setattr(exc, 'args', ('b',)), 'b'), (exc, lambda: setattr(exc, 'args', ('a', 'b')), "('a', 'b')"),
        (exc, lambda: setattr(exc, 'args', ()), ''), (exc, lambda: setattr(exc, 'args', (1.0,)), '1.0'),
        (ba, lambda: None, "bytearray(b'a')"), (ba, lambda: ba.extend(b'b'), "bytearray(b'ab')"),
    ]
    for v, change, w in steps:
        change()
        res.count('value changed between renderings')
        res.nt(('changed-value', type(v).__name__, w))
        one(v, w, 'changed ' + type(v).__name__)


# ----------------------------------------------------------------------------
# part 5: templates of DIFFERENT encodings in one rendering.  A part (created with encoding b) is looked up by name from a
# document (created with encoding a) - at the top level, inside block bodies, called from an expression, two parts side by
# side, three levels deep, across the template classes - and every template inserts bytes of ITS OWN encoding.  The
# expectation is a literal: the document's text around the part's text (both written down from the inserted texts).

# name, source of the document, expected text from (so = the document's own text, pi = the text of the part,
# p2 = the text of the second part)
OUTER_FORMS = [
    ('alone', '<dtml-var part>', lambda so, pi, p2: pi),
    ('var', 'A<dtml-var part>B', lambda so, pi, p2: 'A%sB' % pi),
    ('if', '<dtml-if part>-<dtml-var part>-</dtml-if>', lambda so, pi, p2: '-%s-' % pi),
    ('else', '<dtml-if zero>T<dtml-else>-<dtml-var part></dtml-if>.', lambda so, pi, p2: '-%s.' % pi),
    ('in', '<dtml-in seq>(<dtml-var part>)</dtml-in>', lambda so, pi, p2: ('(%s)' % pi) * 2),
    ('with', '<dtml-with wmap mapping>[<dtml-var part>]</dtml-with>', lambda so, pi, p2: '[%s]' % pi),
    ('let', '<dtml-let z=one>[<dtml-var part>]</dtml-let>', lambda so, pi, p2: '[%s]' % pi),
    ('try', '<dtml-try>[<dtml-var part>]<dtml-except>H</dtml-try>', lambda so, pi, p2: '[%s]' % pi),
    ('try-finally', '<dtml-try>B<dtml-finally><dtml-var part>F</dtml-try>', lambda so, pi, p2: 'B%sF' % pi),
    ('expr-call', '[<dtml-var expr="part(None, _)">]', lambda so, pi, p2: '[%s]' % pi),
    ('own-bytes', '<dtml-var ox>|<dtml-var part>|&dtml-ox;|<dtml-in oseq><dtml-var sequence-item>,</dtml-in>',
     lambda so, pi, p2: '%s|%s|%s|%s,%s,' % (so, pi, _q(so), so, so)),
    ('own-bytes-in', '<dtml-in seq>&dtml-ox;<dtml-var part><dtml-var ox>;</dtml-in>',
     lambda so, pi, p2: ('%s%s%s;' % (_q(so), pi, so)) * 2),
    ('two-parts', '<dtml-var part>+<dtml-var part2>+<dtml-var part>', lambda so, pi, p2: '%s+%s+%s' % (pi, p2, pi)),
    ('three-levels', '<dtml-var ox>(<dtml-var mid>)', lambda so, pi, p2: '%s(M%sM%s)' % (so, pi, p2)),
]
OUTER_STRING_FORMS = [
    ('string-var', '[%(part)s]', lambda so, pi, p2: '[%s]' % pi),
    ('string-in-own', '%(ox)s%(in seq)[(%(part)s)%(in)]%(ox)s', lambda so, pi, p2: so + ('(%s)' % pi) * 2 + so),
]
PART2_SOURCE = '<<dtml-var y2>|&dtml-y2;>'
MID_SOURCE = 'M<dtml-var part>M<dtml-var part2>'


def part5(res, r, outer_per_inner=None):
    from DocumentTemplate import HTML, String

    class SubHTML(HTML):
        """a second template class with the same syntax"""

    styles = ('keyword', 'mapping', 'client', 'default')
    inner_sources = [(HTML, SubHTML, n, s, f) for n, s, f in SHARED_SOURCES] + \
                    [(String, String, n, s, f) for n, s, f in STRING_SOURCES]
    outer_forms = [(HTML, n, s, f) for n, s, f in OUTER_FORMS] + [(String, n, s, f) for n, s, f in OUTER_STRING_FORMS]
    pairs = [(a, b) for a in ENC_LABELS for b in ENC_LABELS]          # equal encodings too: nothing may depend on a != b
    k = 0
    for a, b in pairs:
        texts_a = [s for s in SHARED_TEXTS if encodable(s, real_enc(a))]
        texts_b = [s for s in SHARED_TEXTS if encodable(s, real_enc(b))]
        for cls_i, cls_i2, iname, isrc, ifn in inner_sources:
            forms_ = list(outer_forms)
            if outer_per_inner:
                forms_ = [forms_[(k + j * 5) % len(forms_)] for j in range(outer_per_inner)]
            for cls_o, oname, osrc, ofn in forms_:
                k += 1
                c = ENC_LABELS[k % len(ENC_LABELS)]                   # the encoding of the second part / the middle level
                texts_c = [s for s in SHARED_TEXTS if encodable(s, real_enc(c))]
                so, si, s2 = texts_a[k % len(texts_a)], texts_b[(k // 2) % len(texts_b)], texts_c[(k // 3) % len(texts_c)]
                style = styles[k % len(styles)]
                res.count('two encodings in one rendering')
                res.nt(('nested', oname, iname, a, b))
                want = ofn(so, ifn(si), '<%s|%s>' % (s2, _q(s2)))
                for as_bytes in (True, False, True):
                    res.evaluations += 1
                    inner = (cls_i if k % 2 else cls_i2)(isrc, encoding=b) if b else (cls_i if k % 2 else cls_i2)(isrc)
                    part2 = HTML(PART2_SOURCE, encoding=c) if c else HTML(PART2_SOURCE)
                    if oname == 'three-levels':
                        # the middle level has the encoding c, the innermost b, the outermost a
                        mid = HTML(MID_SOURCE, encoding=c) if c else HTML(MID_SOURCE)
                    else:
                        mid = None
                    conv = (lambda s, e: s.encode(real_enc(e))) if as_bytes else (lambda s, e: s)
                    ns = ns_for(conv(si, b), HTML(SUB_SOURCE, encoding=b) if b else HTML(SUB_SOURCE))
                    ns.update(ox=conv(so, a), oseq=[conv(so, a), conv(so, a)], y2=conv(s2, c), part2=part2)
                    if mid is not None:
                        ns['mid'] = mid
                    templ = {'part': inner}
                    try:
                        if style == 'default':
                            outer = cls_o(osrc, templ, encoding=a) if a else cls_o(osrc, templ)
                            got = outer(**ns)
                        else:
                            outer = cls_o(osrc, encoding=a) if a else cls_o(osrc)
                            ns.update(templ)
                            if style == 'mapping':
                                got = outer(None, ns)
                            elif style == 'client':
                                got = outer(Holder(**ns))
                            else:
                                got = outer(**ns)
                    except Exception as e:  # noqa
                        got = 'raised %r' % (e,)
                    if got != want or not isinstance(got, str):
                        res.oracle_fail.append({
                            'case': {'kind': 'nested-templates', 'document': '%s(%r, encoding=%r)' % (cls_o.__name__, osrc, a),
                                     'part': '%s(%r, encoding=%r)' % (type(inner).__name__, isrc, b),
                                     'part2': 'HTML(%r, encoding=%r)' % (PART2_SOURCE, c),
                                     'mid': mid is not None and 'HTML(%r, encoding=%r)' % (MID_SOURCE, c),
                                     'sub (used by the part)': 'HTML(%r, encoding=%r)' % (SUB_SOURCE, b),
                                     'values as': 'bytes of the encoding of the template that inserts them' if as_bytes else 'text',
                                     'document text (ox)': so, 'part text (x)': si, 'part2 text (y2)': s2,
                                     'part passed as': style},
                            'what': 'got %r, expected %r (every template decodes the bytes it inserts with the encoding it was '
                                    'created with)' % (got, want)})


# ----------------------------------------------------------------------------
# part 6: histories of ONE template object.  Created with an encoding, then edited / recompiled / copied / pickled /
# given other defaults, step by step; after every step it is rendered with bytes and with text.  "The encoding the
# template was created with" holds for the whole life of the object; the expected text is the literal that belongs to
# the source the object has at that moment.

def part6(res, r, histories=2, length=6):
    import copy
    import pickle
    from DocumentTemplate import HTML, String

    global _C19SubHTML
    if _C19SubHTML is None:
        _C19SubHTML = _make_sub_html()

    html_pool = [(n, s, f) for n, s, f in SHARED_SOURCES] + [('empty', '', lambda s: ''), ('text-only', 'plain', lambda s: 'plain')]
    string_pool = list(STRING_SOURCES) + [('empty', '', lambda s: ''), ('string-adjacent', '%(x)s%(x)s', lambda s: s + s)]

    # step name -> function(t, new_source) -> template to go on with; 'new' says whether the source changes
    def st_munge_text(t, src):
        t.munge(src)
        return t

    def st_manage_edit(t, src):
        t.manage_edit(src)
        return t

    def st_manage_edit_request(t, src):
        t.manage_edit(src, REQUEST=None)
        return t

    def st_munge_text_mapping(t, src):
        t.munge(src, {'k': 1})
        return t

    def st_munge_text_kw(t, src):
        t.munge(src, k=2)
        return t

    def st_munge_kw_text(t, src):
        t.munge(source_string=src)
        return t

    def st_raw_cook(t, src):
        t.raw = src
        t.cook()
        return t

    def st_munge_nothing(t, src):
        t.munge()
        return t

    def st_munge_mapping(t, src):
        t.munge(None, {'k': 3})
        return t

    def st_munge_kw(t, src):
        t.munge(k=4)
        return t

    def st_cook(t, src):
        t.cook()
        return t

    def st_default(t, src):
        t.default(k=5)
        t.var(k2=6)
        return t

    def st_copy(t, src):
        return copy.copy(t)

    def st_deepcopy(t, src):
        return copy.deepcopy(t)

    def st_pickle(t, src):
        return pickle.loads(pickle.dumps(t))

    def st_setstate(t, src):
        n = type(t).__new__(type(t))
        n.__dict__.update(t.__getstate__())
        return n

    def st_str(t, src):
        str(t), t.read(), t.read_raw()
        return t

    def st_other_template(t, src):
        # templates of the other encodings are created and rendered in between
        for e in ENC_LABELS:
            o = type(t)(t.read_raw(), encoding=e) if e else type(t)(t.read_raw())
            try:
                o(**ns_for('x', HTML(SUB_SOURCE)))
            except Exception:  # noqa
                pass
        return t

    def st_as_part(t, src):
        # rendered as a part of documents of every encoding (its own bytes, of its own encoding, come later in check)
        for e in ENC_LABELS:
            o = HTML('A<dtml-var part>B', encoding=e) if e else HTML('A<dtml-var part>B')
            try:
                o(part=t, **ns_for('x', HTML(SUB_SOURCE)))
            except Exception:  # noqa
                pass
        return t

    changing = [('munge(text)', st_munge_text), ('manage_edit(text)', st_manage_edit),
                ('manage_edit(text, REQUEST=None)', st_manage_edit_request), ('munge(text, {k: 1})', st_munge_text_mapping),
                ('munge(text, k=2)', st_munge_text_kw), ('munge(source_string=text)', st_munge_kw_text),
                ('raw = text; cook()', st_raw_cook)]
    keeping = [('munge()', st_munge_nothing), ('munge(None, {k: 3})', st_munge_mapping), ('munge(k=4)', st_munge_kw),
               ('cook()', st_cook), ('default(k=5); var(k2=6)', st_default), ('copy.copy', st_copy),
               ('copy.deepcopy', st_deepcopy), ('pickle round trip', st_pickle), ('__getstate__ into a new object', st_setstate),
               ('str() / read()', st_str), ('templates of the other encodings created and rendered', st_other_template),
               ('rendered as a part of documents of every encoding', st_as_part)]
    steps = [(n, f, 'new') for n, f in changing] + [(n, f, 'same') for n, f in changing] + [(n, f, None) for n, f in keeping]

    def check(t, label, cur, s, history):
        name, src, fn = cur
        want = fn(s)
        for val in (s.encode(real_enc(label)), s):
            res.evaluations += 1
            try:
                got = t(**ns_for(val, HTML(SUB_SOURCE, encoding=label) if label else HTML(SUB_SOURCE)))
            except Exception as e:  # noqa
                got = 'raised %r' % (e,)
            if got != want or not (isinstance(got, str) or want == ''):
                res.oracle_fail.append({
                    'case': {'kind': 'object-history', 'history of this template object, oldest first': list(history),
                             'source now': src, 'x': repr(val), 'text': s, 'created with encoding': label},
                    'what': 'got %r, expected %r (x decoded with the encoding the template was created with)' % (got, want)})

    k = 0
    for cls, pool in ((HTML, html_pool), (_C19SubHTML, html_pool), (String, string_pool)):
        for label in ENC_LABELS:
            texts = [s for s in SHARED_TEXTS if encodable(s, real_enc(label))]
            plans = []
            # every kind of step once, in a shuffled order, cut into histories; plus random histories
            allsteps = list(steps)
            r.shuffle(allsteps)
            for i in range(0, len(allsteps), length):
                plans.append(allsteps[i:i + length])
            for _ in range(histories):
                plans.append([r.choice(steps) for _ in range(length)])
            for plan in plans:
                k += 1
                cur = pool[k % len(pool)]
                t = cls(cur[1], encoding=label) if label else cls(cur[1])
                history = ['%s(%r, encoding=%r)' % (cls.__name__, cur[1], label) if label else '%s(%r)' % (cls.__name__, cur[1])]
                res.count('object history')
                res.nt(('object-history', cls.__name__, label, tuple(n for n, _, _ in plan)))
                check(t, label, cur, texts[k % len(texts)], history)
                for j, (sname, fn, kind) in enumerate(plan):
                    if kind == 'new':
                        cur = pool[(k + 7 * j + r.randrange(len(pool))) % len(pool)]
                    t = fn(t, cur[1])
                    history.append(sname + (' [text = %r]' % cur[1] if kind else ''))
                    check(t, label, cur, texts[(k + j) % len(texts)], history)


def _make_sub_html():
    from DocumentTemplate import HTML

    class C19SubHTML(HTML):
        """a second template class with the same syntax (module level: it has to be picklable)"""
    C19SubHTML.__module__ = __name__
    C19SubHTML.__qualname__ = '_C19SubHTML'
    return C19SubHTML


_C19SubHTML = None


def run(res, tier, have_driver):
    r = common.rng('C19')
    res.rule = ('part 1: %d texts (ASCII, Latin-1, C1, BMP, astral, HTML specials, empty) x 4 template encodings x 22 insertion '
                'forms (plain, quoted, adjacent bytes, in / if / unless / let / with bodies, try-else, try-finally, handler, '
                'sub-template, raise message): render(x=s.encode(enc)) == render(x=s) and the result is text; part 2: str() '
                'forms of 35 values (numbers, containers, objects with __str__, exceptions with 0/1/n args incl. falsy args) '
                'through 6 insertion forms, misbehaving __str__; part 3 (several templates in one process): %d HTML and %d '
                '%%(x)s sources with in / let / with / try / raise / if bodies, each created under ordered pairs of the encodings '
                '{default, utf-8, latin-1, cp1252, utf-16} by the same class, a subclass and a third object (first, second, '
                'first again with other data, other class, third), bytes then text, plus %d byte strings that are valid in '
                'several encodings rendered by templates of each: output == literal expectation built from s and html.escape; '
                'part 4 (histories of values): %d families of values that are == / hash alike but print differently (int / '
                'float / bool / Decimal / Fraction / complex / int and float subclasses / IntEnum / objects with __eq__, signed '
                'zeros, 2^53, 10^20, non-finite, containers of them, exception arguments) in forward, reverse and random order '
                'and mixed across families, through %d forms on a kept template and a new one, passed as keyword / mapping / '
                'client attribute, as one dtml-in table and side by side; lists, dicts, objects, exceptions and bytearrays '
                'changed between two renderings: output == str() form of the value as it is now; part 5 (several encodings in '
                'one rendering): every source of part 3 as a part created with encoding b, looked up by name from %d document '
                'forms created with encoding a (all 25 ordered pairs; top level, if / else / in / with / let / try / finally '
                'bodies, expression call, two parts of different encodings, three levels, String in HTML and HTML in String; '
                'part passed as keyword / mapping / client attribute / default), the document, the part, the second part and '
                'the middle level each inserting bytes of its own encoding: output == literal built from the inserted texts; '
                'part 6 (histories of one template object): HTML / subclass / String created under each of the 5 encodings, then '
                'munge / manage_edit / raw+cook with new, equal and empty text (positional, keyword, with defaults), munge() / '
                'cook() / defaults only, copy / deepcopy / pickle / __getstate__, other templates in between, rendered as a '
                'part: after every step bytes and text give the literal that belongs to the current source; non-trivial = distinct '
                '(encoding, form, non-ASCII text) / value kinds / (source, encoding pair) / value orders / (document form, part, encoding pair) / object histories'
                % (len(TEXTS), len(SHARED_SOURCES), len(STRING_SOURCES), len(RAW_BYTES), len(value_families()),
                   len(VALUE_FORMS), len(OUTER_FORMS) + len(OUTER_STRING_FORMS)))
    part1(res, tier, have_driver, r)
    part2(res, r)
    thorough = tier == 'thorough'
    part3(res, common.rng('C19-shared'), pairs_per_source=None if thorough else 8)
    part4(res, common.rng('C19-values'), rounds=6 if thorough else 1)
    part5(res, common.rng('C19-nested'), outer_per_inner=None if thorough else 4)
    part6(res, common.rng('C19-histories'), histories=12 if thorough else 5)
    # the same table once more: whatever the earlier parts left behind in the process must not show
    part2(res, r)
    res.partial.append('bytes through the full Var.render path (html_quote with another option, fmt=html-quote, '
                       '&dtml.html_quote-x;) are decoded as Latin-1: known finding C19-bytes-fullpath (= C03-bytes-fullpath)')
    res.assumptions += ['model codecs: UTF-8 and Latin-1 (round trips proved); cp1252 and utf-16 templates are compared on the '
                        'implementation only', 'interpreter model validated (not verified) against the real classes',
                        'parts 3 and 4 (several template objects / histories of values in one process) are decided on the '
                        'implementation only: the model renders every case from a fresh state',
                        'parts 5 and 6 (templates of different encodings in one rendering, edit / copy / pickle histories of one '
                        'template object) are decided on the implementation only: a model case has one encoding and no object '
                        'identity']


def search_more(res, tier):
    r = common.rng('C19-more')
    res2 = common.Result('C19')
    part1(res2, 'thorough', False, r)
    part2(res2, r)
    part3(res2, r)
    part4(res2, r, rounds=6)
    part5(res2, r)
    part6(res2, r, histories=12)
    return res2.oracle_fail


def replay(path):
    with open(path) as f:
        d = json.load(f)
    print(json.dumps(d.get('first', d), indent=1)[:3000])
    return 1
