"""C11 — batch windows stay in range, tile the sequence and link consistently.

Correspondence: Lean `Batch.window` / `Batch.links` / `Batch.follow` vs the real
`<dtml-in … start= end= size= orphan= overlap=>` rendering.
Oracle (independent of the model): the property's own arithmetic evaluated on what the
real tag displayed.
"""
import itertools
import json

import common

ABSENT = None


_TEMPLATES = {}


def shared_template(src):
    # compiled templates are shared between cases on purpose: with parameters given as variable names the same compiled
    # tag is rendered with different values, which exposes anything a rendering leaves behind on the tag
    from DocumentTemplate import HTML
    t = _TEMPLATES.get(src)
    if t is None:
        t = _TEMPLATES[src] = HTML(src)
    return t


def observe(L, params, via_vars=False, lazy=False):
    """Render a batched dtml-in over a sequence of length L with the real code and return
    the observation dict."""
    from DocumentTemplate import HTML
    attrs = []
    kw = {}
    for k in ('start', 'end', 'size', 'orphan', 'overlap'):
        v = params.get(k)
        if v is ABSENT:
            continue
        if v == 'flag':           # attribute without value -> parse_params default
            attrs.append(k)
        elif via_vars:
            attrs.append('%s=v_%s' % (k, k))
            kw['v_' + k] = v
        else:
            attrs.append('%s=%d' % (k, v))
    rows = []

    def rec(md):
        row = {}
        for key in ('sequence-number', 'previous-sequence', 'next-sequence',
                    'previous-sequence-start-number', 'previous-sequence-end-number',
                    'next-sequence-start-number', 'next-sequence-end-number',
                    'sequence-start', 'sequence-end', 'sequence-step-size'):
            try:
                row[key] = md.getitem(key, 0)
            except KeyError:
                row[key] = None
        rows.append(row)
        return ''
    src = '<dtml-in seq %s><dtml-call "rec(_)"><dtml-else>EMPTY</dtml-in>' % ' '.join(attrs)
    seq = list(range(1, L + 1))
    if lazy:
        seq = iter(seq)
    try:
        out = shared_template(src)(seq=seq, rec=rec, **kw)
    except Exception as e:  # noqa
        return {'exc': type(e).__name__, 'src': src}
    if out == 'EMPTY':
        return {'empty': True, 'src': src}
    nums = [r['sequence-number'] for r in rows]
    first, last = rows[0], rows[-1]
    return {
        'src': src,
        'nums': nums,
        'prev': bool(first['previous-sequence']),
        'pstart': first['previous-sequence-start-number'],
        'pend': first['previous-sequence-end-number'],
        'next': bool(last['next-sequence']),
        'nstart': last['next-sequence-start-number'],
        'nend': last['next-sequence-end-number'],
        'mid_flags': any(r['previous-sequence'] for r in rows[1:]) or
        any(r['next-sequence'] for r in rows[:-1]),
        'startflags': [bool(r['sequence-start']) for r in rows],
        'endflags': [bool(r['sequence-end']) for r in rows],
        'sz': first['sequence-step-size'],
    }


DEFAULTS = {'start': 1, 'end': -1, 'size': 10, 'orphan': 0, 'overlap': 1}


def eff(params, k):
    v = params.get(k)
    if v is ABSENT:
        return 0
    if v == 'flag':
        return DEFAULTS[k]
    return v


def model_req(L, params, lazy):
    return {'op': 'batch', 'start': eff(params, 'start'), 'end': eff(params, 'end'),
            'size': eff(params, 'size'), 'orphan': eff(params, 'orphan'),
            'overlap': eff(params, 'overlap'), 'len': L, 'lazy': lazy}


def compare(obs, m):
    """impl observation vs model response; returns None or a description."""
    if 'exc' in obs:
        return 'impl raised %s' % obs['exc']
    if obs.get('empty'):
        return None  # L == 0: else branch; the model has no window
    st, e = m['start'], m['end']
    if obs['nums'] != list(range(st, e + 1)):
        return 'window: impl %s model %d..%d' % (obs['nums'][:20], st, e)
    if obs['prev'] != m['prev'] or obs['next'] != m['next']:
        return 'flags: impl prev=%s next=%s model prev=%s next=%s' % (
            obs['prev'], obs['next'], m['prev'], m['next'])
    if m['prev'] and (obs['pstart'], obs['pend']) != (m['pstart'], m['pend']):
        return 'prev link: impl %s..%s model %s..%s' % (obs['pstart'], obs['pend'], m['pstart'], m['pend'])
    if m['next'] and (obs['nstart'], obs['nend']) != (m['nstart'], m['nend']):
        return 'next link: impl %s..%s model %s..%s' % (obs['nstart'], obs['nend'], m['nstart'], m['nend'])
    if obs['sz'] != m['size']:
        return 'size: impl %s model %s' % (obs['sz'], m['size'])
    return None


def oracle(L, params, obs):
    """The property itself, on the implementation's observation.  Returns list of failures."""
    bad = []
    if L == 0:
        if not obs.get('empty'):
            bad.append('empty sequence did not render the else body: %r' % (obs,))
        return bad
    if 'exc' in obs:
        return ['rendering raised %s' % obs['exc']]
    if obs.get('empty'):
        return ['non-empty sequence rendered the else body']
    nums = obs['nums']
    if not nums:
        return ['nothing displayed']
    s, e = nums[0], nums[-1]
    if nums != list(range(s, e + 1)):
        bad.append('displayed elements not contiguous: %s' % nums)
    if not (1 <= s <= e <= L):
        bad.append('window %d..%d outside 1..%d' % (s, e, L))
    start, end, size = eff(params, 'start'), eff(params, 'end'), eff(params, 'size')
    orphan, overlap = eff(params, 'orphan'), eff(params, 'overlap')
    if 1 <= start <= L and end <= 0 and size >= 1:
        want = start + size - 1
        if L - want < orphan or want > L:
            want = L
        if (s, e) != (start, want):
            bad.append('start/size window: displayed %d..%d, expected %d..%d' % (s, e, start, want))
    if 1 <= start <= end <= L:
        if (s, e) != (start, end):
            bad.append('explicit window: displayed %d..%d, expected %d..%d' % (s, e, start, end))
    if obs['next'] != (e < L):
        bad.append('next-sequence=%s but end=%d len=%d' % (obs['next'], e, L))
    if obs['prev'] != (s > 1):
        bad.append('previous-sequence=%s but start=%d' % (obs['prev'], s))
    if obs['mid_flags']:
        bad.append('previous-/next-sequence true on an inner element')
    if obs['startflags'] != [i == 0 for i in range(len(nums))]:
        bad.append('sequence-start flags %s' % obs['startflags'])
    if obs['endflags'] != [i == len(nums) - 1 for i in range(len(nums))]:
        bad.append('sequence-end flags %s' % obs['endflags'])
    if obs['next'] and overlap >= 0:
        want = max(1, e + 1 - overlap)
        if obs['nstart'] != want:
            bad.append('next batch starts at %s, expected end+1-overlap=%d' % (obs['nstart'], want))
    if obs['prev'] and overlap >= 0:
        want = min(L, s - 1 + overlap)
        if obs['pend'] != want:
            bad.append('previous batch ends at %s, expected start-1+overlap=%d' % (obs['pend'], want))
    return bad


def tiling_oracle(L, size, orphan, overlap, lazy=False):
    """follow next-sequence-start-number from 1; then previous from the last window."""
    bad = []
    windows = []
    start = 1
    for _ in range(L + 3):
        obs = observe(L, {'start': start, 'size': size, 'orphan': orphan, 'overlap': overlap}, lazy=lazy)
        if 'exc' in obs or obs.get('empty'):
            return ['tiling render failed at start=%d: %r' % (start, obs)], windows
        s, e = obs['nums'][0], obs['nums'][-1]
        if s != start:
            bad.append('window asked at %d starts at %d' % (start, s))
        windows.append((s, e))
        if not obs['next']:
            break
        start = obs['nstart']
    else:
        bad.append('following next did not terminate: %s' % windows[:8])
    if windows[0][0] != 1:
        bad.append('first window starts at %d' % windows[0][0])
    if windows[-1][1] != L:
        bad.append('last window ends at %d != %d' % (windows[-1][1], L))
    for (a, b) in zip(windows, windows[1:]):
        if b[0] != a[1] + 1 - overlap:
            bad.append('neighbours %s %s do not share exactly %d' % (a, b, overlap))
        if not a[0] < b[0]:
            bad.append('starts not increasing %s %s' % (a, b))
    covered = set()
    for (s, e) in windows:
        covered.update(range(s, e + 1))
    if covered != set(range(1, L + 1)):
        bad.append('elements never shown: %s' % sorted(set(range(1, L + 1)) - covered))
    # previous direction
    start = windows[-1][0]
    for _ in range(L + 3):
        obs = observe(L, {'start': start, 'size': size, 'orphan': orphan, 'overlap': overlap})
        if not obs['prev']:
            if obs['nums'][0] != 1:
                bad.append('previous chain stopped at %d' % obs['nums'][0])
            break
        if obs['pstart'] >= start:
            bad.append('previous start %s not before %d' % (obs['pstart'], start))
            break
        start = obs['pstart']
    else:
        bad.append('following previous did not reach 1')
    return bad, windows


def param_space(tier, r):
    starts = [ABSENT] + list(range(-1, 17))
    ends = [ABSENT] + list(range(-1, 17))
    sizes = [ABSENT] + list(range(-1, 8))
    orphans = [ABSENT] + list(range(0, 5))
    overlaps = [ABSENT] + list(range(0, 4))
    lens = list(range(0, 15))
    full = tier == 'thorough'
    for L in lens:
        for st, en, sz in itertools.product(starts, ends, sizes):
            if st is ABSENT and en is ABSENT and sz is ABSENT:
                continue  # not a batch (orphan/overlap would be a ParseError)
            for orp, ov in itertools.product(orphans, overlaps):
                if not full:
                    # quick: boundary planes + a seed-selected 1/24 slice
                    boundary = (L in (0, 1, 14) and st in (ABSENT, 1, L, L + 1) and
                                en in (ABSENT, L, L + 1) and sz in (ABSENT, 1, 7))
                    if not boundary and r.random() > 1 / 40.0:
                        continue
                yield L, {'start': st, 'end': en, 'size': sz, 'orphan': orp, 'overlap': ov}


def run(res, tier, have_driver):
    r = common.rng('C11')
    res.rule = ('exhaustive grid len 0..14 x start,end in {absent,-1..16} x size {absent,-1..7} x '
                'orphan {absent,0..4} x overlap {absent,0..3} (quick: boundary planes + seeded 1/40 '
                'slice), literals and variables, list and iterator; plus random larger values and '
                'valueless attributes; non-trivial = distinct (len,params) whose window is a proper '
                'sub-range or whose links are announced')
    res.exhaustive = tier == 'thorough'
    cases = []
    for L, p in param_space(tier, r):
        cases.append((L, p, False, False))
    # variables / lazy / flags / larger values
    n_extra = 4000 if tier == 'quick' else 40000
    for _ in range(n_extra):
        L = r.choice([0, 1, 2, 3, 5, 7, 14, 15, 40, 100, 333])
        p = {}
        for k, lo, hi in (('start', -2, L + 4), ('end', -2, L + 4), ('size', -1, L + 3),
                          ('orphan', 0, 6), ('overlap', 0, 5)):
            c = r.random()
            if c < 0.3:
                p[k] = ABSENT
            elif c < 0.35:
                p[k] = 'flag'
            else:
                p[k] = r.randint(lo, hi)
        if p['start'] is ABSENT and p['end'] is ABSENT and p['size'] is ABSENT:
            p['size'] = r.randint(1, 5)
        cases.append((L, p, r.random() < 0.5, r.random() < 0.4))
    reqs = []
    obss = []
    for (L, p, via, lazy) in cases:
        obs = observe(L, p, via_vars=via, lazy=lazy)
        obss.append(obs)
        res.evaluations += 1
        res.count('len=%s' % (L if L < 15 else '15+'))
        res.count('via_vars' if via else 'literals')
        res.count('lazy' if lazy else 'list')
        for f in oracle(L, p, obs):
            fail = {'case': {'len': L, 'params': p, 'via_vars': via, 'lazy': lazy, 'src': obs.get('src')},
                    'what': f}
            res.oracle_fail.append(fail)
        if 'nums' in obs:
            if len(obs['nums']) < L or obs['prev'] or obs['next']:
                res.nt((L, tuple(sorted((k, str(v)) for k, v in p.items()))))
        reqs.append(model_req(L, p, lazy))
    res.sample({'len': cases[0][0], 'params': cases[0][1], 'observation': obss[0]})
    mid = len(cases) // 2
    res.sample({'len': cases[mid][0], 'params': cases[mid][1], 'observation': obss[mid]})
    res.sample({'len': cases[-1][0], 'params': cases[-1][1], 'observation': obss[-1]})
    if have_driver:
        resp = common.run_driver(reqs)
        for (L, p, via, lazy), obs, rp in zip(cases, obss, resp):
            if 'ok' not in rp:
                res.harness_errors.append('driver: %r' % (rp,))
                break
            res.corr_checked += 1
            d = compare(obs, rp['ok'])
            if d:
                res.corr_mismatch.append({'case': {'len': L, 'params': p, 'via_vars': via, 'lazy': lazy},
                                          'impl': obs, 'model': rp['ok'], 'diff': d})
    # tiling
    treqs, tw = [], []
    sizes = range(1, 8)
    for L in (range(1, 15) if tier == 'thorough' else [1, 2, 5, 9, 14]):
        for size in sizes:
            for orphan in range(0, 5):
                for overlap in range(0, 4):
                    if overlap >= size:
                        continue
                    bad, windows = tiling_oracle(L, size, orphan, overlap)
                    res.evaluations += len(windows)
                    res.count('tiling_histories')
                    if len(windows) > 1:
                        res.nt(('tile', L, size, orphan, overlap))
                    for f in bad:
                        res.oracle_fail.append({'case': {'tiling': True, 'len': L, 'size': size,
                                                         'orphan': orphan, 'overlap': overlap}, 'what': f})
                    treqs.append({'op': 'follow', 'size': size, 'orphan': orphan, 'overlap': overlap,
                                  'len': L, 'lazy': False})
                    tw.append(windows)
    if have_driver and treqs:
        resp = common.run_driver(treqs)
        for rq, w, rp in zip(treqs, tw, resp):
            res.corr_checked += 1
            if 'ok' not in rp or [tuple(x) for x in rp['ok']] != w:
                res.corr_mismatch.append({'case': rq, 'impl': w, 'model': rp.get('ok'), 'diff': 'tiling windows'})
    res.assumptions += ['int_param / parse_params glue (literal, variable, valueless attribute) is '
                        'exercised by the correspondence run, not modelled',
                        'sequence probes modelled as index<len (list) / SequenceFromIter semantics']


def search_more(res, tier):
    """Wider failing-input search when a proof obligation or the correspondence broke."""
    r = common.rng('C11-more')
    found = []
    for L, p in param_space('thorough', r):
        if r.random() > 0.12:
            continue
        obs = observe(L, p)
        for f in oracle(L, p, obs):
            found.append({'case': {'len': L, 'params': p, 'src': obs.get('src')}, 'what': f})
        if len(found) > 5:
            break
    return found


def replay(path):
    with open(path) as f:
        d = json.load(f)
    c = d['first']['case']
    if c.get('tiling'):
        bad, w = tiling_oracle(c['len'], c['size'], c['orphan'], c['overlap'])
        print(w, bad)
        return 1 if bad else 0
    obs = observe(c['len'], c['params'], c.get('via_vars', False), c.get('lazy', False))
    bad = oracle(c['len'], c['params'], obs)
    print(obs)
    print(bad)
    return 1 if bad else 0
