"""C11 — batch windows stay in range, tile the sequence and link consistently.

Correspondence: Lean `Batch.window` / `Batch.links` / `Batch.follow` vs the real
`<dtml-in … start= end= size= orphan= overlap=>` rendering.
Oracle (independent of the model): the property's own arithmetic evaluated on what the
real tag displayed.

Input space (every dimension is crossed with the batch parameters):
  * how a parameter reaches the tag: literal, valueless attribute, variable holding an int, a numeric
    string (request form value) or a callable returning the int;
  * what the sequence is: list, tuple, range, collections.UserList, collections.deque, iterator,
    generator, a user class whose indexes wrap around like a list's (lazy result sets) and one that
    refuses negative indexes; elements ints, (key, value) pairs, mappings or instances;
  * which other options of the tag are combined with the batch: reverse, reverse_expr (true / false),
    sort, sort_expr (ascending / descending), mapping, no_push_item, prefix, skip_unauthorized, and the
    `next` / `previous` forms of the tag (body rendered once for the neighbouring batch);
  * which template class renders the tag: the plain one, or one with a security policy (`guarded_getitem`, as
    Zope's DTML methods have) that refuses every subset of the elements of the window and its neighbours (nothing,
    the first, the last, inner ones, both ends, a run at the front / at the end, everything), with and without
    skip_unauthorized; the policy reaches the tag directly, through a plain sub-template called by the restricted
    one (two template classes in one rendering) or through `<dtml-with … only>` (a fresh namespace that inherits
    the policy).  There every displayed row is read in full: numbers, elements, the four position flags and every
    link / step variable;
  * what is read: the displayed numbers AND the displayed elements (compared with the window of the
    sequence ordered by Python), the -number / -index / -size spellings of the links, the step
    variables, and the `next-batches` / `previous-batches` lists (the links followed to the end / to
    element 1).
Compiled templates are shared between cases, so every template is rendered again with other data.
"""
import collections
import itertools
import json
import signal

import common

ABSENT = None


_TEMPLATES = {}


def shared_template(src):
    # compiled templates are shared between cases on purpose: with parameters given as variable names the same compiled
    # tag is rendered with different values, which exposes anything a rendering leaves behind on the tag
    from DocumentTemplate import HTML
    t = _TEMPLATES.get(src)
    if t is None:
        t = _TEMPLATES[src] = HTML(src)
    return t


# ----------------------------------------------------------------------------
# template classes with a security policy

POLICY = {'refused': frozenset(), 'log': []}     # what the policy of the rendering in progress refuses / was asked
WHERES = ('direct', 'sub', 'with_only')
_RESTRICTED = []


def item_identity(v):
    if isinstance(v, tuple) and len(v) == 2:
        v = v[1]
    return ident(v)


def restricted_class():
    """a template class with a security policy, like Zope's DTML methods: items are fetched through
    guarded_getitem, which refuses the elements named in POLICY (by identity of the element, not by position)"""
    if not _RESTRICTED:
        from DocumentTemplate import HTML
        from zExceptions import Unauthorized

        class RestrictedHTML(HTML):
            def guarded_getitem(self, ob, index):
                v = ob[index]
                POLICY['log'].append(index)
                if item_identity(v) in POLICY['refused']:
                    raise Unauthorized('item %r' % (index,))
                return v
        _RESTRICTED.append(RestrictedHTML)
    return _RESTRICTED[0]


def policy_template(src, where):
    """the callable that renders `src` under the policy: `where` = how the policy reaches the tag"""
    key = (src, where)
    t = _TEMPLATES.get(key)
    if t is not None:
        return t
    R = restricted_class()
    if where == 'direct':
        tm = R(src)
        t = lambda kw: tm(**kw)                                   # noqa: E731
    elif where == 'sub':
        # two template classes in one rendering: the restricted template calls a plain one by name; the
        # namespace (and with it the policy) is the caller's
        outer, inner = R('<dtml-var c11inner>'), shared_template(src)
        t = lambda kw: outer(c11inner=inner, **kw)                # noqa: E731
    elif where == 'with_only':
        # a fresh namespace that holds nothing but the mapping; it inherits the policy
        tm = R('<dtml-with c11ns mapping only>%s</dtml-with>' % src)
        t = lambda kw: tm(c11ns=dict(kw))                         # noqa: E731
    else:
        raise ValueError(where)
    _TEMPLATES[key] = t
    return t


# ----------------------------------------------------------------------------
# sequences

class NegSeq:
    """a user sequence whose indexes behave like a list's (negative ones count from the end): what lazy
    result sets and most hand-written sequence classes do; no slicing, no iteration protocol of its own"""

    def __init__(self, data):
        self._d = list(data)

    def __len__(self):
        return len(self._d)

    def __getitem__(self, i):
        if not isinstance(i, int):
            raise TypeError('indexes must be integers')
        return self._d[i]


class StrictSeq(NegSeq):
    """a user sequence that refuses negative indexes"""

    def __getitem__(self, i):
        if not isinstance(i, int):
            raise TypeError('indexes must be integers')
        if i < 0:
            raise IndexError(i)
        return self._d[i]


class Obj:
    def __init__(self, k, i):
        self.k = k
        self.i = i

    def __repr__(self):
        return 'Obj(%r,%r)' % (self.k, self.i)


KINDS = ('list', 'tuple', 'range', 'userlist', 'deque', 'iter', 'gen', 'negseq', 'strictseq')
NEG_RAISES = ('iter', 'gen', 'strictseq')     # sequence[-1] raises (as the tag sees the sequence)
ELEMS = ('int', 'pair', 'dict', 'obj')
NOMODS = {}


def value(i):
    # distinct values in no monotone order (1009 is prime): a reversed or sorted display differs from the plain one
    return (i * 7919 + 13) % 1009


def elements(L, kind, elem):
    if kind == 'range':
        return list(range(7, 7 + 3 * L, 3))
    if elem == 'pair':
        return [(value(i), 'x%d' % i) for i in range(L)]
    if elem == 'dict':
        return [{'k': value(i), 'i': i} for i in range(L)]
    if elem == 'obj':
        return [Obj(value(i), i) for i in range(L)]
    return [value(i) for i in range(L)]


def container(kind, elems):
    if kind == 'list':
        return list(elems)
    if kind == 'tuple':
        return tuple(elems)
    if kind == 'range':
        return range(7, 7 + 3 * len(elems), 3)
    if kind == 'userlist':
        return collections.UserList(elems)
    if kind == 'deque':
        return collections.deque(elems)
    if kind == 'iter':
        return iter(list(elems))
    if kind == 'gen':
        return (x for x in list(elems))
    if kind == 'negseq':
        return NegSeq(elems)
    if kind == 'strictseq':
        return StrictSeq(elems)
    raise ValueError(kind)


def ident(x):
    """what identifies a displayed element (JSON-able)"""
    if isinstance(x, dict):
        return x.get('i')
    if isinstance(x, Obj):
        return x.i
    return x


def sort_key(e):
    if isinstance(e, tuple):
        return e[0]
    if isinstance(e, dict):
        return e['k']
    if isinstance(e, Obj):
        return e.k
    return e


def expected_display(elems, mods):
    """Python's own ordering of the sequence: sorted (stable, keys are distinct), then reversed.
    Returns [(key or None, identity of the element)] in display order."""
    seq = list(elems)
    s = mods.get('sort')
    if s:
        seq = sorted(seq, key=sort_key, reverse=s in ('kdesc', 'exprdesc'))
    if mods.get('reverse') in ('flag', 'expr1'):
        seq = seq[::-1]
    out = []
    for e in seq:
        if isinstance(e, tuple):
            out.append((e[0], e[1]))
        else:
            out.append((None, ident(e)))
    return out


def mod_attrs(mods, kw):
    a = []
    if mods.get('elem') == 'dict':
        a.append('mapping')
    s = mods.get('sort')
    if s == 'item':
        a.append('sort=sequence-item')
    elif s == 'k':
        a.append('sort=k')
    elif s == 'kdesc':
        a.append('sort="k/cmp/desc"')
    elif s in ('expr', 'exprdesc'):
        a.append('sort_expr="sk"')
        kw['sk'] = 'k' if s == 'expr' else 'k/cmp/desc'
    rv = mods.get('reverse')
    if rv == 'flag':
        a.append('reverse')
    elif rv in ('expr1', 'expr0'):
        a.append('reverse_expr="rv"')
        kw['rv'] = rv == 'expr1'
    for flag in ('no_push_item', 'skip_unauthorized'):
        if mods.get(flag):
            a.append(flag)
    if mods.get('prefix'):
        a.append('prefix=pp')
    if mods.get('mode'):
        a.append(mods['mode'])       # the `next` / `previous` form of the tag
    return a


def neg_raises(kind, mods):
    """does sequence[-1] raise on what the batch code probes?  (sorting / reversing hands it a list)"""
    if mods.get('sort') or mods.get('reverse') in ('flag', 'expr1'):
        return False
    return kind in NEG_RAISES


# ----------------------------------------------------------------------------
# observation

class Hang(Exception):
    pass


def _alarm(*a):
    raise Hang()


HANGS = [0]


DEFAULTS = {'start': 1, 'end': -1, 'size': 10, 'orphan': 0, 'overlap': 1}


def eff(params, k):
    v = params.get(k)
    if v is ABSENT:
        return 0
    if v == 'flag':
        return DEFAULTS[k]
    return v


def step_size(params):
    """the batch size in force when `size` is not given (documented as 'sequence-step-size -- the batch size used').
    Only used to decide whether the batch lists may be asked for at all (overlap < size)."""
    size, start, end = eff(params, 'size'), eff(params, 'start'), eff(params, 'end')
    if size >= 1:
        return size
    if start > 0 and end > 0 and end >= start:
        return end + 1 - start
    return 7


ROW_KEYS = ('sequence-number', 'previous-sequence', 'next-sequence', 'sequence-start', 'sequence-end')
EDGE_KEYS = ('previous-sequence-start-number', 'previous-sequence-end-number',
             'next-sequence-start-number', 'next-sequence-end-number', 'sequence-step-size',
             'previous-sequence-start-index', 'previous-sequence-end-index', 'previous-sequence-size',
             'next-sequence-start-index', 'next-sequence-end-index', 'next-sequence-size',
             'sequence-step-start-index', 'sequence-step-end-index')


def read_batches(md, name):
    try:
        bl = md.getitem(name, 0)
    except KeyError:
        return None
    out = []
    for b in bl:
        out.append([b['batch-start-number'], b['batch-end-number'], b['batch-size'],
                    b['batch-start-index'], b['batch-end-index']])
        if len(out) > 2000:
            break
    return out


def observe(L, params, via_vars=False, lazy=False, kind=None, mods=NOMODS):
    """one rendering, observed; a `Hang` is only reported when a second attempt - fresh sequence, the collector off, ten
    times the CPU allowance for the first ones - does not return either (the timer counts the collector's passes over the harness's own
    objects as CPU time of the rendering: 4 such false hangs in 1.9 million renderings of the thorough tier, seed 5)"""
    obs = _observe(L, params, via_vars, lazy, kind, mods, None)
    if obs.get('exc', '').startswith('Hang'):
        import gc
        gc.collect()
        was = gc.isenabled()
        gc.disable()
        try:
            obs = _observe(L, params, via_vars, lazy, kind, mods, 30.0 if HANGS[0] < 2 else 3.0)
        finally:
            if was:
                gc.enable()
        if obs.get('exc', '').startswith('Hang'):
            HANGS[0] += 1
    return obs


def _observe(L, params, via_vars, lazy, kind, mods, limit):
    """Render a batched dtml-in over a sequence of length L with the real code and return
    the observation dict."""
    kind = kind or ('iter' if lazy else 'list')
    policy = mods.get('policy')
    attrs = []
    kw = {}
    for k in ('start', 'end', 'size', 'orphan', 'overlap'):
        v = params.get(k)
        if v is ABSENT:
            continue
        if v == 'flag':           # attribute without value -> parse_params default
            attrs.append(k)
        elif via_vars:
            attrs.append('%s=v_%s' % (k, k))
            if via_vars == 'str':         # request form values are strings
                kw['v_' + k] = str(v)
            elif via_vars == 'call':      # variables are called when looked up
                kw['v_' + k] = (lambda v=v: v)
            else:
                kw['v_' + k] = v
        else:
            attrs.append('%s=%d' % (k, v))
    attrs = mod_attrs(mods, kw) + attrs
    overlap = eff(params, 'overlap')
    # the lists of all following / preceding batches: only defined (and only finite) for overlap < size
    lists_ok = 0 <= overlap < step_size(params)
    rows = []

    def rec(md):
        row = {}
        for key in ROW_KEYS:
            try:
                row[key] = md.getitem(key, 0)
            except KeyError:
                row[key] = None
        try:
            row['item'] = ident(md.getitem('sequence-item', 0))
        except KeyError:
            row['item'] = None
        if mods.get('elem') == 'pair':
            try:
                row['key'] = md.getitem('sequence-key', 0)
            except KeyError:
                row['key'] = None
        edge = not rows or row['sequence-end'] or row['sequence-number'] is None
        if edge or policy is not None:
            # (under a security policy every row is read in full)
            for key in EDGE_KEYS:
                try:
                    row[key] = md.getitem(key, 0)
                except KeyError:
                    row[key] = None
            sz = row['sequence-step-size']
            # (asked on the first and the last displayed element only: the tag keeps a list once it was computed)
            if edge and lists_ok and isinstance(sz, int) and sz > overlap:
                row['nb'] = read_batches(md, 'next-batches')
                row['pb'] = read_batches(md, 'previous-batches')
        rows.append(row)
        return ''
    src = '<dtml-in seq %s><dtml-call "rec(_)"><dtml-else>EMPTY</dtml-in>' % ' '.join(attrs)
    elems = elements(L, kind, mods.get('elem'))
    seq = container(kind, elems)
    if policy is not None:
        disp = expected_display(elems, mods)
        POLICY['refused'] = frozenset(disp[i - 1][1] for i in policy.get('refuse', ()) if 1 <= i <= len(disp))
        POLICY['log'] = []
        render = policy_template(src, policy.get('where', 'direct'))
    else:
        render = None
    # CPU time of this process, not wall-clock time: a loaded machine must not look like a hanging rendering
    old = signal.signal(signal.SIGVTALRM, _alarm)
    # a rendering takes milliseconds; one that has not returned after 2 s is taken not to terminate (once a few
    # have been seen the others are given less time, so a change that makes many of them hang cannot stall the check)
    if limit is None:
        limit = 3.0 if HANGS[0] < 3 else 1.0
    signal.setitimer(signal.ITIMER_VIRTUAL, limit)
    try:
        if render is not None:
            out = render(dict(kw, seq=seq, rec=rec))
        else:
            out = shared_template(src)(seq=seq, rec=rec, **kw)
    except Hang:
        return {'exc': 'Hang (no result after %.2f s of CPU time)' % limit, 'src': src}
    except Exception as e:  # noqa
        if policy is not None:
            return {'exc': type(e).__name__, 'src': src, 'policy': policy, 'rows': rows, 'asked': list(POLICY['log'])}
        return {'exc': type(e).__name__, 'src': src}
    finally:
        signal.setitimer(signal.ITIMER_VIRTUAL, 0)
        signal.signal(signal.SIGVTALRM, old)
        POLICY['refused'] = frozenset()
    touched = None
    if kind not in ('iter', 'gen', 'range'):
        now = list(seq._d) if isinstance(seq, NegSeq) else list(seq)
        if len(now) != len(elems) or any(a is not b and a != b for a, b in zip(now, elems)):
            touched = [ident(x) if not isinstance(x, tuple) else x for x in now][:20]
    if policy is not None and not mods.get('mode'):
        return {'src': src, 'policy': policy, 'empty': out == 'EMPTY', 'rows': rows, 'out': out[:40],
                'touched': touched, 'asked': list(POLICY['log'])}
    if out == 'EMPTY':
        return {'empty': True, 'src': src, 'touched': touched}
    if mods.get('mode'):
        return {'src': src, 'mode': mods['mode'], 'rows': rows, 'out': out[:40], 'touched': touched}
    if not rows:
        return {'src': src, 'nums': [], 'out': out[:40], 'touched': touched}
    nums = [r['sequence-number'] for r in rows]
    first, last = rows[0], rows[-1]
    return {
        'src': src,
        'nums': nums,
        'items': [r['item'] for r in rows],
        'keys': [r.get('key') for r in rows],
        'prev': bool(first['previous-sequence']),
        'pstart': first['previous-sequence-start-number'],
        'pend': first['previous-sequence-end-number'],
        'pidx': (first.get('previous-sequence-start-index'), first.get('previous-sequence-end-index'),
                 first.get('previous-sequence-size')),
        'next': bool(last['next-sequence']),
        'nstart': last['next-sequence-start-number'],
        'nend': last['next-sequence-end-number'],
        'nidx': (last.get('next-sequence-start-index'), last.get('next-sequence-end-index'),
                 last.get('next-sequence-size')),
        'step': (first.get('sequence-step-start-index'), first.get('sequence-step-end-index')),
        'mid_flags': any(r['previous-sequence'] for r in rows[1:]) or
        any(r['next-sequence'] for r in rows[:-1]),
        'startflags': [bool(r['sequence-start']) for r in rows],
        'endflags': [bool(r['sequence-end']) for r in rows],
        'sz': first['sequence-step-size'],
        'lists': 'nb' in last and 'pb' in first,
        'nb': last.get('nb'),
        'pb': first.get('pb'),
        'touched': touched,
    }


def model_req(L, params, lazy):
    return {'op': 'batch', 'start': eff(params, 'start'), 'end': eff(params, 'end'),
            'size': eff(params, 'size'), 'orphan': eff(params, 'orphan'),
            'overlap': eff(params, 'overlap'), 'len': L, 'lazy': lazy}


def compare(obs, m):
    """impl observation vs model response; returns None or a description."""
    if 'exc' in obs:
        return 'impl raised %s' % obs['exc']
    if obs.get('empty'):
        return None  # L == 0: else branch; the model has no window
    st, e = m['start'], m['end']
    if obs['nums'] != list(range(st, e + 1)) or not obs['nums']:
        return 'window: impl %s model %d..%d' % (obs['nums'][:20], st, e)
    if obs['prev'] != m['prev'] or obs['next'] != m['next']:
        return 'flags: impl prev=%s next=%s model prev=%s next=%s' % (
            obs['prev'], obs['next'], m['prev'], m['next'])
    if m['prev'] and (obs['pstart'], obs['pend']) != (m['pstart'], m['pend']):
        return 'prev link: impl %s..%s model %s..%s' % (obs['pstart'], obs['pend'], m['pstart'], m['pend'])
    if m['next'] and (obs['nstart'], obs['nend']) != (m['nstart'], m['nend']):
        return 'next link: impl %s..%s model %s..%s' % (obs['nstart'], obs['nend'], m['nstart'], m['nend'])
    if obs['sz'] != m['size']:
        return 'size: impl %s model %s' % (obs['sz'], m['size'])
    return None


def compare_policy(obs, m, mods):
    """a rendering under a security policy vs the model's window and links: the rows displayed are the elements of
    the model's window the policy allows; the flags and links on the first / last element of the window are the
    model's"""
    if obs.get('exc', '').startswith('Hang'):
        return 'impl raised %s' % obs['exc']
    if obs.get('empty'):
        return None  # L == 0
    st, e = m['start'], m['end']
    skip = bool(mods.get('skip_unauthorized'))
    refused = sorted(i for i in set(mods['policy'].get('refuse', ())) if st <= i <= e)
    if refused and not skip:
        if obs.get('exc') != 'Unauthorized':
            return 'refused element %d in the model window %d..%d: impl %s' % (refused[0], st, e, obs.get('exc') or 'rendered')
        visible = list(range(st, refused[0]))
    else:
        if 'exc' in obs:
            return 'impl raised %s' % obs['exc']
        visible = [i for i in range(st, e + 1) if i not in refused]
    rows = obs['rows']
    nums = [r['sequence-number'] for r in rows]
    if nums != visible:
        return 'window: impl %s model %d..%d without %s' % (nums[:20], st, e, refused)
    for n, r in zip(nums, rows):
        if n == st:
            if bool(r['previous-sequence']) != m['prev']:
                return 'flags: impl prev=%s model prev=%s' % (r['previous-sequence'], m['prev'])
            if m['prev'] and (r['previous-sequence-start-number'], r['previous-sequence-end-number']) != (m['pstart'], m['pend']):
                return 'prev link: impl %s..%s model %s..%s' % (
                    r['previous-sequence-start-number'], r['previous-sequence-end-number'], m['pstart'], m['pend'])
        if n == e:
            if bool(r['next-sequence']) != m['next']:
                return 'flags: impl next=%s model next=%s' % (r['next-sequence'], m['next'])
            if m['next'] and (r['next-sequence-start-number'], r['next-sequence-end-number']) != (m['nstart'], m['nend']):
                return 'next link: impl %s..%s model %s..%s' % (
                    r['next-sequence-start-number'], r['next-sequence-end-number'], m['nstart'], m['nend'])
        if r['sequence-step-size'] != m['size']:
            return 'size: impl %s model %s' % (r['sequence-step-size'], m['size'])
    return None


def compare_mode(obs, m, mode):
    """the `next` / `previous` form of the tag vs the model's links"""
    if 'exc' in obs:
        return 'impl raised %s' % obs['exc']
    want = m['next'] if mode == 'next' else m['prev']
    if bool(obs.get('empty')) == bool(want):
        return '%s form: impl rendered=%s model %s=%s' % (mode, not obs.get('empty'), mode, want)
    if want:
        if not obs.get('rows'):
            return '%s form: body not rendered' % mode
        row = obs['rows'][0]
        if mode == 'next':
            got = (row['next-sequence-start-number'], row['next-sequence-end-number'])
            exp = (m['nstart'], m['nend'])
        else:
            got = (row['previous-sequence-start-number'], row['previous-sequence-end-number'])
            exp = (m['pstart'], m['pend'])
        if got != exp:
            return '%s form link: impl %s model %s' % (mode, got, exp)
    return None


# ----------------------------------------------------------------------------
# the property

def window_end(L, start, size, orphan):
    """the window ends at start+size-1 unless fewer than orphan elements would remain after it"""
    want = start + size - 1
    if L - want < orphan or want > L:
        want = L
    return want


def expected_window(L, params):
    """the displayed window where the property text determines it; else None"""
    start, end, size = eff(params, 'start'), eff(params, 'end'), eff(params, 'size')
    if 1 <= start <= end <= L:
        return start, end
    if 1 <= start <= L and end <= 0 and size >= 1:
        return start, window_end(L, start, size, eff(params, 'orphan'))
    return None


def check_batch_entries(L, entries, what):
    bad = []
    for b in entries:
        bs, be, bsz, bsi, bei = b
        if not (1 <= bs <= be <= L):
            bad.append('%s: batch %s..%s outside 1..%d' % (what, bs, be, L))
            break
        if bsz != be - bs + 1 or bsi != bs - 1 or bei != be - 1:
            bad.append('%s: batch %d..%d has size %s, indexes %s..%s' % (what, bs, be, bsz, bsi, bei))
            break
    return bad


def check_next_list(L, e, link, nb, params):
    """next-batches = the batches reached by following the next links from a window ending at e:
    the first is the announced one, each starts at (end of the one before)+1-overlap, the last one ends
    at the last element; with an explicit size each ends by the window rule."""
    what = 'next-batches'
    if nb is None:
        return ['%s not defined' % what]
    if not nb:
        return ['%s is empty although elements %d..%d remain and next batch %s..%s is announced' % (
            what, e + 1, L, link[0], link[1])]
    bad = check_batch_entries(L, nb, what)
    if bad:
        return bad
    if tuple(nb[0][:2]) != tuple(link):
        bad.append('%s starts with %s..%s, announced next batch is %s..%s' % (
            what, nb[0][0], nb[0][1], link[0], link[1]))
    overlap, orphan, size = eff(params, 'overlap'), eff(params, 'orphan'), eff(params, 'size')
    pe = e
    for b in nb:
        bs, be = b[0], b[1]
        if bs != max(1, pe + 1 - overlap):
            bad.append('%s: batch %d..%d does not start at %d+1-overlap(%d)' % (what, bs, be, pe, overlap))
            break
        if be <= pe:
            bad.append('%s: batch %d..%d shows nothing new after %d' % (what, bs, be, pe))
            break
        if size >= 1 and be != window_end(L, bs, size, orphan):
            bad.append('%s: batch %d..%d should end at %d (size %d orphan %d)' % (
                what, bs, be, window_end(L, bs, size, orphan), size, orphan))
            break
        pe = be
    else:
        if pe != L:
            bad.append('%s stops at %d of %d' % (what, pe, L))
    return bad


def check_prev_list(L, s, link, pb, params):
    """previous-batches = the batches reached by following the previous links from a window starting at
    s, in display order: the last is the announced one, each ends at (start of the one after)-1+overlap,
    the first starts at element 1; with an explicit size each holds the size elements up to its end and
    runs to element 1 when fewer than orphan elements would precede it."""
    what = 'previous-batches'
    if pb is None:
        return ['%s not defined' % what]
    if not pb:
        return ['%s is empty although elements 1..%d precede and previous batch %s..%s is announced' % (
            what, s - 1, link[0], link[1])]
    bad = check_batch_entries(L, pb, what)
    if bad:
        return bad
    if tuple(pb[-1][:2]) != tuple(link):
        bad.append('%s ends with %s..%s, announced previous batch is %s..%s' % (
            what, pb[-1][0], pb[-1][1], link[0], link[1]))
    overlap, orphan, size = eff(params, 'overlap'), eff(params, 'orphan'), eff(params, 'size')
    ns = s
    for b in reversed(pb):
        bs, be = b[0], b[1]
        if be != min(L, ns - 1 + overlap):
            bad.append('%s: batch %d..%d does not end at %d-1+overlap(%d)' % (what, bs, be, ns, overlap))
            break
        if bs >= ns:
            bad.append('%s: batch %d..%d does not start before %d' % (what, bs, be, ns))
            break
        if size >= 1:
            want = be + 1 - size
            if want - 1 < orphan:
                want = 1
            if bs != want:
                bad.append('%s: batch %d..%d should start at %d (size %d orphan %d)' % (
                    what, bs, be, want, size, orphan))
                break
        ns = bs
    else:
        if ns != 1:
            bad.append('%s stops at %d, element 1 is never reached' % (what, ns))
    return bad


def oracle(L, params, obs, kind='list', mods=NOMODS):
    """The property itself, on the implementation's observation.  Returns list of failures."""
    bad = []
    if obs.get('touched') is not None:
        bad.append("the caller's sequence was changed by the rendering: now %s" % (obs['touched'],))
    if mods.get('mode'):
        return bad + mode_oracle(L, params, obs, kind, mods)
    if mods.get('policy') is not None:
        return bad + policy_oracle(L, params, obs, kind, mods)
    if L == 0:
        if not obs.get('empty'):
            bad.append('empty sequence did not render the else body: %r' % (obs,))
        return bad
    if 'exc' in obs:
        return ['rendering raised %s' % obs['exc']]
    if obs.get('empty'):
        return ['non-empty sequence rendered the else body']
    nums = obs['nums']
    if not nums:
        return ['nothing displayed']
    s, e = nums[0], nums[-1]
    if nums != list(range(s, e + 1)):
        bad.append('displayed elements not contiguous: %s' % nums[:30])
    if not (1 <= s <= e <= L):
        bad.append('window %d..%d outside 1..%d' % (s, e, L))
    else:
        # the elements themselves: the window of the sequence as Python orders it
        exp = expected_display(elements(L, kind, mods.get('elem')), mods)[s - 1:e]
        if obs['items'] != [x[1] for x in exp] and len(nums) == e - s + 1:
            bad.append('elements displayed at %d..%d: %s, the sequence has %s there' % (
                s, e, obs['items'][:12], [x[1] for x in exp][:12]))
        if mods.get('elem') == 'pair' and obs['keys'] != [x[0] for x in exp] and len(nums) == e - s + 1:
            bad.append('sequence-key at %d..%d: %s, expected %s' % (s, e, obs['keys'][:12], [x[0] for x in exp][:12]))
    start, end, size = eff(params, 'start'), eff(params, 'end'), eff(params, 'size')
    orphan, overlap = eff(params, 'orphan'), eff(params, 'overlap')
    if 1 <= start <= L and end <= 0 and size >= 1:
        want = window_end(L, start, size, orphan)
        if (s, e) != (start, want):
            bad.append('start/size window: displayed %d..%d, expected %d..%d' % (s, e, start, want))
    if 1 <= start <= end <= L:
        if (s, e) != (start, end):
            bad.append('explicit window: displayed %d..%d, expected %d..%d' % (s, e, start, end))
    if size >= 1 and obs['sz'] != size:
        bad.append('sequence-step-size %s, size given %d' % (obs['sz'], size))
    if obs['step'] != (s - 1, e - 1):
        bad.append('sequence-step-start/end-index %s, displayed %d..%d' % (obs['step'], s, e))
    if obs['next'] != (e < L):
        bad.append('next-sequence=%s but end=%d len=%d' % (obs['next'], e, L))
    if obs['prev'] != (s > 1):
        bad.append('previous-sequence=%s but start=%d' % (obs['prev'], s))
    if obs['mid_flags']:
        bad.append('previous-/next-sequence true on an inner element')
    if obs['startflags'] != [i == 0 for i in range(len(nums))]:
        bad.append('sequence-start flags %s' % obs['startflags'][:30])
    if obs['endflags'] != [i == len(nums) - 1 for i in range(len(nums))]:
        bad.append('sequence-end flags %s' % obs['endflags'][:30])
    if obs['next'] and overlap >= 0:
        want = max(1, e + 1 - overlap)
        if obs['nstart'] != want:
            bad.append('next batch starts at %s, expected end+1-overlap=%d' % (obs['nstart'], want))
        if not isinstance(obs['nstart'], int) or not isinstance(obs['nend'], int):
            bad.append('next batch %s..%s is not a pair of numbers' % (obs['nstart'], obs['nend']))
        elif obs['nidx'] != (obs['nstart'] - 1, obs['nend'] - 1, obs['nend'] - obs['nstart'] + 1):
            bad.append('next-sequence-start-index/-end-index/-size %s for batch %s..%s' % (
                obs['nidx'], obs['nstart'], obs['nend']))
    if obs['prev'] and overlap >= 0:
        want = min(L, s - 1 + overlap)
        if obs['pend'] != want:
            bad.append('previous batch ends at %s, expected start-1+overlap=%d' % (obs['pend'], want))
        if not isinstance(obs['pstart'], int) or not isinstance(obs['pend'], int):
            bad.append('previous batch %s..%s is not a pair of numbers' % (obs['pstart'], obs['pend']))
        elif obs['pidx'] != (obs['pstart'] - 1, obs['pend'] - 1, obs['pend'] - obs['pstart'] + 1):
            bad.append('previous-sequence-start-index/-end-index/-size %s for batch %s..%s' % (
                obs['pidx'], obs['pstart'], obs['pend']))
    if obs['lists'] and 1 <= s <= e <= L:
        if obs['next']:
            bad += check_next_list(L, e, (obs['nstart'], obs['nend']), obs['nb'], params)
        elif obs['nb']:
            bad.append('next-batches %s although nothing remains' % (obs['nb'][:4],))
        if obs['prev']:
            bad += check_prev_list(L, s, (obs['pstart'], obs['pend']), obs['pb'], params)
        elif obs['pb']:
            bad.append('previous-batches %s although nothing precedes' % (obs['pb'][:4],))
    return bad


def policy_oracle(L, params, obs, kind, mods):
    """A batched dtml-in rendered by a template class whose security policy refuses the elements at the (display)
    positions R.  The window s..e is the one the property determines from the parameters (the policy has no say in
    it); what is displayed are the elements of the window the policy allows, in order, under their own numbers:
    all of them with skip_unauthorized, else the ones before the first refused one, and then Unauthorized is raised.
    On every displayed row: previous-sequence is true exactly on element s when elements precede, next-sequence
    exactly on element e when elements remain, sequence-start / sequence-end exactly on s / e; wherever a link
    variable is defined it names the neighbouring batch of the WINDOW (next starts at e+1-overlap and ends by the
    window rule, previous ends at s-1+overlap), its -index / -size spellings agree, and it is defined where the flag
    is true; the step variables name the window.
    Not judged (the property text can be read either way): whether the first displayed element takes over
    previous-sequence / sequence-start when element s itself is hidden, and the last displayed one next-sequence /
    sequence-end when element e is hidden; every other row is judged."""
    policy = mods['policy']
    skip = bool(mods.get('skip_unauthorized'))
    if obs.get('exc', '').startswith('Hang'):
        return ['rendering raised %s' % obs['exc']]
    if L == 0:
        if 'exc' in obs or not obs.get('empty'):
            return ['empty sequence did not render the else body: %r' % (obs,)]
        return []
    w = expected_window(L, params)
    if w is None:
        return []
    s, e = w
    refused = sorted(i for i in set(policy.get('refuse', ())) if s <= i <= e)
    bad = []
    if refused and not skip:
        visible = list(range(s, refused[0]))
        if obs.get('exc') != 'Unauthorized':
            return ['element %d of the window %d..%d is refused by the policy and skip_unauthorized is not given: '
                    'expected Unauthorized, got %s' % (refused[0], s, e,
                                                       obs.get('exc') or 'a rendering of %d rows' % len(obs['rows']))]
    else:
        visible = [i for i in range(s, e + 1) if i not in refused]
        if 'exc' in obs:
            return ['rendering raised %s (refused: %s, skip_unauthorized: %s)' % (obs['exc'], refused, skip)]
        if obs.get('empty') and visible:
            return ['non-empty window rendered the else body']
    rows = obs['rows']
    nums = [r['sequence-number'] for r in rows]
    if nums != visible:
        return ['displayed elements %s; the window is %d..%d, the policy refuses %s%s: expected %s' % (
            nums[:30], s, e, refused, ' (skipped)' if skip else '', visible[:30])]
    disp = expected_display(elements(L, kind, mods.get('elem')), mods)
    want_items = [disp[i - 1][1] for i in visible]
    if [r['item'] for r in rows] != want_items:
        bad.append('elements displayed as %s: %s, the sequence has %s there' % (
            nums[:12], [r['item'] for r in rows][:12], want_items[:12]))
    if mods.get('elem') == 'pair' and [r.get('key') for r in rows] != [disp[i - 1][0] for i in visible]:
        bad.append('sequence-key on %s: %s' % (nums[:12], [r.get('key') for r in rows][:12]))
    size, orphan, overlap = eff(params, 'size'), eff(params, 'orphan'), eff(params, 'overlap')
    want_pend = min(L, s - 1 + overlap)
    want_nstart = max(1, e + 1 - overlap)
    for n, row in zip(nums, rows):
        for flag, at, cond in (('previous-sequence', s, s > 1), ('sequence-start', s, True),
                               ('next-sequence', e, e < L), ('sequence-end', e, True)):
            got = bool(row[flag])
            # (a skipped boundary element: whether its neighbour takes the flag over is not judged)
            takes_over = skip and at in refused and n == (nums[0] if at == s else nums[-1])
            if n == at:
                if got != cond:
                    bad.append('%s=%s on element %d (window %d..%d of %d, refused %s)' % (flag, got, n, s, e, L, refused))
            elif got and not takes_over:
                bad.append('%s true on element %d, which is not the %s of the window %d..%d (refused %s; displayed %s)'
                           % (flag, n, 'first' if at == s else 'last', s, e, refused, nums[:12]))
        if (row['sequence-step-start-index'], row['sequence-step-end-index']) != (s - 1, e - 1):
            bad.append('sequence-step-start/end-index %s..%s on element %d, window is %d..%d' % (
                row['sequence-step-start-index'], row['sequence-step-end-index'], n, s, e))
        if size >= 1 and row['sequence-step-size'] != size:
            bad.append('sequence-step-size %s on element %d, size given %d' % (row['sequence-step-size'], n, size))
        ps, pe = row['previous-sequence-start-number'], row['previous-sequence-end-number']
        ns, ne = row['next-sequence-start-number'], row['next-sequence-end-number']
        if row['previous-sequence'] and (ps is None or pe is None):
            bad.append('previous-sequence true on element %d but the previous batch is not announced' % n)
        if row['next-sequence'] and (ns is None or ne is None):
            bad.append('next-sequence true on element %d but the next batch is not announced' % n)
        if (ps is not None or pe is not None) and overlap >= 0:
            if s == 1:
                bad.append('previous batch %s..%s announced on element %d although the window starts at 1' % (ps, pe, n))
            elif not isinstance(ps, int) or not isinstance(pe, int):
                bad.append('previous batch %s..%s on element %d is not a pair of numbers' % (ps, pe, n))
            elif pe != want_pend or not 1 <= ps <= pe:
                bad.append('previous batch %s..%s on element %d, expected to end at start-1+overlap=%d' % (
                    ps, pe, n, want_pend))
            elif (row['previous-sequence-start-index'], row['previous-sequence-end-index'],
                  row['previous-sequence-size']) != (ps - 1, pe - 1, pe - ps + 1):
                bad.append('previous-sequence-start-index/-end-index/-size on element %d disagree with %s..%s' % (n, ps, pe))
        if (ns is not None or ne is not None) and overlap >= 0:
            if e == L:
                bad.append('next batch %s..%s announced on element %d although the window ends at the last element' % (
                    ns, ne, n))
            elif not isinstance(ns, int) or not isinstance(ne, int):
                bad.append('next batch %s..%s on element %d is not a pair of numbers' % (ns, ne, n))
            elif ns != want_nstart or not ns <= ne <= L:
                bad.append('next batch %s..%s on element %d, expected to start at end+1-overlap=%d' % (
                    ns, ne, n, want_nstart))
            elif size >= 1 and ne != window_end(L, ns, size, orphan):
                bad.append('next batch %s..%s on element %d should end at %d (size %d orphan %d)' % (
                    ns, ne, n, window_end(L, ns, size, orphan), size, orphan))
            elif (row['next-sequence-start-index'], row['next-sequence-end-index'],
                  row['next-sequence-size']) != (ns - 1, ne - 1, ne - ns + 1):
                bad.append('next-sequence-start-index/-end-index/-size on element %d disagree with %s..%s' % (n, ns, ne))
        # the batch lists, where the tag was asked for them: on the rows that carry the flag they are the links followed
        if n == e and 'nb' in row and isinstance(ns, int) and isinstance(ne, int) and e < L:
            bad += check_next_list(L, e, (ns, ne), row['nb'], params)
        if n == s and 'pb' in row and isinstance(ps, int) and isinstance(pe, int) and s > 1:
            bad += check_prev_list(L, s, (ps, pe), row['pb'], params)
        if len(bad) > 6:
            break
    return bad


def mode_oracle(L, params, obs, kind, mods):
    """<dtml-in … next> / <dtml-in … previous>: the body is rendered exactly once, with the link variables
    set, when a following / preceding batch exists; otherwise the else body.  Only generated for
    parameters whose window the property determines."""
    mode = mods['mode']
    if 'exc' in obs:
        return ['rendering raised %s' % obs['exc']]
    if L == 0:
        return [] if obs.get('empty') else ['empty sequence did not render the else body']
    w = expected_window(L, params)
    if w is None:
        return []
    s, e = w
    overlap = eff(params, 'overlap')
    want = (e < L) if mode == 'next' else (s > 1)
    if obs.get('empty'):
        if want:
            return ['%s form rendered the else body although the window %d..%d of %d has a %s batch' % (
                mode, s, e, L, mode)]
        return []
    if not want:
        return ['%s form rendered its body although the window %d..%d of %d has no %s batch' % (mode, s, e, L, mode)]
    rows = obs['rows']
    if len(rows) != 1:
        return ['%s form rendered its body %d times' % (mode, len(rows))]
    row = rows[0]
    bad = []
    if (row['sequence-step-start-index'], row['sequence-step-end-index']) != (s - 1, e - 1):
        bad.append('%s form: sequence-step-start/end-index %s..%s, window is %d..%d' % (
            mode, row['sequence-step-start-index'], row['sequence-step-end-index'], s, e))
    listed = 'nb' in row
    if mode == 'next':
        if not row['next-sequence']:
            bad.append('next form: next-sequence not true')
        ns, ne = row['next-sequence-start-number'], row['next-sequence-end-number']
        if ns != max(1, e + 1 - overlap):
            bad.append('next form: next batch starts at %s, expected end+1-overlap=%d' % (ns, max(1, e + 1 - overlap)))
        elif not isinstance(ne, int):
            bad.append('next form: next batch %s..%s is not a pair of numbers' % (ns, ne))
        elif (row['next-sequence-start-index'], row['next-sequence-end-index'],
              row['next-sequence-size']) != (ns - 1, ne - 1, ne - ns + 1):
            bad.append('next form: -index/-size spellings disagree with %s..%s' % (ns, ne))
        if listed:
            bad += check_next_list(L, e, (ns, ne), row['nb'], params)
    else:
        if not row['previous-sequence']:
            bad.append('previous form: previous-sequence not true')
        ps, pe = row['previous-sequence-start-number'], row['previous-sequence-end-number']
        if pe != min(L, s - 1 + overlap):
            bad.append('previous form: previous batch ends at %s, expected start-1+overlap=%d' % (
                pe, min(L, s - 1 + overlap)))
        elif not isinstance(ps, int):
            bad.append('previous form: previous batch %s..%s is not a pair of numbers' % (ps, pe))
        elif (row['previous-sequence-start-index'], row['previous-sequence-end-index'],
              row['previous-sequence-size']) != (ps - 1, pe - 1, pe - ps + 1):
            bad.append('previous form: -index/-size spellings disagree with %s..%s' % (ps, pe))
        if listed:
            bad += check_prev_list(L, s, (ps, pe), row['pb'], params)
    return bad


def tiling_oracle(L, size, orphan, overlap, lazy=False, kind=None, mods=NOMODS, via_vars=False):
    """follow next-sequence-start-number from 1; then previous from the last window.  The elements shown
    along the way must be the whole sequence in (Python's) order; the batch lists announced on the first /
    last window must be exactly the windows visited."""
    kind = kind or ('iter' if lazy else 'list')
    bad = []
    windows = []
    shown = []
    first_nb = None
    start = 1
    for _ in range(L + 3):
        p = {'start': start, 'size': size, 'orphan': orphan, 'overlap': overlap}
        obs = observe(L, p, via_vars=via_vars, kind=kind, mods=mods)
        if 'exc' in obs or obs.get('empty') or not obs['nums']:
            return ['tiling render failed at start=%d: %r' % (start, obs)], windows
        s, e = obs['nums'][0], obs['nums'][-1]
        if s != start:
            bad.append('window asked at %d starts at %d' % (start, s))
        if windows and windows[-1][1] >= e:
            bad.append('window %d..%d shows nothing new after %s' % (s, e, windows[-1]))
            break
        new = obs['items'] if not windows else obs['items'][max(0, windows[-1][1] + 1 - s):]
        shown.extend(new)
        if not windows:
            first_nb = obs['nb'] if obs['lists'] else None
        windows.append((s, e))
        if not obs['next']:
            break
        start = obs['nstart']
    else:
        bad.append('following next did not terminate: %s' % windows[:8])
    if windows[0][0] != 1:
        bad.append('first window starts at %d' % windows[0][0])
    if windows[-1][1] != L:
        bad.append('last window ends at %d != %d' % (windows[-1][1], L))
    for (a, b) in zip(windows, windows[1:]):
        if b[0] != a[1] + 1 - overlap:
            bad.append('neighbours %s %s do not share exactly %d' % (a, b, overlap))
        if not a[0] < b[0]:
            bad.append('starts not increasing %s %s' % (a, b))
    covered = set()
    for (s, e) in windows:
        covered.update(range(s, e + 1))
    if covered != set(range(1, L + 1)):
        bad.append('elements never shown: %s' % sorted(set(range(1, L + 1)) - covered))
    want = [x[1] for x in expected_display(elements(L, kind, mods.get('elem')), mods)]
    if not bad and shown != want:
        bad.append('following next shows the elements %s, the sequence is %s' % (shown[:15], want[:15]))
    if first_nb is not None and not bad and [tuple(b[:2]) for b in first_nb] != windows[1:]:
        bad.append('next-batches of the first window %s, following next visits %s' % (
            [tuple(b[:2]) for b in first_nb][:8], windows[1:9]))
    # previous direction
    start = windows[-1][0]
    visited = []
    last_pb = None
    for i in range(L + 3):
        obs = observe(L, {'start': start, 'size': size, 'orphan': orphan, 'overlap': overlap},
                      via_vars=via_vars, kind=kind, mods=mods)
        if 'exc' in obs or obs.get('empty') or not obs['nums']:
            bad.append('tiling render failed at start=%d: %r' % (start, obs))
            break
        if i == 0 and obs['lists']:
            last_pb = obs['pb']
        if not obs['prev']:
            if obs['nums'][0] != 1:
                bad.append('previous chain stopped at %d' % obs['nums'][0])
            break
        if obs['pstart'] >= start:
            bad.append('previous start %s not before %d' % (obs['pstart'], start))
            break
        visited.append((obs['pstart'], obs['pend']))
        start = obs['pstart']
    else:
        bad.append('following previous did not reach 1')
    if last_pb is not None and not bad and [tuple(b[:2]) for b in last_pb] != visited[::-1]:
        bad.append('previous-batches of the last window %s, following previous visits %s' % (
            [tuple(b[:2]) for b in last_pb][:8], visited[::-1][:8]))
    return bad, windows


# ----------------------------------------------------------------------------
# generators

def param_space(tier, r):
    starts = [ABSENT] + list(range(-1, 17))
    ends = [ABSENT] + list(range(-1, 17))
    sizes = [ABSENT] + list(range(-1, 8))
    orphans = [ABSENT] + list(range(0, 5))
    overlaps = [ABSENT] + list(range(0, 4))
    lens = list(range(0, 15))
    full = tier == 'thorough'
    for L in lens:
        for st, en, sz in itertools.product(starts, ends, sizes):
            if st is ABSENT and en is ABSENT and sz is ABSENT:
                continue  # not a batch (orphan/overlap would be a ParseError)
            for orp, ov in itertools.product(orphans, overlaps):
                if not full:
                    # quick: boundary planes + a seed-selected 1/24 slice
                    boundary = (L in (0, 1, 14) and st in (ABSENT, 1, L, L + 1) and
                                en in (ABSENT, L, L + 1) and sz in (ABSENT, 1, 7))
                    if not boundary and r.random() > 1 / 40.0:
                        continue
                yield L, {'start': st, 'end': en, 'size': sz, 'orphan': orp, 'overlap': ov}


REVERSES = (None, 'flag', 'expr1', 'expr0')


def random_mods(r, kind, plain=0.0):
    """a random combination of the other options of the tag (and the element type they need)"""
    if r.random() < plain:
        return {}
    m = {}
    elem = 'int' if kind == 'range' else r.choice(ELEMS)
    if elem != 'int':
        m['elem'] = elem
    m['reverse'] = r.choice(REVERSES)
    if elem in ('int', 'pair'):
        m['sort'] = r.choice([None, None, 'item'])
    else:
        m['sort'] = r.choice([None, None, 'k', 'kdesc', 'expr', 'exprdesc'])
    for flag, p in (('no_push_item', 0.15), ('skip_unauthorized', 0.15), ('prefix', 0.2)):
        if r.random() < p:
            m[flag] = True
    return {k: v for k, v in m.items() if v}


def random_params(r, L, well=False):
    """batch parameters around a sequence of length L; `well`: start in range, size >= 1 (the window the
    property determines), with a bias towards windows that reach the end of the sequence"""
    p = {}
    if well:
        size = r.randint(1, 7)
        p['size'] = size
        c = r.random()
        if c < 0.45:
            p['start'] = max(1, min(L, L - size + r.randint(-1, 2)))
        else:
            p['start'] = r.randint(1, max(1, L))
        c = r.random()
        if c < 0.3 and L:
            p['end'] = r.randint(p['start'], L)       # an explicit end cuts the window short
        p['orphan'] = r.choice([ABSENT, 0, 0, 1, 2, 3, 4])
        p['overlap'] = r.choice([ABSENT, 0, 0, 1, 2, 3])
        return p
    for k, lo, hi in (('start', -2, L + 4), ('end', -2, L + 4), ('size', -1, min(L + 3, 12)),
                      ('orphan', 0, 6), ('overlap', 0, 5)):
        c = r.random()
        if c < 0.3:
            p[k] = ABSENT
        elif c < 0.35:
            p[k] = 'flag'
        else:
            p[k] = r.randint(lo, hi)
    if p['start'] is ABSENT and p['end'] is ABSENT and p['size'] is ABSENT:
        p['size'] = r.randint(1, 5)
    return p


VIAS = (False, True, 'str', 'call')


def option_cases(tier, r):
    """containers x other options of the tag x batch windows (the deterministic part: every container with
    every way of reversing, on the windows at the front, in the middle and at the end of the sequence)"""
    for kind in KINDS:
        for rv in REVERSES:
            for srt in (None, 'item'):
                mods = {k: v for k, v in (('reverse', rv), ('sort', srt)) if v}
                for L in (1, 4, 10):
                    for start in sorted({1, max(1, L - 2), L}):
                        for size in (1, 3, 4):
                            for orphan, overlap in ((0, 0), (2, 1)):
                                yield (L, {'start': start, 'size': size, 'orphan': orphan, 'overlap': overlap},
                                       r.choice(VIAS), kind, mods)
    n = 5000 if tier == 'quick' else 60000
    for _ in range(n):
        L = r.choice([0, 1, 2, 3, 4, 5, 7, 9, 10, 14, 15, 40])
        kind = r.choice(KINDS)
        yield L, random_params(r, L, well=r.random() < 0.6), r.choice(VIAS), kind, random_mods(r, kind)


def mode_cases(tier, r):
    """the `next` / `previous` forms of the tag, on windows the property determines"""
    for mode in ('next', 'previous'):
        for L in (range(1, 8) if tier == 'quick' else range(1, 15)):
            for start in range(1, L + 1):
                for size in (1, 2, 3, 5):
                    for orphan in (0, 1, 3):
                        for overlap in (0, 1, 2):
                            yield (L, {'start': start, 'size': size, 'orphan': orphan, 'overlap': overlap},
                                   False, 'list', {'mode': mode})
    n = 1500 if tier == 'quick' else 20000
    for _ in range(n):
        L = r.choice([1, 2, 3, 5, 7, 10, 14, 40])
        kind = r.choice(KINDS)
        m = random_mods(r, kind, plain=0.4)
        m['mode'] = r.choice(('next', 'previous'))
        yield L, random_params(r, L, well=True), r.choice(VIAS), kind, m


def refusal_patterns(L, s, e):
    """which elements a policy refuses, relative to the window s..e of a sequence of length L (display positions):
    nothing, each end, both ends, runs at either end, inner elements, everything, and the neighbours outside"""
    mid = (s + e) // 2
    pats = [[], [s], [e], [s, e], [s, s + 1], [e - 1, e], [s + 1], [e - 1], [mid], [s, mid], list(range(s, mid + 1)),
            list(range(mid, e + 1)), list(range(s, e + 1)), [s - 1], [e + 1], [s - 1, e + 1], [s - 1, s], [e, e + 1],
            list(range(s + 1, e)), list(range(1, s)) + list(range(e + 1, L + 1))]
    out, seen = [], set()
    for pat in pats:
        pat = sorted({i for i in pat if 1 <= i <= L and (s <= i <= e or i in (s - 1, e + 1) or len(pat) > 2)})
        if tuple(pat) not in seen:
            seen.add(tuple(pat))
            out.append(pat)
    return out


def policy_cases(tier, r):
    """template classes with a security policy x refused elements x skip_unauthorized x batch windows (the windows
    the property determines), crossed with how the policy reaches the tag, the containers and the other options"""
    quick = tier == 'quick'
    n = 0
    for L in ((1, 2, 3, 5, 8) if quick else range(1, 13)):
        for start in range(1, L + 1):
            for size in ((1, 2, 3, 4, 7) if quick else range(1, 8)):
                for orphan, overlap in (((0, 0), (2, 1)) if quick else ((0, 0), (2, 1), (1, 0), (0, 2), (3, 3))):
                    p = {'start': start, 'size': size, 'orphan': orphan, 'overlap': overlap}
                    s, e = expected_window(L, p)
                    for pat in refusal_patterns(L, s, e):
                        for skip in (True, False):
                            n += 1
                            mods = {'policy': {'refuse': pat, 'where': WHERES[n % 3 if n % 7 < 3 else 0]}}
                            if skip:
                                mods['skip_unauthorized'] = True
                            yield L, dict(p), (False if n % 5 else r.choice(VIAS)), 'list', mods
    for _ in range(4000 if quick else 60000):
        L = r.choice([1, 2, 3, 4, 5, 7, 9, 10, 14, 15, 40])
        kind = r.choice(KINDS)
        m = random_mods(r, kind, plain=0.3)
        m.pop('skip_unauthorized', None)
        if r.random() < 0.65:
            m['skip_unauthorized'] = True
        p = random_params(r, L, well=True)
        w = expected_window(L, p)
        s, e = w if w else (1, L)
        c = r.random()
        if c < 0.6:
            pat = r.choice(refusal_patterns(L, s, e))
        elif c < 0.8:
            pat = sorted(r.sample(range(s, e + 1), r.randint(1, e - s + 1)))
        else:
            pat = sorted(r.sample(range(1, L + 1), r.randint(0, min(L, 5))))
        m['policy'] = {'refuse': pat, 'where': r.choice(WHERES)}
        if r.random() < 0.08:
            m['mode'] = r.choice(('next', 'previous'))     # the policy has no say in the neighbouring batches
        yield L, p, r.choice(VIAS), kind, m


SLICE_VARS = ('sequence-number', 'sequence-index', 'sequence-start', 'sequence-end', 'previous-sequence',
              'next-sequence', 'previous-sequence-start-number', 'previous-sequence-end-number',
              'next-sequence-start-number', 'next-sequence-end-number', 'previous-sequence-size', 'next-sequence-size',
              'sequence-step-size', 'sequence-step-start-index', 'sequence-step-end-index')


def interp_policy_cases(tier, r):
    """programs for the Lean INTERPRETER (Render.inx_ / inLoopB with the item guard): one batched dtml-in over
    instances, rendered by a template class whose policy refuses some of them, with and without skip_unauthorized;
    the body prints every batch variable of every displayed row.  Compared: result (or Unauthorized), the ordered
    log of what the policy was asked, namespace events."""
    import proggen
    quick = tier == 'quick'

    def case(L, batch, refuse, skip, sort=False, reverse=False, prefix=False, no_push=False, caught=False, names=()):
        order = list(range(L))
        keys = [(i * 5 + 3) % 11 for i in range(L)]          # distinct for L <= 11, in no monotone order
        if sort:
            order.sort(key=lambda i: keys[i])
        if reverse:
            order.reverse()
        items = [{'o': i + 1, 'a': [['k', keys[i]], ['p', {'s': 'e%d' % (i + 1)}]]} for i in range(L)]
        body = [['lit', '[']]
        for v in SLICE_VARS:
            body += [['var', ['n', ('pf_' + v[9:]) if prefix and v in ('sequence-index', 'sequence-start', 'sequence-end')
                              else v], False, 'M', None], ['lit', ' ']]
        body += [['var', ['n', 'p'], False, 'M', None], ['lit', ']']]
        opts = {}
        if skip:
            opts['skip'] = True
        if prefix:
            opts['prefix'] = 'pf'
        if no_push:
            opts['noPush'] = True
        x = {'batch': {k: v for k, v in batch.items() if v}}
        kw = [['seq3', {'l': items}]]
        if names:
            x['names'] = []
            for pname in names:
                if pname in x['batch']:
                    kw.append(['b' + pname, x['batch'].pop(pname)])
                    x['names'].append([pname, 'b' + pname])
        if sort:
            x['sort'] = 'k'
        if reverse:
            x['reverse'] = True
        blocks = [['inx', ['n', 'seq3'], opts, x, body, [['lit', 'EMPTY']]]]
        if caught:
            blocks = [['try', blocks, [['', [['lit', 'CAUGHT']]]], None], ['lit', '.']]
        return {'templates': [{'blocks': blocks, 'globals': [], 'vars': [], 'source': proggen.print_blocks(blocks)}],
                'main': 0, 'clients': [], 'mapping': [], 'kw': kw, 'classes': proggen.class_table(), 'denied': [],
                'guard': True, 'utf8': True,
                # refused: the elements at these display positions
                'deniedItems': [order[i - 1] + 1 for i in refuse if 1 <= i <= L]}
    n = 0
    for L in ((1, 3, 6) if quick else range(1, 9)):
        for start in range(1, L + 1):
            for size in ((1, 3, 4) if quick else range(1, 6)):
                for orphan, overlap in (((0, 0), (2, 1)) if quick else ((0, 0), (2, 1), (1, 2))):
                    p = {'start': start, 'size': size, 'orphan': orphan, 'overlap': overlap}
                    s, e = expected_window(L, p)
                    for pat in refusal_patterns(L, s, e):
                        n += 1
                        if quick and n % 3 and pat not in ([s], [e]):
                            continue
                        yield case(L, p, pat, skip=n % 4 != 0, sort=n % 5 == 0, reverse=n % 7 == 0, prefix=n % 6 == 0,
                                   no_push=n % 11 == 0, caught=n % 4 == 0, names=('start', 'size')[:n % 3])
    for _ in range(500 if quick else 6000):
        L = r.randint(1, 10)
        p = random_params(r, L, well=True)
        p = {k: v for k, v in p.items() if isinstance(v, int)}
        s, e = expected_window(L, p)
        if r.random() < 0.7:
            pat = r.choice(refusal_patterns(L, s, e))
        else:
            pat = sorted(r.sample(range(1, L + 1), r.randint(0, min(L, 4))))
        if r.random() < 0.1:
            p[r.choice(('next', 'previous'))] = True
        yield case(L, p, pat, skip=r.random() < 0.7, sort=r.random() < 0.3, reverse=r.random() < 0.3,
                   prefix=r.random() < 0.2, no_push=r.random() < 0.1, caught=r.random() < 0.3,
                   names=r.sample(('start', 'end', 'size', 'orphan', 'overlap'), r.randint(0, 2)))


def interp_policy_slice(res, tier):
    """correspondence of the interpreter model with the real classes on the programs of interp_policy_cases"""
    import interp
    cases = list(interp_policy_cases(tier, common.rng('C11-policy-interp')))
    res.have_driver = True
    compared = 0
    for (c, plan, impl, m) in interp.run_cases(res, cases):
        res.evaluations += 1
        if m is None:
            continue
        d = interp.compare(impl, m)
        if d == 'oom':
            res.count('policy_slice_outside_model')
            continue
        compared += 1
        res.corr_checked += 1
        res.count('policy_slice_compared')
        if 'raise' in impl['result']:
            res.count('policy_slice_raised_%s' % impl['result']['raise'])
        if d:
            res.corr_mismatch.append({'case': {'source': c['templates'][0]['source'], 'kw': c['kw'],
                                               'deniedItems': c['deniedItems'],
                                               'slice': 'batched dtml-in under a security policy'},
                                      'impl': impl['result'], 'model': m['result'], 'diff': d})
    return compared


def case_dict(L, p, via, kind, mods, obs=None):
    d = {'len': L, 'params': p, 'via_vars': via, 'kind': kind, 'mods': mods}
    if obs is not None:
        d['src'] = obs.get('src')
    return d


def run(res, tier, have_driver):
    r = common.rng('C11')
    res.rule = ('exhaustive grid len 0..14 x start,end in {absent,-1..16} x size {absent,-1..7} x '
                'orphan {absent,0..4} x overlap {absent,0..3} (quick: boundary planes + seeded 1/40 '
                'slice), literals and variables, list and iterator; plus random larger values and '
                'valueless attributes.  Every case also reads the displayed ELEMENTS (must be the window '
                'of the sequence as Python orders it), the -index/-size spellings of the links, the step '
                'variables and, for overlap < size, the next-batches / previous-batches lists (first = '
                'announced batch, each continues the one before, last reaches the end / element 1, ends by '
                'the window rule).  Option cases: containers {list, tuple, range, UserList, deque, iterator, '
                'generator, user sequence with wrap-around indexes, user sequence refusing negative indexes} '
                'x elements {int, (key,value), mapping, instance} x {reverse, reverse_expr true/false, sort, '
                'sort_expr, asc/desc, mapping, no_push_item, prefix, skip_unauthorized} x windows biased to '
                'the end of the sequence; parameters as literals, int variables, numeric strings, callables; '
                'the caller\'s sequence must be unchanged.  Mode cases: the `next` / `previous` forms of the '
                'tag (body once iff the neighbouring batch exists, links as announced).  Security-policy cases: '
                'a template class with guarded_getitem refusing {nothing, first, last, both ends, runs at either end, '
                'inner elements, the whole window, the neighbours outside it, random subsets} x skip_unauthorized '
                'given / not given x policy reaching the tag {directly, through a plain sub-template of the '
                'restricted one, through dtml-with only} x containers x options x parameter forms, on the windows '
                'the property determines; every displayed row is read in full: displayed = the allowed elements of '
                'the window under their own numbers (Unauthorized at the first refused one without '
                'skip_unauthorized), previous-/next-sequence and sequence-start/-end only on the first / last '
                'element of the window, links and step variables those of the window on every row where defined.  '
                'Tiling histories '
                'also over containers/options, with the elements shown and the batch lists compared with '
                'the windows visited.  Compiled templates are shared by all cases (every template is '
                'rendered again with other data).  non-trivial = distinct (len,params,container,options) '
                'whose window is a proper sub-range or whose links are announced')
    res.exhaustive = tier == 'thorough'
    cases = []
    for L, p in param_space(tier, r):
        cases.append((L, p, False, 'list', NOMODS))
    # variables / lazy / flags / larger values
    n_extra = 4000 if tier == 'quick' else 40000
    for _ in range(n_extra):
        L = r.choice([0, 1, 2, 3, 5, 7, 14, 15, 40, 100, 333])
        p = {}
        for k, lo, hi in (('start', -2, L + 4), ('end', -2, L + 4), ('size', -1, L + 3),
                          ('orphan', 0, 6), ('overlap', 0, 5)):
            c = r.random()
            if c < 0.3:
                p[k] = ABSENT
            elif c < 0.35:
                p[k] = 'flag'
            else:
                p[k] = r.randint(lo, hi)
        if p['start'] is ABSENT and p['end'] is ABSENT and p['size'] is ABSENT:
            p['size'] = r.randint(1, 5)
        cases.append((L, p, r.random() < 0.5, 'iter' if r.random() < 0.4 else 'list', NOMODS))
    n_base = len(cases)
    cases.extend(option_cases(tier, r))
    n_opt = len(cases)
    cases.extend(mode_cases(tier, r))
    n_mode = len(cases)
    cases.extend(policy_cases(tier, common.rng('C11-policy')))
    reqs = []
    obss = []
    for n, (L, p, via, kind, mods) in enumerate(cases):
        obs = observe(L, p, via_vars=via, kind=kind, mods=mods)
        obss.append(obs)
        res.evaluations += 1
        res.count('len=%s' % (L if L < 15 else '15+'))
        res.count({False: 'literals', True: 'via_vars', 'str': 'via_string_vars',
                   'call': 'via_callable_vars'}[via])
        res.count('lazy' if kind in ('iter', 'gen') else 'list')
        res.count('cases_base' if n < n_base else 'cases_container_x_options' if n < n_opt
                  else 'cases_next_previous_form' if n < n_mode else 'cases_security_policy')
        if n >= n_mode:
            pol = mods['policy']
            w = expected_window(L, p)
            hid = [i for i in pol['refuse'] if w and w[0] <= i <= w[1]]
            res.count('policy via %s' % pol['where'])
            res.count('policy refuses %s of the window%s' % (
                'nothing' if not hid else 'the first element' if hid == [w[0]] else 'the last element' if hid == [w[1]]
                else 'all' if len(hid) == w[1] - w[0] + 1 else 'both ends' if w[0] in hid and w[1] in hid
                else 'the first and more' if w[0] in hid else 'the last and more' if w[1] in hid else 'inner elements',
                ', skipped' if mods.get('skip_unauthorized') else ''))
            if obs.get('exc') == 'Unauthorized':
                res.count('policy_rendering_refused')
        if n >= n_base:
            res.count('container=' + kind)
            for k, v in mods.items():
                if k != 'policy':        # (counted by class below)
                    res.count('option %s=%s' % (k, v))
        if obs.get('lists') or any('nb' in row for row in obs.get('rows', ())):
            res.count('batch_lists_read')
            if obs.get('nb') or obs.get('pb'):
                res.count('batch_lists_nonempty')
        try:
            fails = oracle(L, p, obs, kind, mods)
        except Exception:  # noqa  (an observation the oracle cannot read: reported, the run goes on)
            import traceback
            if len(res.harness_errors) < 3:
                res.harness_errors.append('oracle on %r:\n%s' % (case_dict(L, p, via, kind, mods, obs),
                                                                 traceback.format_exc()))
            fails = []
        for f in fails:
            fail = {'case': case_dict(L, p, via, kind, mods, obs), 'what': f}
            res.oracle_fail.append(fail)
        key = (L, tuple(sorted((k, str(v)) for k, v in p.items())), kind,
               tuple(sorted((k, str(v)) for k, v in mods.items())))
        if 'nums' in obs:
            if len(obs['nums']) < L or obs['prev'] or obs['next']:
                res.nt(key)
        elif obs.get('rows') or obs.get('exc') == 'Unauthorized':
            res.nt(key)
        reqs.append(model_req(L, p, neg_raises(kind, mods)))
    res.sample({'len': cases[0][0], 'params': cases[0][1], 'observation': obss[0]})
    mid = n_base // 2
    res.sample({'len': cases[mid][0], 'params': cases[mid][1], 'observation': obss[mid]})
    for i in (n_base - 1, n_base + 700, n_opt - 1, len(cases) - 1):
        res.sample({'len': cases[i][0], 'params': cases[i][1], 'via_vars': cases[i][2], 'container': cases[i][3],
                    'options': cases[i][4], 'observation': obss[i]})
    if have_driver:
        resp = common.run_driver(reqs)
        for (L, p, via, kind, mods), obs, rp in zip(cases, obss, resp):
            if 'ok' not in rp:
                res.harness_errors.append('driver: %r' % (rp,))
                break
            res.corr_checked += 1
            if mods.get('mode'):
                d = None if L == 0 else compare_mode(obs, rp['ok'], mods['mode'])
            elif mods.get('policy') is not None:
                d = compare_policy(obs, rp['ok'], mods)
            else:
                d = compare(obs, rp['ok'])
            if d:
                res.corr_mismatch.append({'case': case_dict(L, p, via, kind, mods),
                                          'impl': obs, 'model': rp['ok'], 'diff': d})
    # the interpreter model (Render.inx_ with the item guard) on batched loops under a security policy
    if have_driver:
        try:
            n_slice = interp_policy_slice(res, tier)
            res.rule += ('; policy slice: %d programs (a batched dtml-in over instances under a policy refusing '
                         'elements of the window, every batch variable printed on every row) compared between the '
                         'Lean interpreter and the real classes' % n_slice)
        except Exception:  # noqa
            import traceback
            res.harness_errors.append(traceback.format_exc())
    # tiling
    treqs, tw = [], []
    sizes = range(1, 8)
    for L in (range(1, 15) if tier == 'thorough' else [1, 2, 5, 9, 14]):
        for size in sizes:
            for orphan in range(0, 5):
                for overlap in range(0, 4):
                    if overlap >= size:
                        continue
                    variants = [('list', NOMODS, False)]
                    # the same history over another container / with other options of the tag
                    kind = r.choice(KINDS)
                    variants.append((kind, random_mods(r, kind, plain=0.2), r.choice(VIAS)))
                    for kind, mods, via in variants:
                        bad, windows = tiling_oracle(L, size, orphan, overlap, kind=kind, mods=mods, via_vars=via)
                        res.evaluations += len(windows)
                        res.count('tiling_histories')
                        if mods or kind != 'list':
                            res.count('tiling_histories_container_x_options')
                        if len(windows) > 1:
                            res.nt(('tile', L, size, orphan, overlap, kind,
                                    tuple(sorted((k, str(v)) for k, v in mods.items()))))
                        for f in bad:
                            res.oracle_fail.append({'case': {'tiling': True, 'len': L, 'size': size,
                                                             'orphan': orphan, 'overlap': overlap,
                                                             'kind': kind, 'mods': mods, 'via_vars': via},
                                                    'what': f})
                        treqs.append({'op': 'follow', 'size': size, 'orphan': orphan, 'overlap': overlap,
                                      'len': L, 'lazy': neg_raises(kind, mods)})
                        tw.append(windows)
    if have_driver and treqs:
        resp = common.run_driver(treqs)
        for rq, w, rp in zip(treqs, tw, resp):
            res.corr_checked += 1
            if 'ok' not in rp or [tuple(x) for x in rp['ok']] != w:
                res.corr_mismatch.append({'case': rq, 'impl': w, 'model': rp.get('ok'), 'diff': 'tiling windows'})
    res.assumptions += ['int_param / parse_params glue (literal, variable, valueless attribute) is '
                        'exercised by the correspondence run, not modelled',
                        'sequence probes modelled as index<len (list) / SequenceFromIter semantics',
                        'next-batches / previous-batches are only asked for when overlap < size (outside the '
                        'property; next-batches does not terminate there)',
                        'sort / reverse are not modelled: the model is given the length and whether negative '
                        'indexes raise; the order of the elements is decided by the oracle']


def search_more(res, tier):
    """Wider failing-input search when a proof obligation or the correspondence broke."""
    r = common.rng('C11-more')
    found = []
    for L, p in param_space('thorough', r):
        if r.random() > 0.12:
            continue
        obs = observe(L, p)
        for f in oracle(L, p, obs):
            found.append({'case': case_dict(L, p, False, 'list', NOMODS, obs), 'what': f})
        if len(found) > 5:
            return found
    for gen in (option_cases, mode_cases, policy_cases):
        for (L, p, via, kind, mods) in gen('thorough', r):
            obs = observe(L, p, via_vars=via, kind=kind, mods=mods)
            for f in oracle(L, p, obs, kind, mods):
                found.append({'case': case_dict(L, p, via, kind, mods, obs), 'what': f})
            if len(found) > 5:
                return found
    return found


def replay(path):
    with open(path) as f:
        d = json.load(f)
    c = d['first']['case']
    kind = c.get('kind') or ('iter' if c.get('lazy') else 'list')
    mods = c.get('mods') or {}
    if c.get('tiling'):
        bad, w = tiling_oracle(c['len'], c['size'], c['orphan'], c['overlap'], kind=kind, mods=mods,
                               via_vars=c.get('via_vars', False))
        print(w, bad)
        return 1 if bad else 0
    obs = observe(c['len'], c['params'], c.get('via_vars', False), kind=kind, mods=mods)
    bad = oracle(c['len'], c['params'], obs, kind, mods)
    print(obs)
    print(bad)
    return 1 if bad else 0
