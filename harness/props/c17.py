"""C17 — rendering is repeatable and side-effect free; templates survive persistence.

Histories (length <= 8 quick / 14 thorough) over {render with inputs i, pickle round trip, deepcopy, cook, munge(source),
munge(mapping, **kw), munge(source, mapping, **kw), var(**kw), default(**kw)} on templates that use every tag (dtml-in
with sort_expr / reverse_expr / batches, cached conditions, let, with, try, sub-template, var formats).
Oracle: every render equals the render of a NEW template built through the public API from the same source and defaults
(only the munge / var / default operations replayed); the caller's mapping, sequences and keyword values are deep-equal
before and after every call; defaults unchanged by calls; a pickled template has no compiled data; a file-based template
pickles its file name, not the content.
Inputs of a render are PARTIAL namespaces: every name a source uses (also the ones of the base mapping) is independently bound
or left unbound in each render, bound through keyword / mapping / client attribute / defaults, and bound to values of different
types from one render to the next (VALUES); expressions on optional names occur in every tag that takes one (var, if, elif,
unless, in, let, with, call, raise, return, sort_expr, reverse_expr), batch parameters given by name, var options on polymorphic
values, the `_` idioms, a template that re-enters itself with another namespace, sub-templates that live as long as the
template under test.  Per source there are render-only histories (the same compiled template with changing namespaces); the
template class is HTML or a subclass with pass-through security guards (restricted evaluator).
Extra oracles: (a) results of NEW templates recorded during the run are recomputed at the end in another order (a new template
must not depend on what other templates rendered before: class / module level state); (b) optional-name idioms whose expected
output is computed by a Python reference, rendered over a sequence of namespaces on one template object and as the body of a
dtml-in over the same namespaces as mappings.
Calling conventions (round 7): histories whose renders use every form of t(client, mapping, **kw): client = None / one object /
a tuple ("path") of 0..3 objects with the attributes spread over the path (and some at several positions); mapping = dict /
None / a mapping object that is not a dict / the namespace of a calling template (a TemplateDict with 2 or 3 layers, level 0 / 3,
or at the recursion limit where the call is refused).  After every call the caller's namespace is taken apart with _pop: it
must consist of exactly the caller's own layer objects, in order, at the old level.  (c) templates that render templates on
their own namespace (<dtml-var "s(clients, _, **kw)">, <dtml-var s>, s(clients, {..}) with a namespace of its own; inside
dtml-with / dtml-in mapping / dtml-let / dtml-try; sub-templates with defaults, var() variables, dtml-return, missing names,
calls of further sub-templates): the expected text comes from a name-lookup reference written here (layers searched from the
top).  (d) file-based templates over histories incl. "the file is rewritten": each render equals a STRING template of the content
the file had when the template was last compiled; pickles hold the file name and none of the contents.  (e) operations that
OVERLAP in time (run_overlapped: one thread is stopped after k source lines of the package -- the yield points of
harness/sched.py --, the other one runs): a render by another thread at sampled lines inside cook / munge(same source) /
munge(other source) / pickle / deepcopy of the same object (HTML, guarded HTML, HTMLFile), and the operation run in the middle
of a render: the render equals a new template from the source and defaults before or after the
operation, never anything in between; afterwards the object renders like a new one.  Left out (known finding
C17-getstate-while-first-render): pickle / deepcopy stopped part-way while the other thread's FIRST render compiles the template.
(f) templates side by side (encoding_check): 2..4 templates alive at once, every kind (HTML, String, HTMLFile, File) x encoding
argument (none / several codecs and spellings) x defaults, with EQUAL or different sources, one history over all of them of render /
pickle / deepcopy / cook / munge; namespaces hold text, numbers and byte strings in several codecs inserted plain / html-quoted /
inside in, with, let, try, if-else; expected value from a plain-Python reference of the piecing-together rule (text + bytes -> bytes
decoded with the encoding the template was constructed with, Latin-1 for templates without one), plus a template constructed now.
(g) exception families (exception_family_check): histories of renders / pickle / deepcopy / cook on one template whose dtml-try tags
(nested, several except clauses naming classes and base classes, default clause, else) meet exceptions of many classes, among them
DIFFERENT classes with the SAME __name__ and other bases, classes two levels below a named base, classes with two bases; objects of
same-named classes in dtml-with; expected from a plain-Python reference of the documented handler rule + a template constructed now.
(h) other interpreter runs (process_check): templates (var tags with every subset of 1..4 modifiers in HTML / %(..)s / entity syntax,
dtml-in sorted on several keys, dtml-let, try, if) pickled here and rendered in child interpreters with different string hash seeds
(restored pickle, new template, round trip there); expected from a plain-Python reference of the modifiers applied in the order of
the documented table where there is one, else all runs must agree with this process.
(i) what dtml-in iterates over (iterable_check): an application of long-lived containers of every iterable kind (list, tuple, deque,
custom sequence, dict, set, frozenset, iterable-only objects, mapping-like objects, kept dict views, one-shot iterators / generators)
next to 2..3 templates (HTML / guarded; rendered, repeated, pickled, deep-copied, cooked); the application changes the containers in
place or replaces them between renderings, and every rendering gets long-lived objects or short-lived ones made for that call
(d.keys() / values() / items(), generators, iterators, equal copies, new containers); dtml-in by name / expr / expr="d.items()",
sort / reverse / batch / prefix / else / nested; expected from a reference interpreter on an equal twin application + a template
constructed now on a third one; containers compared with the twin's after every rendering.  (The model's Engine.exec is opaque here:
no correspondence cases, the oracle decides.)
Correspondence: the Lean state machine (op "tmpl") vs the real object after every operation (the calling-convention histories
included: the convention is part of the model's opaque input): raw, globals, _vars, presence
of compiled data; the model's (program, defaults, variables, inputs) of each call determine the same output.
"""
import copy
import json
import os
import pickle
import re
import sys
import tempfile
import threading

import common

SOURCES = [
    'plain <dtml-var a missing="NA"> <dtml-var b missing="NB">',
    '<dtml-in seq sort_expr="keys[k]"><dtml-var name>:<dtml-var rank> </dtml-in>|<dtml-var a missing="">',
    '<dtml-in seq reverse_expr="k"><dtml-var name></dtml-in>/<dtml-in seq size=2 start=k2 orphan=0><dtml-var rank></dtml-in>',
    '<dtml-if a>A<dtml-var a><dtml-elif b>B<dtml-var b><dtml-else>none</dtml-if><dtml-unless k>U</dtml-unless>',
    '<dtml-let x=k y="k + 1"><dtml-var x>,<dtml-var y>,<dtml-with rec><dtml-var name></dtml-with></dtml-let>',
    '<dtml-try><dtml-var expr="seq[k].name"><dtml-except IndexError>IE<dtml-else>ok</dtml-try><dtml-var n fmt="%05d" missing="">',
    '',
    '<dtml-in seq sort="rank" prefix=p><dtml-var p_index><dtml-var name></dtml-in><dtml-in keys><dtml-var sequence-item>;</dtml-in>',
    '<dtml-var sub> <dtml-call expr="log(k)"><dtml-var expr="len(seq)"> <dtml-var a null="NULL" missing="M">',
    '<dtml-in seq sort_expr="keys[k]" reverse_expr="k2 == 2"><dtml-if sequence-start>[</dtml-if><dtml-var name><dtml-if sequence-end>]</dtml-if></dtml-in>',
    # --- expressions on names that a namespace may or may not bind, one per kind of tag that evaluates expressions
    '<dtml-try>Hi <dtml-var expr="u * 2">!<dtml-except NameError>Hi nobody!<dtml-except TypeError>TE</dtml-try>'
    '<dtml-in expr="rows or ()"> <dtml-var sequence-item></dtml-in>',
    '<dtml-if expr="u"><dtml-var u>?<dtml-elif expr="v">V<dtml-var v><dtml-else>none</dtml-if><dtml-unless expr="rows">no rows</dtml-unless>',
    '<dtml-try><dtml-let x="u" y="v"><dtml-var x>/<dtml-var y></dtml-let><dtml-except NameError>NE</dtml-try>'
    '<dtml-let z=v>,<dtml-var z></dtml-let>',
    '<dtml-with expr="rec2"><dtml-var name></dtml-with> <dtml-call expr="log(u)">done',
    'before<dtml-if k><dtml-return expr="v"></dtml-if>after <dtml-var u missing="-">',
    '<dtml-if k><dtml-raise expr="exc">msg <dtml-var u missing=""></dtml-raise></dtml-if>fine<dtml-comment><dtml-var u></dtml-comment>',
    '<dtml-in seq sort_expr="sk" reverse_expr="rv"><dtml-var name></dtml-in>',
    # --- batch parameters given by name
    '<dtml-in seq size=sz orphan=orp overlap=ov start=k2><dtml-var rank><dtml-if sequence-end>|'
    '<dtml-var next-sequence-start-index missing=x></dtml-if></dtml-in>',
    '<dtml-in seq start=k2 end=en><dtml-var name></dtml-in><dtml-in rows previous size=sz start=k2>P'
    '<dtml-var previous-sequence-start-index></dtml-in><dtml-in rows next size=sz start=k2>N<dtml-var next-sequence-start-index></dtml-in>',
    # --- the options of dtml-var on a value whose type changes from render to render
    '<dtml-var v null="NULL" missing="MISS">|<dtml-var v size=4 etc="~" missing="">|<dtml-var v fmt=collection-length missing="">|'
    '<dtml-var v upper html_quote missing="">|<dtml-var v fmt="%s!" missing="">',
    '<dtml-var v thousands_commas missing=""> <dtml-var u capitalize missing=""> <dtml-var u url_quote missing=""> '
    '<dtml-try><dtml-var expr="v" fmt="%r"><dtml-except NameError>nov</dtml-try>&dtml.missing-u;',
    # --- the namespace object in expressions
    '<dtml-if expr="_.has_key(\'u\')"><dtml-var expr="_[\'u\']"><dtml-else>anon</dtml-if> '
    '<dtml-try><dtml-var expr="_.getitem(\'v\', 0)"><dtml-except KeyError>nov</dtml-try>',
    # --- the template renders itself with another namespace while it is being rendered
    '<dtml-try><dtml-var expr="u"><dtml-except NameError>NU</dtml-try>(<dtml-if d><dtml-var expr="me(None, d=0)"></dtml-if>)'
    '<dtml-try><dtml-var expr="v"><dtml-except NameError>NV</dtml-try>',
    # --- one expression evaluated for records with different keys within one render
    '<dtml-in rows mapping><dtml-try><dtml-var expr="x + 1"><dtml-except NameError>-</dtml-try>,'
    '<dtml-if expr="_.has_key(\'y\')">Y<dtml-var y><dtml-else>n</dtml-if>;<dtml-else>no rows</dtml-in>',
    # --- the same expression text in several tags and in a sub-template; callables and cached conditions
    '<dtml-try><dtml-var expr="u"><dtml-except>E1</dtml-try><dtml-var sub2><dtml-try><dtml-var expr="u"><dtml-except>E2</dtml-try>'
    '<dtml-var sub>',
    '<dtml-var f missing="nof"> <dtml-if f>T<dtml-var f><dtml-else>F</dtml-if><dtml-unless f>U</dtml-unless>'
    '<dtml-try><dtml-var expr="f()"><dtml-except>notcallable</dtml-try>',
]
N_OLD_SOURCES = 10
KEYS = ['', 'name', 'rank', 'name/cmp/desc', 'rank,name']
DICT_KEYS = ['a', 'b', 'n', '_p', 'k', 'u', 'v', 'sz', 'd', 'f']
BASE_NAMES = ['seq', 'keys', 'rec', 'sub', 'sub2', 'log']


class Item:
    def __init__(self, name, rank):
        self.name, self.rank = name, rank

    def __repr__(self):
        return 'Item(%r,%r)' % (self.name, self.rank)

    def __eq__(self, o):
        return isinstance(o, Item) and (self.name, self.rank) == (o.name, o.rank)

    def __lt__(self, o):
        return (self.rank, self.name) < (o.rank, o.name)

    __hash__ = None


class Fn:
    """a callable value (name lookups call it); logs"""

    def __init__(self, calls, tag):
        self.calls, self.tag = calls, tag

    def __call__(self):
        self.calls.append('fn ' + self.tag)
        return 'called-' + self.tag

    def __repr__(self):
        return 'Fn(%r)' % self.tag

    def __deepcopy__(self, memo):
        return self


class Client:
    """the `client` argument: values are looked up with getattr"""

    def __init__(self, attrs):
        self.__dict__.update(attrs)

    def __repr__(self):
        return 'Client(%r)' % sorted(self.__dict__.items(), key=lambda e: e[0])


# Values of the optional names.  An input is a pair [name, code]; the code selects the value (so inputs stay the model's
# (String x Int) pairs).  Names without a table are integers (the code itself).  Every call gets new objects.
VALUES = {
    'u': [lambda c: 'alice', lambda c: 'bob', lambda c: '', lambda c: 3, lambda c: None, lambda c: 'x<y'],
    'v': [lambda c: 0, lambda c: 7, lambda c: 1234567, lambda c: 'text <b>', lambda c: '', lambda c: None,
          lambda c: [1, 2, 3], lambda c: 2.5, lambda c: (), lambda c: 'seven'],
    'rows': [lambda c: [1, 2], lambda c: (), lambda c: ['x', 'y', 'z'], lambda c: (3,),
             lambda c: [{'x': 1}, {'y': 2}, {'x': 5, 'y': 6}], lambda c: None, lambda c: [{'y': 0}, {'x': 2}, {}],
             lambda c: [{'x': 1, 'y': 1}, {}]],
    'sz': [lambda c: 1, lambda c: 2, lambda c: 3, lambda c: '2'],
    'en': [lambda c: 2, lambda c: 3, lambda c: 4, lambda c: '3'],
    'orp': [lambda c: 0, lambda c: 1, lambda c: 2],
    'ov': [lambda c: 0, lambda c: 1],
    'd': [lambda c: 0, lambda c: 1],
    'sk': [lambda c: '', lambda c: 'name', lambda c: 'rank', lambda c: 'rank,name'],
    'rv': [lambda c: 0, lambda c: 1],
    'exc': [lambda c: ValueError, lambda c: 'KeyError', lambda c: 'Oops', lambda c: LookupError],
    'rec2': [lambda c: Item('q', 9), lambda c: Item('z', 8), lambda c: {'name': 'dictname'}],
    'f': [lambda c: Fn(c, 'one'), lambda c: 'plain', lambda c: 0, lambda c: Fn(c, 'two'), lambda c: None],
}
INT_NAMES = {'k': (0, len(KEYS) - 1), 'k2': (1, 3), 'a': (0, 4), 'b': (0, 4), 'n': (0, 4)}
OPTIONAL = sorted(VALUES) + ['a', 'b', 'n']


def names_used(src):
    return {n for n in list(VALUES) + list(INT_NAMES) + BASE_NAMES if re.search(r'(?<![\w-])%s(?![\w-])' % n, src)}


USED = [names_used(s) for s in SOURCES]


def decode(name, code, calls):
    tbl = VALUES.get(name)
    if tbl is None:
        return code
    return tbl[code % len(tbl)](calls)


def type_of(name, code):
    return type(decode(name, code, [])).__name__


_classes = {}


def template_classes():
    """HTML, and HTML with pass-through security guards (expressions then run through the restricted evaluator)"""
    if not _classes:
        from DocumentTemplate import HTML

        class GuardedHTML(HTML):
            def guarded_getattr(self, inst, name, *default):
                return getattr(inst, name, *default)

            def guarded_getitem(self, ob, index):
                return ob[index]

        GuardedHTML.__module__ = __name__
        GuardedHTML.__qualname__ = 'GuardedHTML'
        setattr(sys.modules[__name__], 'GuardedHTML', GuardedHTML)      # picklable by reference
        _classes[0] = HTML
        _classes[1] = GuardedHTML
    return _classes


CLASS_NAMES = ['HTML', 'HTML subclass with pass-through guarded_getattr / guarded_getitem']


def new_subs(cls):
    """the sub-templates handed to a template under test; they live as long as it does"""
    return {'sub': cls('(sub <dtml-var k missing="nok"><dtml-try><dtml-var expr="u"><dtml-except NameError>nou</dtml-try>)'),
            'sub2': cls('<dtml-let u=k>[<dtml-var expr="u">]</dtml-let>')}


def base_inputs(calls, subs):
    ns = {'seq': [Item('b', 3), Item('c', 1), Item('a', 2), Item('d', 1)], 'keys': list(KEYS), 'rec': Item('r', 0), 'log': calls.append}
    ns.update(subs)
    return ns


NOT_DATA = ('sub', 'sub2', 'log', 'me')


def gen_dict(r, n=2):
    return [[k, r.randint(0, 4)] for k in r.sample(DICT_KEYS, r.randint(0, n))]


def gen_value(r, name):
    if name in INT_NAMES:
        lo, hi = INT_NAMES[name]
        return r.randint(lo, hi)
    return r.randrange(len(VALUES[name]))


MAPPING_KINDS = ['dict', "the caller's namespace (TemplateDict, two layers)", 'None (everything as keyword arguments)',
                 'mapping object that is not a dict', "the caller's namespace (TemplateDict, three layers, level 3)",
                 "the caller's namespace at recursion level 201 (the call is refused: 'infinite recursion')"]


def gen_convention(r, inp):
    """the calling convention of one render: how many clients (a single object, or a tuple -- a "path" -- of 0..3 objects, with
    the client attributes spread over the path, some of them at several positions) and what kind of mapping"""
    n = -1
    if r.random() < 0.75:
        n = r.choice((0, 1, 2, 2, 3))
        inp.append(['@client', n])
        if n:
            names = [e[0][2:] for e in inp if e[0].startswith('c:')]
            for e in inp:
                if e[0].startswith('c:') and r.random() < 0.7:
                    e[0] = 'c%d:%s' % (r.randrange(n), e[0][2:])
            for name in names:
                if r.random() < 0.4:
                    inp.append(['c%d:%s' % (r.randrange(n), name), gen_value(r, name)])
    if n == 0:
        # an empty tuple with anything but the caller's namespace is refused (IndexError) before anything is rendered
        inp.append(['@mapping', r.choice((1, 4, 1, 4, 0, 2, 5))])
    elif r.random() < 0.75:
        inp.append(['@mapping', r.choice((1, 1, 2, 3, 4, 4, 1, 4, 5))])
    return inp


def gen_inputs(r, src=None, p_bind=0.6, conv=0.0):
    """a partial namespace for source `src`: [key, code] pairs; key = name (keyword argument), 'm:name' (in the mapping),
    'c:name' (attribute of the client), 'cK:name' (attribute of element K of a tuple of clients), '-name' (left out of the base
    mapping), '@client' (code = number of clients in the tuple), '@mapping' (code = kind of mapping, MAPPING_KINDS)"""
    used = USED[src] if src is not None else set()
    if conv:
        # more names bound through the mapping and the clients
        inp = _gen_inputs(r, used, p_bind, 0.4, 0.65)
        return gen_convention(r, inp) if r.random() < conv else inp
    return _gen_inputs(r, used, p_bind, 0.7, 0.85)


def _gen_inputs(r, used, p_bind, c_kw, c_map):
    inp = []

    def bind(name):
        c = r.random()
        where = '' if c < c_kw else ('m:' if c < c_map else 'c:')
        inp.append([where + name, gen_value(r, name)])
    for name in ('k', 'k2'):
        if r.random() < 0.9:
            bind(name)
    for name in OPTIONAL:
        if name in used:
            if r.random() < p_bind:
                bind(name)
        elif r.random() < 0.03:
            bind(name)
    for name in BASE_NAMES:
        if name in used and r.random() < 0.07:
            inp.append(['-' + name, 0])
    return inp


NON_RENDER = ('pickle', 'deepcopy', 'cook')


def gen_history(r, maxlen, src, conv=0.0):
    ops = []
    for _ in range(r.randint(2, maxlen)):
        c = r.random()
        if c < 0.45:
            ops.append(['render', gen_inputs(r, src, conv=conv)])
        elif c < 0.55:
            ops.append(['pickle'])
        elif c < 0.62:
            ops.append(['deepcopy'])
        elif c < 0.68:
            ops.append(['cook'])
        elif c < 0.78:
            src = r.randrange(len(SOURCES))
            ops.append(['mungeSrc', src])
        elif c < 0.83:
            ops.append(['mungeVars', gen_dict(r), gen_dict(r)])
        elif c < 0.88:
            src = r.randrange(len(SOURCES))
            ops.append(['mungeBoth', src, gen_dict(r), gen_dict(r)])
        elif c < 0.94:
            ops.append(['var', gen_dict(r)])
        else:
            ops.append(['default', gen_dict(r)])
    ops.append(['render', gen_inputs(r, src, conv=conv)])
    return ops


def gen_streak(r, src, length=8):
    """the same compiled template rendered again and again with other partial namespaces (at most one operation that
    recompiles in between)"""
    p = r.choice((0.35, 0.5, 0.7))
    ops = [['render', gen_inputs(r, src, p)] for _ in range(r.randint(5, length))]
    if r.random() < 0.3:
        ops[r.randrange(1, len(ops) - 1)] = [r.choice(NON_RENDER)]
    return ops


ADDR = re.compile(r' (?:at|AT|At) 0[xX][0-9a-fA-F]+')


def canon(v):
    return ADDR.sub('', repr(v))


def apply_persistent(t, op):
    """the operations that define 'same source and defaults'"""
    k = op[0]
    if k == 'mungeSrc':
        t.munge(SOURCES[op[1]])
    elif k == 'mungeVars':
        t.munge(None, dict(op[1]), **dict(op[2]))
    elif k == 'mungeBoth':
        t.munge(SOURCES[op[1]], dict(op[2]), **dict(op[3]))
    elif k == 'var':
        t.var(**dict(op[1]))
    elif k == 'default':
        t.default(**dict(op[1]))


class NsMap:
    """a mapping object that is not a dict"""

    def __init__(self, d):
        self.d = d

    def __getitem__(self, k):
        return self.d[k]

    def __len__(self):
        return len(self.d)

    def keys(self):
        return self.d.keys()


CKEY = re.compile(r'c(\d):(.*)$')


def caller_namespace(t, layers, level):
    """the namespace of a template that calls `t` as a sub-template ( <dtml-var "t(client, _)"> ): a TemplateDict as
    String.__call__ makes one for a top level rendering, holding the caller's data in `layers`"""
    from DocumentTemplate._DocumentTemplate import TemplateDict
    md = TemplateDict()
    for layer in layers:
        md._push(layer)
    md.guarded_getattr = t.guarded_getattr
    md.guarded_getitem = t.guarded_getitem
    md.level = level
    return md


def namespace_damage(md, layers, level):
    """what a call left behind on the caller's namespace: the layers are taken off one by one (the documented _pop returns the
    layer it removes) and must be exactly the caller's own objects, in order, and nothing else; then they are put back"""
    bad = []
    if md.level != level:
        bad.append("the recursion level of the caller's namespace is %r, it was %r" % (md.level, level))
    got = []
    for _ in range(len(layers) + 8):
        try:
            got.append(md._pop())
        except IndexError:
            break
    got.reverse()
    if len(got) != len(layers) or any(a is not b for a, b in zip(got, layers)):
        extra = [canon(g) for g in got if not any(g is l_ for l_ in layers)]
        lost = [i for i, l_ in enumerate(layers) if not any(g is l_ for g in got)]
        bad.append("the caller's namespace (a TemplateDict with %d layers) was modified by the call: %d layer(s) afterwards%s%s"
                   % (len(layers), len(got), ', left on it: %s' % ', '.join(extra)[:200] if extra else '',
                      ', removed from it: layer(s) %r' % lost if lost else ''))
    for layer in layers:
        md._push(layer)
    return bad


def call(t, inputs, subs=None):
    """one call t(client, mapping, **kw) with the namespace and the calling convention that `inputs` describes; returns the
    outcome, the call log and what the call changed in the caller's data"""
    calls = []
    if subs is None:
        subs = new_subs(type(t))
    ns = base_inputs(calls, subs)
    ns['me'] = t
    kw, attrs, upper = {}, {}, {}
    nclient, mapkind, path = -1, 0, {}
    for key, code in inputs:
        m = CKEY.match(key)
        if key == '@client':
            nclient = code
        elif key == '@mapping':
            mapkind = code
        elif m:
            path.setdefault(int(m.group(1)), {})[m.group(2)] = decode(m.group(2), code, calls)
        elif key.startswith('-'):
            ns.pop(key[1:], None)
        elif key.startswith('m:'):
            upper[key[2:]] = decode(key[2:], code, calls)
        elif key.startswith('c:'):
            attrs[key[2:]] = decode(key[2:], code, calls)
        else:
            kw[key] = decode(key, code, calls)
    # the client: None, one object, or a tuple of objects
    if nclient < 0:
        objs = [Client(attrs)] if attrs else []
        client = objs[0] if objs else None
    else:
        objs = [Client({}) for _ in range(nclient)]
        for i, a in path.items():
            if objs:
                objs[i % nclient].__dict__.update(a)
        if objs:
            objs[-1].__dict__.update(attrs)
        client = tuple(objs)
    # the mapping
    layers, md, level = None, None, 0
    if mapkind in (1, 4, 5):
        layers = [{}, ns, upper] if mapkind == 4 else [ns, upper]
        level = {1: 0, 4: 3, 5: 201}[mapkind]
        mapping = md = caller_namespace(t, layers, level)
        data = [ns, upper]
    else:
        ns.update(upper)
        data = [ns]
        if mapkind == 2:
            for k_, v in ns.items():
                kw.setdefault(k_, v)
            mapping, data = None, []
        elif mapkind == 3:
            mapping = NsMap(ns)
        else:
            mapping = ns

    def visible(d):
        return {k_: v for k_, v in d.items() if k_ not in NOT_DATA}
    snap_ns = canon(copy.deepcopy([visible(d) for d in data]))
    snap_kw = canon(copy.deepcopy(visible(kw)))
    snap_client = canon(copy.deepcopy([o.__dict__ for o in objs]))
    names_ns, names_kw = [sorted(d) for d in data], sorted(kw)
    try:
        out = {'ok': t(client, mapping, **kw)}
    except Exception as e:  # noqa
        out = {'raise': '%s: %s' % (type(e).__name__, ADDR.sub('', str(e))[:120])}
    changed = []
    if canon([visible(d) for d in data]) != snap_ns or [sorted(d) for d in data] != names_ns:
        changed.append('the call mapping / its sequences were modified')
    if canon(visible(kw)) != snap_kw or sorted(kw) != names_kw:
        changed.append('the keyword values were modified')
    if canon([o.__dict__ for o in objs]) != snap_client:
        changed.append('the client object(s) were modified')
    if md is not None:
        changed += namespace_damage(md, layers, level)
    return out, calls, changed


def same(a, b):
    """outcomes and call logs equal (values returned by dtml-return may be any object)"""
    return a == b and canon(a) == canon(b)


def bound_names(inputs):
    b = {}
    for key, code in inputs:
        if key[0] not in '-@':
            name = key.split(':')[-1]
            b[name] = type_of(name, code)
    return b


def binding_kind(key):
    if key[0] == '@':
        return None
    if CKEY.match(key):
        return 'element of a tuple of clients'
    if ':' not in key and key[0] != '-':
        return 'keyword'
    return {'m': 'mapping', 'c': 'client', '-': 'base name left out'}[key[0]]


def run_history(init, ops, model_states, res, cls_idx=0, fresh_log=None):
    """returns list of problems (oracle), list of mismatches (correspondence)"""
    HTML = template_classes()[cls_idx]
    oracle, corr = [], []
    s0, m0, kw0 = init
    t = HTML(SOURCES[s0], dict(m0), **dict(kw0))
    subs = new_subs(HTML)
    # what "the same source and defaults" are, by the documented meaning of munge / var / default
    cur = {'src': s0, 'm': m0, 'kw': kw0, 'later': []}
    prev = None           # names bound by the previous render of the same compiled program
    for idx, op in enumerate(ops):
        k = op[0]
        g_before = copy.deepcopy(t.globals)
        if k == 'render':
            out, calls, changed = call(t, op[1], subs)
            for c in changed:
                oracle.append('op %d: %s' % (idx, c))
            if t.globals != g_before or canon(t.globals) != canon(g_before):
                oracle.append('op %d: rendering modified the template\'s defaults' % idx)
            # a NEW template from the same source and defaults
            f = HTML(SOURCES[cur['src']], dict(cur['m']), **dict(cur['kw']))
            for po in cur['later']:
                apply_persistent(f, po)
            fout, fcalls, _ = call(f, op[1])
            if fresh_log is not None:
                fresh_log.append((cls_idx, cur['src'], cur['m'], cur['kw'], list(cur['later']), op[1], (fout, fcalls)))
            if not same((out, calls), (fout, fcalls)):
                oracle.append('op %d: render gives %r (calls %r) but a new template built from the same source and defaults '
                              'gives %r (calls %r)' % (idx, out, calls, fout, fcalls))
            # twice in a row with equal inputs
            out2, calls2, _ = call(t, op[1], subs)
            if not same((out2, calls2), (out, calls)):
                oracle.append('op %d: two renders with equal inputs differ: %r vs %r' % (idx, out, out2))
            now = bound_names(op[1])
            if prev is not None:
                res.count('render after a render of the same compiled template')
                if set(prev) - set(now):
                    res.count('... a name bound before is now unbound')
                if set(now) - set(prev):
                    res.count('... a name unbound before is now bound')
                if any(prev[n_] != now[n_] for n_ in now if n_ in prev):
                    res.count('... a name is bound to a value of another type')
            prev = now
            res.count('outcome=' + ('ok' if 'ok' in out else out['raise'].split(':')[0]))
        elif k == 'pickle':
            try:
                data = pickle.dumps(t)
                t = pickle.loads(data)
            except Exception as e:  # noqa  (a template that cannot be stored does not survive persistence)
                oracle.append('op %d: the template cannot be pickled and restored: %s: %s' % (idx, type(e).__name__, e))
            if any(a.startswith('_v_') for a in t.__dict__):
                oracle.append('op %d: pickled state contains compiled data %r' % (idx, [a for a in t.__dict__ if a.startswith('_v_')]))
        elif k == 'deepcopy':
            t = copy.deepcopy(t)
        elif k == 'cook':
            t.cook()
        else:
            apply_persistent(t, op)
            if k == 'mungeSrc':
                cur['src'] = op[1]
            elif k == 'mungeVars':
                cur['m'], cur['kw'], cur['later'] = op[1], op[2], []
            elif k == 'mungeBoth':
                cur['src'], cur['m'], cur['kw'], cur['later'] = op[1], op[2], op[3], []
            else:
                cur['later'].append(op)
        if k in NON_RENDER or k.startswith('munge'):
            prev = None
        # correspondence with the model's state after this op
        if model_states is not None:
            m = model_states[idx]
            real = {'raw': SOURCES.index(t.raw) if t.raw in SOURCES else -1,
                    'globals': sorted([k_, v] for k_, v in t.globals.items()),
                    'vars': sorted([k_, v] for k_, v in t._vars.items()),
                    'cooked': hasattr(t, '_v_cooked')}
            mod = {'raw': m['raw'], 'globals': sorted(m['globals']), 'vars': sorted(m['vars']), 'cooked': m['cooked'] is not None}
            if real != mod:
                corr.append({'op': idx, 'impl': real, 'model': mod})
            elif k == 'render' and m['out'] is not None:
                # the model says what the call depends on: program p, defaults g, variables v, inputs i
                p, g, v, i = m['out']
                f = HTML(SOURCES[p])
                f.globals = dict(g)
                f._vars = dict(v)
                fout, fcalls, _ = call(f, i)
                if not same((fout, fcalls), (out, calls)):
                    corr.append({'op': idx, 'impl': out, 'model': fout, 'what': 'render(parse(source %d), defaults, vars, inputs)' % p})
    return oracle, corr


def recheck_fresh(res, fresh_log, r, cap):
    """results of NEW templates must not depend on when they are computed (what OTHER templates rendered before): recompute a
    sample of the recorded ones, in another order"""
    sample = fresh_log if len(fresh_log) <= cap else r.sample(fresh_log, cap)
    for cls_idx, src, m, kw, later, inputs, then in reversed(sample):
        HTML = template_classes()[cls_idx]
        f = HTML(SOURCES[src], dict(m), **dict(kw))
        for po in later:
            apply_persistent(f, po)
        fout, fcalls, _ = call(f, inputs)
        res.evaluations += 1
        res.count('new template recomputed later')
        if not same((fout, fcalls), then):
            res.oracle_fail.append({'case': {'class': CLASS_NAMES[cls_idx], 'source': SOURCES[src], 'mapping': m, 'kw': kw,
                                             'then': later, 'inputs': inputs},
                                    'what': 'a new template built from this source and these defaults gave %r when it was first '
                                            'computed and gives %r after other templates have been rendered' % (then, (fout, fcalls))})


# ---------------------------------------------------------------------------------------------------------------------
# optional-name idioms with a reference written in Python

def _i_try_var(x):
    return ('<dtml-try><dtml-var expr="%s + 1"><dtml-except NameError>-</dtml-try>' % x,
            lambda ns, log: str(ns[x] + 1) if x in ns else '-')


def _i_has_key(x):
    return ('<dtml-if expr="_.has_key(\'%s\')">Y<dtml-var %s><dtml-else>n</dtml-if>' % (x, x),
            lambda ns, log: 'Y%d' % ns[x] if x in ns else 'n')


def _i_missing(x):
    return ('<dtml-var %s missing="M">' % x, lambda ns, log: str(ns[x]) if x in ns else 'M')


def _i_if(x):
    return ('<dtml-if %s>T<dtml-else>F</dtml-if>' % x, lambda ns, log: 'T' if ns.get(x) else 'F')


def _i_unless(x):
    return ('<dtml-unless %s>U</dtml-unless>' % x, lambda ns, log: '' if ns.get(x) else 'U')


def _i_if_expr(x):
    return ('<dtml-try><dtml-if expr="%s > 1">big<dtml-elif expr="%s">one<dtml-else>zero</dtml-if><dtml-except NameError>-</dtml-try>' % (x, x),
            lambda ns, log: '-' if x not in ns else ('big' if ns[x] > 1 else ('one' if ns[x] else 'zero')))


def _i_let(x):
    return ('<dtml-try><dtml-let z="%s * 2"><dtml-var z></dtml-let><dtml-except NameError>-</dtml-try>' % x,
            lambda ns, log: str(ns[x] * 2) if x in ns else '-')


def _i_in(x):
    return ('<dtml-try><dtml-in expr="(%s, %s)"><dtml-var sequence-item></dtml-in><dtml-except NameError>-</dtml-try>' % (x, x),
            lambda ns, log: '%d%d' % (ns[x], ns[x]) if x in ns else '-')


def _i_call(x):
    def ref(ns, log):
        if x in ns:
            log.append(ns[x])
            return ''
        return '-'
    return ('<dtml-try><dtml-call expr="log(%s)"><dtml-except NameError>-</dtml-try>' % x, ref)


def _i_with(x):
    return ('<dtml-try><dtml-with expr="{\'w\': %s}" mapping><dtml-var w></dtml-with><dtml-except NameError>-</dtml-try>' % x,
            lambda ns, log: str(ns[x]) if x in ns else '-')


def _i_unless_expr(x):
    return ('<dtml-try><dtml-unless expr="%s">U</dtml-unless><dtml-except NameError>-</dtml-try>' % x,
            lambda ns, log: '-' if x not in ns else ('' if ns[x] else 'U'))


def _i_two(x, y='r'):
    # an expression on two names, the second one only needed when the first is false
    return ('<dtml-try><dtml-var expr="%s or %s"><dtml-except NameError>-</dtml-try>' % (x, y),
            lambda ns, log: '-' if x not in ns else (str(ns[x]) if ns[x] else (str(ns[y]) if y in ns else '-')))


IDIOMS = [_i_try_var, _i_has_key, _i_missing, _i_if, _i_unless, _i_if_expr, _i_let, _i_in, _i_call, _i_with, _i_unless_expr, _i_two]
IDIOM_NAMES = ['p', 'q', 'r']


def idiom_check(res, r, n):
    classes = template_classes()
    for case in range(n):
        parts = [r.choice(IDIOMS)(r.choice(IDIOM_NAMES)) for _ in range(r.randint(1, 4))]
        body = '|'.join(p[0] for p in parts)
        nss = [{x: r.randint(0, 3) for x in IDIOM_NAMES if r.random() < 0.5} for _ in range(r.randint(3, 6))]
        cls_idx = case % 2
        res.evaluations += 1
        res.count('idiom templates')
        res.nt(('idiom', body))

        def expect(ns, log):
            return '|'.join(p[1](ns, log) for p in parts)
        # (1) the same template object, one namespace after the other
        t = classes[cls_idx](body)
        for j, ns in enumerate(nss):
            want_log, got_log = [], []
            want = expect(ns, want_log)
            try:
                got = t(None, {'log': got_log.append}, **dict(ns))
            except Exception as e:  # noqa
                got = '%s: %s' % (type(e).__name__, e)
            if (got, got_log) != (want, want_log):
                res.oracle_fail.append({'case': {'class': CLASS_NAMES[cls_idx], 'source': body, 'renders with keyword arguments': nss[:j + 1]},
                                        'what': 'render %d gives %r (log(...) calls %r); by the meaning of the tags it is %r (calls %r)'
                                                % (j, got, got_log, want, want_log)})
                break
        # (2) the namespaces as the records of one dtml-in ... mapping
        src = '<dtml-in rows mapping>%s;</dtml-in>' % body
        want_log, got_log = [], []
        want = ''.join(expect(ns, want_log) + ';' for ns in nss)
        try:
            got = classes[cls_idx](src)(None, {'log': got_log.append}, rows=[dict(ns) for ns in nss])
        except Exception as e:  # noqa
            got = '%s: %s' % (type(e).__name__, e)
        if (got, got_log) != (want, want_log):
            res.oracle_fail.append({'case': {'class': CLASS_NAMES[cls_idx], 'source': src, 'rows': nss},
                                    'what': 'the loop gives %r (log(...) calls %r); by the meaning of the tags it is %r (calls %r)'
                                            % (got, got_log, want, want_log)})


# ---------------------------------------------------------------------------------------------------------------------
# templates that render other templates on their own namespace: <dtml-var "sub(clients, _, **kw)">, <dtml-var sub>.
# Whatever the called template puts on the caller's namespace for its own rendering (its defaults, the client or every element
# of a tuple of clients, its variables, the keyword arguments) is gone afterwards, on every way out.  Expected texts come from
# a reference for name lookup written here: a list of layers searched from the top (documented order of String.__call__:
# keyword arguments, the client(s) -- of a tuple the last one first --, the mapping, the defaults).

class Missing(Exception):
    pass


class Returned(Exception):
    def __init__(self, v):
        self.v = v


class Ob:
    def __init__(self, attrs):
        self.__dict__.update(attrs)

    def __repr__(self):
        return 'Ob(%r)' % sorted(self.__dict__.items())

    def __deepcopy__(self, memo):
        return Ob(copy.deepcopy(self.__dict__, memo))


PNAMES = ['p', 'q', 'r']
SUBNAMES = ['s1', 's2', 's3']
OBNAMES = ['o1', 'o2', 'o3']


def ns_lookup(stack, name):
    for layer in reversed(stack):
        d = layer if isinstance(layer, dict) else layer.__dict__
        if name in d:
            return d[name]
    raise Missing(name)


def part_src(n):
    k = n[0]
    if k == 'lit':
        return n[1]
    if k == 'probe':
        return '<dtml-var %s missing="M">' % n[1]
    if k == 'must':
        return '<dtml-var %s>' % n[1]
    if k == 'ret':
        return '<dtml-return %s>' % n[1]
    if k == 'call':
        _, sub, clients, kw, form, mp = n
        if form == 'name':
            return '<dtml-var %s>' % sub
        cl = ('None' if clients is None else clients if isinstance(clients, str) else
              '(%s)' % (', '.join(clients) + (',' if len(clients) == 1 else '')))
        m = '_' if form == 'shared' else '{%s}' % ', '.join('%r: %d' % e for e in sorted(mp.items()))
        return '<dtml-var expr="%s(%s, %s%s)">' % (sub, cl, m, ''.join(', %s=%d' % e for e in sorted(kw.items())))
    if k == 'with':
        return '<dtml-with %s>%s</dtml-with>' % (n[1], parts_src(n[2]))
    if k == 'in':
        return '<dtml-in rows mapping>%s</dtml-in>' % parts_src(n[1])
    if k == 'let':
        return '<dtml-let %s="%d">%s</dtml-let>' % (n[1], n[2], parts_src(n[3]))
    if k == 'try':
        return '<dtml-try>%s<dtml-except>E</dtml-try>' % parts_src(n[1])
    raise ValueError(k)


def parts_src(parts):
    return ''.join(part_src(n) for n in parts)


def parts_ref(parts, stack, specs):
    return ''.join(part_ref(n, stack, specs) for n in parts)


def part_ref(n, stack, specs):
    k = n[0]
    if k == 'lit':
        return n[1]
    if k == 'probe':
        try:
            return str(ns_lookup(stack, n[1]))
        except Missing:
            return 'M'
    if k == 'must':
        return str(ns_lookup(stack, n[1]))
    if k == 'ret':
        raise Returned(ns_lookup(stack, n[1]))
    if k == 'call':
        _, sub, clients, kw, form, mp = n
        spec = specs[id(ns_lookup(stack, sub))]
        if form == 'name':
            clients, kw = None, {}
        obs = ([] if clients is None else [ns_lookup(stack, clients)] if isinstance(clients, str) else
               [ns_lookup(stack, o) for o in clients])
        if form == 'own' and clients == ():
            raise Missing('an empty tuple of clients is refused unless the mapping is a namespace')
        # defaults, [mapping,] client(s) in order, variables, keyword arguments
        pushed = [spec['defaults']] + ([mp] if form == 'own' else []) + obs + [spec['vars'], kw]
        inner = (stack if form != 'own' else []) + [l_ for l_ in pushed if not isinstance(l_, dict) or l_]
        try:
            return str(parts_ref(spec['body'], inner, specs))
        except Returned as e:
            return str(e.v)
    if k == 'with':
        return parts_ref(n[2], stack + [ns_lookup(stack, n[1])], specs)
    if k == 'in':
        return ''.join(parts_ref(n[1], stack + [row], specs) for row in ns_lookup(stack, 'rows'))
    if k == 'let':
        return parts_ref(n[3], stack + [{n[1]: n[2]}], specs)
    if k == 'try':
        try:
            return parts_ref(n[1], stack, specs)
        except Missing:
            return 'E'
    raise ValueError(k)


def gen_pdict(r, p=0.5):
    return {x: r.randint(0, 9) for x in PNAMES if r.random() < p}


def gen_parts(r, level, depth, in_try=False):
    """level: 0 = the outer template, i = sub-template s<i> (it may call s<j>, j > i)"""
    parts = []
    for _ in range(r.randint(2, 4) if depth == 0 else r.randint(1, 3)):
        c = r.random()
        callable_subs = SUBNAMES[level:]
        if c < 0.38 and callable_subs:
            sub = r.choice(callable_subs)
            form = r.choice(('shared', 'shared', 'shared', 'shared', 'name'))
            if sub == SUBNAMES[-1] and r.random() < 0.4:
                form = 'own'        # a namespace of its own: only the last sub-template (it needs no other name) is called so
            n = r.choice((None, 1, 0, 1, 2, 2, 2, 3))
            clients = None if n is None else tuple(r.choice(OBNAMES) for _ in range(n))
            if n == 1 and r.random() < 0.5:
                clients = clients[0]
            if form == 'own' and clients == () and r.random() < 0.8:
                clients = None
            parts.append(('call', sub, clients, gen_pdict(r, 0.25), form, gen_pdict(r, 0.4)))
        elif c < 0.64:
            parts.append(('probe', r.choice(PNAMES)))
        elif c < 0.67:
            parts.append(('must', r.choice(PNAMES)))
        elif c < 0.70 and level > 0 and not in_try:
            parts.append(('ret', r.choice(PNAMES)))
        elif depth < 2:
            k = r.choice(('with', 'in', 'let', 'try') if level < len(SUBNAMES) else ('let', 'try'))
            inner = gen_parts(r, level, depth + 1, in_try or k == 'try')
            parts.append({'with': ('with', r.choice(OBNAMES), inner), 'in': ('in', inner),
                          'let': ('let', r.choice(PNAMES), r.randint(10, 19), inner), 'try': ('try', inner)}[k])
        else:
            parts.append(('lit', r.choice(('-', '.', ' '))))
        parts.append(('lit', r.choice('|/;,')))
    return parts


def subcall_check(res, r, n):
    classes = template_classes()
    for case in range(n):
        cls_idx = case % 2
        cls = classes[cls_idx]
        bodies = [gen_parts(r, i + 1, 0) for i in range(len(SUBNAMES))]
        outer_parts = gen_parts(r, 0, 0)
        if not any(p[0] == 'call' for p in outer_parts):
            outer_parts.insert(r.randrange(len(outer_parts) + 1), ('call', 's1', ('o1', 'o2'), {}, 'shared', {}))
        specs, subs = {}, {}
        for name, body in zip(SUBNAMES, bodies):
            spec = {'body': body, 'defaults': gen_pdict(r, 0.3), 'vars': gen_pdict(r, 0.15), 'source': '[%s]' % parts_src(body)}
            spec['body'] = [('lit', '[')] + body + [('lit', ']')]
            t = cls(spec['source'], **dict(spec['defaults']))
            if spec['vars']:
                t.var(**dict(spec['vars']))
            subs[name] = t
            specs[id(t)] = spec
        outer_defaults = gen_pdict(r, 0.25)
        source = parts_src(outer_parts)
        outer = cls(source, **dict(outer_defaults))
        res.evaluations += 1
        res.count('templates rendering templates on their own namespace')
        res.nt(('subcall', source, tuple(specs[id(subs[s_])]['source'] for s_ in SUBNAMES)))
        for p in outer_parts + [q for b in bodies for q in b]:
            if p[0] == 'call':
                res.count('sub-template call: %s, client=%s' % (
                    {'shared': 's(client, _, **kw)', 'name': '<dtml-var s>', 'own': 's(client, {..}, **kw)'}[p[4]],
                    'None' if p[2] is None or p[4] == 'name' else 'one object' if isinstance(p[2], str) else 'tuple of %d' % len(p[2])))
        show = {'class': CLASS_NAMES[cls_idx], 'source': source, 'defaults': outer_defaults,
                'sub-templates': {s_: {k_: specs[id(subs[s_])][k_] for k_ in ('source', 'defaults', 'vars')} for s_ in SUBNAMES}}
        for j in range(r.randint(2, 3)):
            mapping = dict(subs)
            mapping.update({o: Ob(gen_pdict(r, 0.5)) for o in OBNAMES})
            mapping['rows'] = [gen_pdict(r, 0.4) for _ in range(r.randint(0, 3))]
            mapping.update(gen_pdict(r, 0.65))
            kw = gen_pdict(r, 0.3)
            nc = r.choice((None, None, 1, 2))
            cobs = [Ob(gen_pdict(r, 0.4)) for _ in range(nc or 0)]
            client = None if nc is None else cobs[0] if nc == 1 and r.random() < 0.5 else tuple(cobs)
            stack = [l_ for l_ in [outer_defaults, mapping] + cobs + [kw] if not isinstance(l_, dict) or l_]
            try:
                want = parts_ref(outer_parts, stack, specs)
            except Missing:
                want = 'an exception'

            def data():
                return canon([{k_: v for k_, v in mapping.items() if k_ not in SUBNAMES}, kw, cobs,
                              [subs[s_].globals for s_ in SUBNAMES], [subs[s_]._vars for s_ in SUBNAMES], outer.globals])
            before = data()
            gots = []
            for rep in range(2):
                try:
                    got = outer(client, mapping, **kw)
                except Exception as e:  # noqa
                    got = 'an exception'
                    err = '%s: %s' % (type(e).__name__, ADDR.sub('', str(e))[:100])
                gots.append(got)
            inputs = {'client': canon(client), 'mapping': canon({k_: v for k_, v in mapping.items() if k_ not in SUBNAMES}), 'kw': kw}
            if gots[0] != want:
                res.oracle_fail.append({'case': dict(show, render=j, inputs=inputs),
                                        'what': 'a template that renders sub-templates on its own namespace gives %r%s; with every name looked '
                                                'up in keyword arguments, clients (last of a tuple first), mapping, defaults -- the called '
                                                'template\'s own layers gone after each call -- it is %r'
                                                % (gots[0], ' (%s)' % err if gots[0] == 'an exception' else '', want)})
                break
            if gots[1] != gots[0]:
                res.oracle_fail.append({'case': dict(show, render=j, inputs=inputs),
                                        'what': 'two renders with equal inputs differ: %r vs %r' % (gots[0], gots[1])})
                break
            if data() != before:
                res.oracle_fail.append({'case': dict(show, render=j, inputs=inputs),
                                        'what': 'rendering modified the caller\'s data or the defaults of a template: %s -> %s' % (before, data())})
                break


# ---------------------------------------------------------------------------------------------------------------------
# operations of a history that overlap in time: one template object is shared by all threads of a server, so a render can
# run while another thread is in the middle of cook / munge / pickling / copying the same object (and the other way round).
# Such a render gives what a new template built from the source and defaults BEFORE the operation gives, or what one built
# from those AFTER it gives (for cook, munge to the same source, pickle and deepcopy the two are the same) -- never something
# in between.  run_overlapped stops the first thread after k source lines of the package (the yield points of C18's line
# scheduler harness/sched.py; here only one thread is traced, which is several times cheaper), lets the second run to its end
# (or until it has to wait for the cook lock), then finishes the first.

def write_file(path, text):
    with open(path, 'w') as f:
        f.write(text)


def run_overlapped(a, b, k, pkg):
    """thread A runs body `a` and is stopped when it has executed k source lines of the package (line events, as the
    yield points of harness/sched.py); thread B then runs body `b` until it ends or has to wait for the cook lock (A may hold
    it); then A goes on and both finish.  With b = None, A runs alone.  Returns ([result of a, result of b], lines A executed);
    a result is ('ok', value) | ('raise', text) | ('hang', '')"""
    import DocumentTemplate.DT_String as DTS
    cond = threading.Condition()
    resume = threading.Event()
    st = {'steps': 0, 'paused': False, 'blocked': False, 'done': set()}
    results = [('hang', ''), ('hang', '') if b is not None else None]

    class HandoffLock:
        def __init__(self):
            self.real = threading.Lock()

        def acquire(self, *args, **kw):
            if not self.real.acquire(False):
                with cond:
                    st['blocked'] = True
                    cond.notify_all()
                self.real.acquire()
            return True

        def release(self):
            self.real.release()

        def __enter__(self):
            self.acquire()
            return self

        def __exit__(self, *exc):
            self.real.release()
            return False

    def local(frame, event, arg):
        if event == 'line':
            if st['steps'] == k and not st['paused']:
                with cond:
                    st['paused'] = True
                    cond.notify_all()
                resume.wait(60)
            st['steps'] += 1
        return local

    def tracer(frame, event, arg):
        fn = frame.f_code.co_filename
        if not fn.startswith(pkg) or '/tests/' in fn:
            return None
        return local

    def target(i, body, traced):
        def go():
            if traced:
                sys.settrace(tracer)
            try:
                results[i] = ('ok', body())
            except BaseException as e:  # noqa
                results[i] = ('raise', '%s: %s' % (type(e).__name__, str(e)[:200]))
            finally:
                sys.settrace(None)
                with cond:
                    st['done'].add(i)
                    cond.notify_all()
        return go
    old_lock = DTS.COOKLOCK
    DTS.COOKLOCK = HandoffLock()
    try:
        ta = threading.Thread(target=target(0, a, True), daemon=True)
        ta.start()
        with cond:
            cond.wait_for(lambda: st['paused'] or 0 in st['done'], 60)
        if b is not None:
            tb = threading.Thread(target=target(1, b, False), daemon=True)
            tb.start()
            with cond:
                cond.wait_for(lambda: st['blocked'] or 1 in st['done'], 60)
        resume.set()
        ta.join(60)
        if b is not None:
            tb.join(60)
    finally:
        resume.set()
        DTS.COOKLOCK = old_lock
    return results, st['steps']


def replay_ops(cls, init, ops, subs, path=None):
    """the template object after a history, and what 'the same source and defaults' are then.  With `path` the template is
    file-based (HTMLFile): its source is the content of the file, editing it = rewriting the file and cook()"""
    s0, m0, kw0 = init
    if path:
        from DocumentTemplate import HTMLFile
        write_file(path, SOURCES[s0])
        t = HTMLFile(path, dict(m0), **dict(kw0))
    else:
        t = cls(SOURCES[s0], dict(m0), **dict(kw0))
    cur = {'src': s0, 'm': m0, 'kw': kw0, 'later': []}
    for op in ops:
        k = op[0]
        if path and k in ('mungeSrc', 'mungeBoth'):
            write_file(path, SOURCES[op[1]])
            if k == 'mungeSrc':
                t.cook()
                cur['src'] = op[1]
            else:
                t.munge(None, dict(op[2]), **dict(op[3]))
                cur['src'], cur['m'], cur['kw'], cur['later'] = op[1], op[2], op[3], []
        elif k == 'render':
            call(t, op[1], subs)
        elif k == 'pickle':
            t = pickle.loads(pickle.dumps(t))
        elif k == 'deepcopy':
            t = copy.deepcopy(t)
        elif k == 'cook':
            t.cook()
        else:
            apply_persistent(t, op)
            if k == 'mungeSrc':
                cur['src'] = op[1]
            elif k == 'mungeVars':
                cur['m'], cur['kw'], cur['later'] = op[1], op[2], []
            elif k == 'mungeBoth':
                cur['src'], cur['m'], cur['kw'], cur['later'] = op[1], op[2], op[3], []
            else:
                cur['later'].append(op)
    return t, cur


def fresh_result(cls, cur, inputs, src=None):
    f = cls(SOURCES[cur['src'] if src is None else src], dict(cur['m']), **dict(cur['kw']))
    for po in cur['later']:
        apply_persistent(f, po)
    out, calls, _ = call(f, inputs)
    return out, calls


def sample_points(r, n, tier):
    """where to stop the first thread: the first and the last lines, and a stratified sample of the lines in between"""
    edge = 3 if tier == 'quick' else 12
    pts = set(range(0, min(n, edge) + 1)) | set(range(max(0, n - edge), n + 1))
    strata = 8 if tier == 'quick' else 120
    for i in range(strata):
        lo, hi = n * i // strata, n * (i + 1) // strata
        if hi > lo:
            pts.add(r.randrange(lo, hi))
    return sorted(pts)


OVERLAP_CLASSES = CLASS_NAMES + ['HTMLFile (source = content of its file; "munge to a source" = the file is rewritten, then cook())']
OVERLAP_OPS = ['cook', 'munge to the same source', 'munge to another source', 'pickle round trip', 'deepcopy']


def overlap_check(res, r, n, tier):
    import DocumentTemplate
    pkg = os.path.dirname(DocumentTemplate.__file__) + os.sep
    classes = template_classes()
    off = r.randrange(len(SOURCES))
    tmpdir = tempfile.mkdtemp(prefix='c17_')
    for case in range(n):
        # HTML, HTML with guards, and (every fifth case) a file-based template: its reference is the string template
        cls_idx = case % 2 if case % 5 != 3 else 2
        cls = classes[cls_idx % 2]
        path = os.path.join(tmpdir, 'c%d.dtml' % case) if cls_idx == 2 else None
        s0 = (case + off) % len(SOURCES) if case < len(SOURCES) else r.randrange(len(SOURCES))
        init = [s0, gen_dict(r, 1), gen_dict(r, 1)]
        prelude = gen_history(r, 3, s0) if r.random() < 0.85 else []
        if r.random() < 0.2:
            prelude.append([r.choice(('pickle', 'deepcopy'))])      # a history, but not compiled at the moment
        subs = new_subs(cls)
        for st in subs.values():
            st.cook()
        _, cur = replay_ops(cls, init, prelude, subs, path)
        kind = OVERLAP_OPS[case % len(OVERLAP_OPS)] if case < 3 * len(OVERLAP_OPS) else r.choice(OVERLAP_OPS)
        new_src = cur['src']
        if kind == 'munge to another source':
            new_src = r.choice([i for i in range(len(SOURCES)) if i != cur['src']])
        inputs = gen_inputs(r, r.choice((cur['src'], new_src)))
        allowed = [fresh_result(cls, cur, inputs), fresh_result(cls, cur, inputs, new_src)]

        def operate(t):
            if kind == 'cook':
                t.cook()
            elif kind.startswith('munge') and path:
                write_file(path, SOURCES[new_src])
                t.cook()
            elif kind.startswith('munge'):
                t.munge(SOURCES[new_src])
            elif kind == 'pickle round trip':
                return pickle.loads(pickle.dumps(t))
            else:
                return copy.deepcopy(t)
            return t

        def one(first, k):
            t, _ = replay_ops(cls, init, prelude, subs, path)
            bodies = [lambda: operate(t), lambda: call(t, inputs, subs)]
            if first is None:
                results, steps = run_overlapped(bodies[k], None, 10 ** 9, pkg)
                return t, results, steps
            results, steps = run_overlapped(bodies[first], bodies[1 - first], k, pkg)
            return t, (results if first == 0 else results[::-1]), steps
        res.evaluations += 1
        res.count('overlapping operations: render while another thread is inside ' + kind)
        res.nt(('overlap', cur['src'], new_src, kind, cls_idx))
        res.count('overlapping operations: class=' + OVERLAP_CLASSES[cls_idx])
        case_show = {'class': OVERLAP_CLASSES[cls_idx], 'init': [SOURCES[s0], init[1], init[2]], 'history before': show_ops(prelude),
                     'operation': kind, 'new source': SOURCES[new_src], 'render inputs': inputs}
        failed = False
        compiled = False
        for op in prelude:
            compiled = False if op[0] in ('pickle', 'deepcopy') else (True if op[0] in ('render', 'cook') or op[0].startswith('munge') else compiled)
        for first in (0, 1):
            if first == 0 and kind in ('pickle round trip', 'deepcopy') and not compiled:
                # known finding C17-getstate-while-first-render (replayed by harness/findings_probe.py): __getstate__ walks the
                # live __dict__ while the other thread's first render adds the compiled data to it
                res.count('left out (known finding): pickle / deepcopy stopped part-way while the first render compiles')
                continue
            # how many lines the first thread executes when it runs alone
            _, _, steps = one(None, first)
            pts = sample_points(r, steps, tier)
            if first == 1:
                pts = pts[::3] if tier == 'quick' else pts
            for k in pts:
                t, results, _ = one(first, k)
                res.count('schedules: %s stopped part-way, the %s runs, the first one finishes'
                          % (('operation', 'render') if first == 0 else ('render', 'operation')))
                who = ('the operation is stopped after %d of its %d lines, the render runs, the operation finishes' if first == 0 else
                       'the render is stopped after %d of its %d lines, the operation runs, the render finishes') % (k, steps)
                if results[0][0] != 'ok':
                    res.oracle_fail.append({'case': dict(case_show, schedule=who), 'what': '%s: the operation ended with %r' % (who, results[0])})
                    failed = True
                elif results[1][0] != 'ok':
                    res.oracle_fail.append({'case': dict(case_show, schedule=who), 'what': '%s: the render ended with %r' % (who, results[1])})
                    failed = True
                else:
                    out, calls, changed = results[1][1]
                    if not any(same((out, calls), a) for a in allowed):
                        res.oracle_fail.append({'case': dict(case_show, schedule=who),
                                                'what': '%s: the render gives %r (calls %r); a new template built from the source and defaults '
                                                        'before the operation gives %r, one built from those after it gives %r'
                                                        % (who, out, calls, allowed[0], allowed[1])})
                        failed = True
                    for c in changed:
                        res.oracle_fail.append({'case': dict(case_show, schedule=who), 'what': '%s: %s' % (who, c)})
                        failed = True
                    # afterwards: the object (and the restored / copied one) renders like a new template
                    if not failed:
                        for obj in {id(t): t, id(results[0][1]): results[0][1]}.values():
                            out, calls, _ = call(obj, inputs, subs)
                            if not same((out, calls), allowed[1]):
                                res.oracle_fail.append({'case': dict(case_show, schedule=who),
                                                        'what': '%s: afterwards the template gives %r, a new template built from the same '
                                                                'source and defaults gives %r' % (who, out, allowed[1][0])})
                                failed = True
                if failed:
                    break
            if failed:
                break
    for fn in os.listdir(tmpdir):
        os.unlink(os.path.join(tmpdir, fn))
    os.rmdir(tmpdir)


def show_ops(ops):
    return [[o[0]] + [SOURCES[x] if (o[0] in ('mungeSrc', 'mungeBoth') and j == 0) else x for j, x in enumerate(o[1:])] for o in ops]


def file_template_check(res):
    from DocumentTemplate import HTMLFile
    d = tempfile.mkdtemp(prefix='c17_')
    try:
        path = os.path.join(d, 't.dtml')
        with open(path, 'w') as f:
            f.write('CONTENT-ONE <dtml-var a>')
        t = HTMLFile(path, a=1)
        out1 = t()
        data = pickle.dumps(t)
        res.evaluations += 1
        if b'CONTENT-ONE' in data:
            res.oracle_fail.append({'case': {'file': 'HTMLFile'}, 'what': 'the pickle of a file-based template contains the file content'})
        if path.encode() not in data:
            res.oracle_fail.append({'case': {'file': 'HTMLFile'}, 'what': 'the pickle of a file-based template does not contain the file name'})
        with open(path, 'w') as f:
            f.write('CONTENT-TWO <dtml-var a>')
        t2 = pickle.loads(data)
        out2 = t2()
        if out1 != 'CONTENT-ONE 1' or out2 != 'CONTENT-TWO 1':
            res.oracle_fail.append({'case': {'file': 'HTMLFile'}, 'what': 'file-based template rendered %r then, restored, %r' % (out1, out2)})
        t3 = copy.deepcopy(t)
        if t3() != 'CONTENT-TWO 1':
            res.oracle_fail.append({'case': {'file': 'HTMLFile'}, 'what': 'deep copy of a file-based template rendered %r' % (t3(),)})
    finally:
        for fn in os.listdir(d):
            os.unlink(os.path.join(d, fn))
        os.rmdir(d)


def file_history_check(res, r, n, maxlen):
    """histories of a file-based template over render / pickle round trip / deepcopy / cook / the file is rewritten.  The file
    is read when the template is compiled ("the file will not be read until the document template is used the first time";
    restored from a pickle "the file will be re-read"): every render equals the render of a STRING template built from the
    content the file had when the template was last compiled; every pickle holds the file name and none of the contents"""
    from DocumentTemplate import HTMLFile
    HTML = template_classes()[0]
    d = tempfile.mkdtemp(prefix='c17_')
    try:
        for case in range(n):
            path = os.path.join(d, 'h%d.dtml' % case)
            content = r.randrange(len(SOURCES))
            write_file(path, SOURCES[content])
            m, kw = gen_dict(r, 1), gen_dict(r, 1)
            t = HTMLFile(path, dict(m), **dict(kw))
            subs = new_subs(HTML)
            compiled, had, first = None, {content}, SOURCES[content]
            ops = []
            res.evaluations += 1
            res.count('file-based template histories')
            for idx in range(r.randint(3, maxlen)):
                c = r.random()
                k = 'render' if c < 0.45 or idx == 0 else 'pickle' if c < 0.6 else 'deepcopy' if c < 0.7 else 'cook' if c < 0.8 else 'rewrite'
                what = None
                if k == 'render':
                    if compiled is None:
                        compiled = content
                    inputs = gen_inputs(r, compiled)
                    ops.append([k, inputs])
                    out, calls, changed = call(t, inputs, subs)
                    f = HTML(SOURCES[compiled], dict(m), **dict(kw))
                    fout, fcalls, _ = call(f, inputs)
                    if not same((out, calls), (fout, fcalls)):
                        what = ('op %d: the file-based template gives %r (calls %r); the file held %r when it was last compiled, and a '
                                'string template of that text gives %r (calls %r)' % (idx, out, calls, SOURCES[compiled], fout, fcalls))
                    elif changed:
                        what = 'op %d: %s' % (idx, changed[0])
                elif k == 'rewrite':
                    content = r.randrange(len(SOURCES))
                    had.add(content)
                    ops.append([k, SOURCES[content]])
                    write_file(path, SOURCES[content])
                elif k == 'cook':
                    ops.append([k])
                    t.cook()
                    compiled = content
                else:
                    ops.append([k])
                    if k == 'pickle':
                        data = pickle.dumps(t)
                        t = pickle.loads(data)
                        leaked = [SOURCES[i] for i in had if len(SOURCES[i]) > 12 and SOURCES[i].encode() in data]
                        if leaked:
                            what = 'op %d: the pickle of a file-based template contains the content of its file: %r' % (idx, leaked[0])
                        elif path.encode() not in data:
                            what = 'op %d: the pickle of a file-based template does not contain the file name' % idx
                    else:
                        t = copy.deepcopy(t)
                    if what is None and any(a.startswith('_v_') for a in t.__dict__):
                        what = 'op %d: the restored / copied template carries compiled data' % idx
                    compiled = None
                res.count('file op=' + k)
                if what:
                    res.oracle_fail.append({'case': {'class': 'HTMLFile', 'the file holds': first, 'defaults': [m, kw], 'ops': ops},
                                            'what': what})
                    break
            res.nt(('file', first) + tuple(o[0] for o in ops))
    finally:
        for fn in os.listdir(d):
            os.unlink(os.path.join(d, fn))
        os.rmdir(d)


# ---------------------------------------------------------------------------------------------------------------------------
# (f) several templates in one process: every template kind x encoding x equal / different sources, bytes in the namespace

ENC_KINDS = ['HTML', 'String', 'HTMLFile', 'File']
ENC_ENCODINGS = [None, 'utf-8', 'latin-1', 'UTF-8', 'cp1252', 'ascii', 'utf-16-le']
ENC_VALUES = ['plain', 'a<b&c', 'h\xe9llo', 'Gr\xfc\xdfe <b>', '', 7, 2.5, b'ascii', b'x<y&z', b'',
              'h\xe9llo'.encode('utf-8'), 'Gr\xfc\xdfe <b>'.encode('utf-8'), 'h\xe9 & \xfc'.encode('latin-1'),
              '€5'.encode('utf-8'), '€5'.encode('cp1252'), 'ab'.encode('utf-16-le')]
ENC_BYTES = [v for v in ENC_VALUES if isinstance(v, bytes) and v]
ENC_TEXTS = ['a ', ';', ' - ', '|', '[', ']', '.\n']
ENC_SCALARS = ['x', 'y', 'z']
ENC_SEQS = ['seq1', 'seq2']


def enc_gen_parts(r, depth, in_in, string_syntax, n=None):
    """a template as a structure: text, plain and html-quoted insertions (both spellings), and the blocks whose result is put
    together from pieces (in, with, let, try, if / else)"""
    parts = []
    for _ in range(n if n is not None else r.randint(1, 4)):
        c = r.random()
        names = ENC_SCALARS + (['sequence-item'] * 3 if in_in else [])
        if c < 0.2:
            parts.append(('t', r.choice(ENC_TEXTS)))
        elif c < 0.4 or (depth <= 0 and c < 0.7):
            parts.append(('v', r.choice(names)))
        elif c < 0.55 or depth <= 0:
            parts.append(('q', r.choice(names), 1 if string_syntax else r.randrange(2)))
        else:
            kinds = ['in', 'in', 'with', 'let', 'if'] + ([] if string_syntax else ['try', 'ifelse'])
            k = r.choice(kinds)
            if k == 'in':
                parts.append(('in', r.choice(ENC_SEQS), enc_gen_parts(r, depth - 1, True, string_syntax)))
            elif k == 'let':
                parts.append(('let', r.choice(ENC_SCALARS), r.choice(ENC_SCALARS), enc_gen_parts(r, depth - 1, in_in, string_syntax)))
            elif k == 'ifelse':
                parts.append(('if', enc_gen_parts(r, depth - 1, in_in, string_syntax), enc_gen_parts(r, depth - 1, in_in, string_syntax)))
            elif k == 'if':
                parts.append(('if', enc_gen_parts(r, depth - 1, in_in, string_syntax), None))
            else:
                parts.append((k, enc_gen_parts(r, depth - 1, in_in, string_syntax)))
    return parts


def enc_src(parts, string_syntax):
    out = []
    for p in parts:
        k = p[0]
        sub = lambda ps: enc_src(ps, string_syntax)
        if string_syntax:
            if k == 't':
                out.append(p[1])
            elif k == 'v':
                out.append('%%(%s)s' % p[1])
            elif k == 'q':
                out.append('%%(%s html_quote)s' % p[1])
            elif k == 'in':
                out.append('%%(in %s)[%s%%(in %s)]' % (p[1], sub(p[2]), p[1]))
            elif k == 'with':
                out.append('%%(with wd mapping)[%s%%(with wd)]' % sub(p[1]))
            elif k == 'let':
                out.append('%%(let %s=%s)[%s%%(let)]' % (p[1], p[2], sub(p[3])))
            elif k == 'if':
                out.append('%%(if c)[%s%%(if c)]' % sub(p[1]))
        else:
            if k == 't':
                out.append(p[1])
            elif k == 'v':
                out.append('<dtml-var %s>' % p[1])
            elif k == 'q':
                out.append('&dtml-%s;' % p[1] if p[2] == 0 else '<dtml-var %s html_quote>' % p[1])
            elif k == 'in':
                out.append('<dtml-in %s>%s</dtml-in>' % (p[1], sub(p[2])))
            elif k == 'with':
                out.append('<dtml-with wd mapping>%s</dtml-with>' % sub(p[1]))
            elif k == 'let':
                out.append('<dtml-let %s=%s>%s</dtml-let>' % (p[1], p[2], sub(p[3])))
            elif k == 'try':
                out.append('<dtml-try>%s<dtml-except>E</dtml-try>' % sub(p[1]))
            elif k == 'if':
                out.append('<dtml-if c>%s%s</dtml-if>' % (sub(p[1]), '' if p[2] is None else '<dtml-else>' + sub(p[2])))
    return ''.join(out)


def enc_quote(s):
    return s.replace('&', '&amp;').replace('<', '&lt;').replace('>', '&gt;')


def enc_put_together(pieces, enc, always_text=False):
    """the documented rule (join_unicode): text pieces give text, byte strings give ... and a mix gives text with the byte
    strings taken as encoded in the template's encoding (Latin-1 if it has none); a single piece is the result itself"""
    pieces = [p for p in pieces if p]
    if not pieces:
        return ''
    if len(pieces) == 1 and not always_text:
        return pieces[0]
    if all(isinstance(p, str) for p in pieces):
        return ''.join(pieces)
    return ''.join(p if isinstance(p, str) else p.decode(enc or 'latin-1') for p in pieces)


def enc_pieces(parts, stack, enc):
    out = []
    for p in parts:
        k = p[0]
        if k == 't':
            out.append(p[1])
        elif k in 'vq':
            v = ns_lookup(stack, p[1])
            if not isinstance(v, (str, bytes)):
                v = str(v)
            if k == 'q':
                v = enc_quote(v if isinstance(v, str) else v.decode(enc or 'latin-1'))
            out.append(v)
        elif k == 'if':
            branch = p[1] if ns_lookup(stack, 'c') else p[2]
            if branch:
                out.extend(enc_pieces(branch, stack, enc))
        elif k == 'in':
            seq = ns_lookup(stack, p[1])
            each = [enc_put_together(enc_pieces(p[2], stack + [{'sequence-item': item}], enc), enc) for item in seq]
            out.append(enc_put_together(each, enc, always_text=True) if seq else '')
        elif k == 'with':
            out.append(enc_put_together(enc_pieces(p[1], stack + [ns_lookup(stack, 'wd')], enc), enc))
        elif k == 'let':
            out.append(enc_put_together(enc_pieces(p[3], stack + [{p[1]: ns_lookup(stack, p[2])}], enc), enc))
        elif k == 'try':
            try:
                out.append(enc_put_together(enc_pieces(p[1], stack, enc), enc))
            except UnicodeDecodeError:
                out.append('E')
    return out


def enc_outcome(f):
    try:
        v = f()
    except Exception as e:
        return ['raised', type(e).__name__]
    return ['ok', type(v).__name__, v]


def enc_gen_ns(r):
    val = lambda: r.choice(ENC_BYTES) if r.random() < 0.5 else r.choice(ENC_VALUES)
    ns = {n: val() for n in ENC_SCALARS}
    for s in ENC_SEQS:
        ns[s] = [val() for _ in range(r.choice((0, 1, 1, 2, 2, 3)))]
    ns['wd'] = {r.choice(ENC_SCALARS): val()} if r.random() < 0.6 else {}
    ns['c'] = r.random() < 0.6
    return ns


def encoding_check(res, r, n, maxlen=10):
    """cases of 2..4 templates that live in one process at the same time: every kind (HTML, String, HTMLFile, File) x encoding
    argument (none / several codecs / spellings; file-based templates take none) x defaults, sources taken from a pool of two
    per case so that templates with EQUAL source and different encoding / kind / defaults meet; one history over all of them of
    render (namespaces with text, numbers and byte strings in several codecs, inserted plain / html-quoted / inside in, with, let,
    try, if-else) / pickle round trip / deepcopy / cook / munge to the other source.  Every render is compared with
    (1) a plain-Python reference of the documented piecing-together rule using the encoding the template was constructed with,
    (2) a template constructed now from the same source, defaults and encoding, and (3) itself, repeated"""
    import DocumentTemplate
    d = tempfile.mkdtemp(prefix='c17e_')
    try:
        for case in range(n):
            res.evaluations += 1
            pool = {}
            for ss in (False, True):
                a = enc_gen_parts(r, 2, False, ss)
                b = a[:-1] + enc_gen_parts(r, 2, False, ss, n=1) if r.random() < 0.3 else enc_gen_parts(r, 2, False, ss)
                pool[ss] = [a, b]
            tmpls, spec = [], []
            mixed = r.random() < 0.5
            kind0 = r.choice(ENC_KINDS)
            for i in range(r.randint(2, 4)):
                kind = r.choice(ENC_KINDS) if mixed else kind0
                ss = kind in ('String', 'File')
                idx = r.randrange(2) if r.random() < 0.3 else 0
                enc = None if 'File' in kind else r.choice(ENC_ENCODINGS)
                dm = {r.choice(ENC_SCALARS): r.choice(ENC_VALUES)} if r.random() < 0.3 else {}
                dk = {r.choice(ENC_SCALARS): r.choice(ENC_VALUES)} if r.random() < 0.3 else {}
                path = None
                if 'File' in kind:
                    path = os.path.join(d, 'e%d_%d.dtml' % (case, i))
                    write_file(path, enc_src(pool[ss][idx], ss))
                s = {'kind': kind, 'string syntax': ss, 'source': idx, 'encoding': enc, 'defaults': [dm, dk], 'path': path}
                spec.append(s)
                tmpls.append(enc_build(DocumentTemplate, s, pool))
            ops, what = [], None
            for step in range(r.randint(4, maxlen)):
                i = r.randrange(len(tmpls))
                s = spec[i]
                c = r.random()
                k = 'render' if c < 0.55 or step < 2 else 'pickle' if c < 0.7 else 'deepcopy' if c < 0.8 else 'cook' if c < 0.9 else 'munge'
                if k == 'munge' and s['path']:
                    k = 'cook'
                res.count('templates side by side: op=' + k)
                if k == 'render':
                    ns = enc_gen_ns(r)
                    ops.append([i, k, ns])
                    before = copy.deepcopy(ns)
                    t = tmpls[i]
                    got = enc_outcome(lambda: t(None, ns))
                    again = enc_outcome(lambda: t(None, ns))
                    parts = pool[s['string syntax']][s['source']]
                    stack = [s['defaults'][0], s['defaults'][1], ns]
                    exp = enc_outcome(lambda: enc_put_together(enc_pieces(parts, stack, s['encoding'] or (None if s['path'] else 'UTF-8')),
                                                                 s['encoding'] or (None if s['path'] else 'UTF-8')))
                    f = enc_build(DocumentTemplate, s, pool)
                    fresh = enc_outcome(lambda: f(None, ns))
                    res.count('templates side by side: kind=%s' % s['kind'])
                    res.count('templates side by side: result=%s' % ' '.join(exp[:2]))
                    if got != exp:
                        what = 'op %d: template %d gives %r; by the documented rule with its encoding: %r' % (step, i, got, exp)
                    elif fresh != got:
                        what = 'op %d: template %d gives %r, a template constructed now from the same source / defaults / encoding gives %r' % (step, i, got, fresh)
                    elif again != got:
                        what = 'op %d: template %d gives %r, and %r when the call is repeated' % (step, i, got, again)
                    elif ns != before or [type(x) for x in ns['seq1'] + ns['seq2']] != [type(x) for x in before['seq1'] + before['seq2']]:
                        what = 'op %d: the namespace was modified: %r' % (step, ns)
                    elif (tmpls[i].globals, tmpls[i]._vars) != (dict(s['defaults'][0], **s['defaults'][1]), {}):
                        what = 'op %d: the defaults of template %d were modified' % (step, i)
                else:
                    ops.append([i, k])
                    if k == 'pickle':
                        data = pickle.dumps(tmpls[i])
                        tmpls[i] = pickle.loads(data)
                        text = enc_src(pool[s['string syntax']][s['source']], s['string syntax'])
                        if s['path'] and len(text) > 12 and text.encode() in data:
                            what = 'op %d: the pickle of the file-based template %d holds the content of the file' % (step, i)
                        elif s['path'] and s['path'].encode() not in data:
                            what = 'op %d: the pickle of the file-based template %d does not hold the file name' % (step, i)
                    elif k == 'deepcopy':
                        tmpls[i] = copy.deepcopy(tmpls[i])
                    elif k == 'cook':
                        tmpls[i].cook()
                    else:
                        s['source'] = 1 - s['source']
                        tmpls[i].munge(enc_src(pool[s['string syntax']][s['source']], s['string syntax']))
                if what:
                    shown = [dict(sp, source=enc_src(pool[sp['string syntax']][sp['source']], sp['string syntax'])) for sp in spec]
                    res.oracle_fail.append({'case': {'templates (as they are now)': repr(shown), 'ops [template, op, namespace]': repr(ops)},
                                            'what': what})
                    break
            res.nt(('side by side',) + tuple(sorted((sp['kind'], str(sp['encoding'])) for sp in spec)) + tuple(o[1] for o in ops))
    finally:
        for fn in os.listdir(d):
            os.unlink(os.path.join(d, fn))
        os.rmdir(d)


def enc_build(pkg, s, pool):
    cls = getattr(pkg, s['kind'])
    dm, dk = dict(s['defaults'][0]), dict(s['defaults'][1])
    if s['path']:
        return cls(s['path'], dm, **dk)
    text = enc_src(pool[s['string syntax']][s['source']], s['string syntax'])
    if s['encoding'] is None:
        return cls(text, dm, **dk)
    return cls(text, dm, encoding=s['encoding'], **dk)


# ---------------------------------------------------------------------------------------------------------------------------
# (g) exception families: dtml-try picks the handler from the CLASS of the exception (its name and the names of all its base
# classes), so a history must render one template object with exceptions of many classes -- among them different classes that
# share a __name__ but have other bases (as the builtin TimeoutError(OSError) and multiprocessing.TimeoutError(ProcessError)
# do), classes two levels below a named base, classes with two bases.  Same for objects: instances of different classes with
# one __name__ in dtml-with / dtml-var.  Expected text: plain-Python reference of the documented rule ("the first except block
# to match the type of the error raised is rendered; no name matches all"; else block when nothing was raised; error_type is the
# name of the exception caught) + a template constructed now.

XF_NAMES = ['Error', 'TimeoutError', 'Unauthorized', 'NotFound', 'KeyError', 'Mid']
XF_BUILTINS = [LookupError, KeyError, IndexError, ArithmeticError, ZeroDivisionError, OSError, TimeoutError, ValueError,
               Exception, NameError, RuntimeError]
XF_CALLS = ['f', 'g', 'h']


def xf_family(r):
    """exception classes of one case: builtins, and made-up classes whose names repeat with different bases"""
    import multiprocessing
    pool = list(XF_BUILTINS) + [multiprocessing.TimeoutError]
    made = []
    for _ in range(r.randint(4, 8)):
        name = r.choice(XF_NAMES[:3] if r.random() < 0.7 else XF_NAMES)
        k = r.random()
        if k < 0.55:
            bases = (r.choice(pool),)
        elif k < 0.8:
            bases = (type(r.choice(['Mid', 'Base', name]), (r.choice(pool),), {}),)
        elif k < 0.9 and made:
            bases = (r.choice(made),)
        else:
            b1, b2 = r.choice(XF_BUILTINS), r.choice(XF_BUILTINS)
            bases = (b1,) if issubclass(b1, b2) else (b2,) if issubclass(b2, b1) else (b1, b2)
        try:
            made.append(type(name, bases, {}))
        except TypeError:
            pass
    return pool[:6] + r.sample(pool[6:], 3) + made


def xf_describe(c):
    return '%s(%s)' % (c.__name__, ','.join(xf_describe(b) if b.__module__ != 'builtins' else b.__name__ for b in c.__bases__))


def xf_ancestor_names(c):
    out = set()
    for b in c.__bases__:
        out.add(b.__name__)
        out |= xf_ancestor_names(b)
    return out


def xf_gen_parts(r, fam, depth, in_handler=False):
    parts = []
    for _ in range(r.randint(1, 3 if depth else 2)):
        k = r.random()
        if k < 0.25:
            parts.append(('text', r.choice(['a ', '; ', '-', '|'])))
        elif k < 0.35 and in_handler:
            parts.append(('etype',))
        elif k < 0.45:
            parts.append(('ob', r.choice(['o1', 'o2'])))
        else:
            names = sorted({n for c in fam for n in xf_ancestor_names(c) | {c.__name__}} - {'object', 'BaseException'})
            handlers = []
            for _h in range(r.randint(0, 3)):
                handlers.append((r.sample(names, r.randint(1, 2)), xf_gen_parts(r, fam, depth - 1, True) if depth else [('etype',)]))
            if r.random() < 0.4 or not handlers:
                handlers.append(([], [('text', 'dflt:'), ('etype',)]) if r.random() < 0.5 or not handlers else
                                (['Exception'], [('text', 'exc')]))
            els = [('text', 'else')] if r.random() < 0.4 else None
            parts.append(('try', r.choice(XF_CALLS), handlers, els))
    return parts


def xf_src(parts):
    out = []
    for p in parts:
        if p[0] == 'text':
            out.append(p[1])
        elif p[0] == 'etype':
            out.append('<dtml-var error_type>')
        elif p[0] == 'ob':
            out.append('<dtml-with %s>(<dtml-var tag>)</dtml-with>' % p[1])
        else:
            out.append('<dtml-try>[<dtml-var %s>]' % p[1])
            for names, body in p[2]:
                out.append('<dtml-except %s>' % ' '.join(names) if names else '<dtml-except>')
                out.append(xf_src(body))
            if p[3] is not None:
                out.append('<dtml-else>' + xf_src(p[3]))
            out.append('</dtml-try>')
    return ''.join(out)


class XfRaised(Exception):
    pass


def xf_ref(parts, ns, etype=None):
    out = []
    for p in parts:
        if p[0] == 'text':
            out.append(p[1])
        elif p[0] == 'etype':
            out.append(etype)
        elif p[0] == 'ob':
            out.append('(%s)' % ns[p[1]].tag)
        else:
            what = ns[p[1]]
            if not isinstance(what, type):
                out.append('[%s]' % what)
                if p[3] is not None:
                    out.append(xf_ref(p[3], ns, etype))
                continue
            anc = xf_ancestor_names(what) | {what.__name__}
            for names, body in p[2]:
                if not names or anc & set(names):
                    out.append(xf_ref(body, ns, what.__name__))
                    break
            else:
                raise XfRaised(what)
    return ''.join(out)


def xf_render(t, ns):
    def raiser(c):
        def f():
            raise c('boom')
        return f
    kw = {k: (raiser(v) if isinstance(v, type) else v) for k, v in ns.items()}
    try:
        return ('ok', t(**kw))
    except Exception as e:      # noqa
        return ('raise', type(e))


def xf_show(o):
    return [o[0], o[1] if o[0] == 'ok' else xf_describe(o[1])]


def exception_family_check(res, r, n, maxlen=8):
    classes = template_classes()
    for j in range(n):
        fam = xf_family(r)
        obcls = [type('Thing', (object,), {'tag': 'T%d' % i}) for i in range(3)]
        parts = xf_gen_parts(r, fam, 1)
        if not any(p[0] == 'try' for p in parts):
            parts.append(('try', 'f', [([r.choice(['LookupError', 'OSError', 'Error'])], [('etype',)])], None))
        src = xf_src(parts)
        cls_idx = j % 2
        cls = classes[cls_idx]
        try:
            t = cls(src)
        except Exception as e:  # noqa
            res.harness_errors.append('exception families: %r does not compile: %r' % (src, e))
            return
        res.evaluations += 1
        shown, fails = [], []
        # a few classes are used again and again within a history so that names recur
        focus = r.sample(fam, min(len(fam), r.randint(3, 6)))
        for step in range(r.randint(3, maxlen)):
            k = r.random()
            if k < 0.12:
                t = pickle.loads(pickle.dumps(t))
                shown.append('pickle round trip')
            elif k < 0.2:
                t = copy.deepcopy(t)
                shown.append('deepcopy')
            elif k < 0.26:
                t.cook()
                shown.append('cook')
            else:
                ns = {c: (r.choice(focus) if r.random() < 0.8 else 'v%d' % r.randrange(3)) for c in XF_CALLS}
                ns['o1'], ns['o2'] = r.choice(obcls)(), r.choice(obcls)()
                shown.append({'render': {c: (xf_describe(v) if isinstance(v, type) else v) for c, v in ns.items() if c in XF_CALLS},
                              'o1.tag': ns['o1'].tag, 'o2.tag': ns['o2'].tag})
                try:
                    want = ('ok', xf_ref(parts, ns))
                except XfRaised as e:
                    want = ('raise', e.args[0])
                got = xf_render(t, ns)
                again = xf_render(t, ns)
                new = xf_render(cls(src), ns)
                res.count('exception families: outcome=' + ('rendered' if want[0] == 'ok' else 'exception propagates'))
                for label, v in (('the template of the history', got), ('the same call repeated', again),
                                 ('a template constructed now', new)):
                    if v != want:
                        fails.append('step %d: %s gives %r, expected (handler = first except block naming the class or one of its '
                                     'base classes) %r' % (len(shown) - 1, label, xf_show(v), xf_show(want)))
                if fails:
                    break
        res.nt(('xfam', cls_idx, src))
        res.count('history=exception families (classes sharing a name, other bases)')
        for w in fails[:2]:
            res.oracle_fail.append({'case': {'class': CLASS_NAMES[cls_idx], 'source': src, 'history': shown,
                                             'exception classes': [xf_describe(c) for c in fam]}, 'what': w})


# ---------------------------------------------------------------------------------------------------------------------------
# (h) other interpreter runs: "the same template with equal inputs always gives the same result" also holds in another process,
# and a pickle is normally restored in another process.  Templates (HTML and %(..)s syntax: var tags with every subset of 1..4
# modifiers incl. the entity form, dtml-in sorted on several keys, dtml-let with several names, try/except on builtin exceptions,
# if/else) are rendered here, pickled (cooked or not), and rendered in child interpreters started with different string hash
# seeds: restored pickle, twice; a template constructed there; a pickle round trip there.  Every result must equal the expected
# value: a plain-Python reference where there is one (modifiers act in the order of the documented table: html_quote, url_quote,
# url_quote_plus, newline_to_br, lower, upper, capitalize, spacify, thousands_commas, sql_quote), the parent's result otherwise.

PX_MODS = ['html_quote', 'url_quote', 'url_quote_plus', 'url_unquote', 'url_unquote_plus', 'newline_to_br', 'lower', 'upper',
           'capitalize', 'spacify', 'thousands_commas', 'sql_quote']
PX_NOREF = ('url_unquote', 'url_unquote_plus')
PX_INPUTS = [
    {'x': 'mIxEd_case', 't': 'a<b\nc&d', 'u': 'a_b c/d', 'n': '1234567.25', 'q': "it's \"Q\"_x\r\nY", 'k': 1,
     'rows': [{'a': 2, 'b': 'x', 'c': 'B'}, {'a': 1, 'b': 'y', 'c': 'a'}, {'a': 2, 'b': 'a', 'c': 'b'}, {'a': 1, 'b': 'b', 'c': 'A'}]},
    {'x': 'under_Score and <Tag>', 't': 'Two\nlines_here', 'u': 'q=1&r=a b_c', 'n': '98765', 'q': "o'Neil_1000000", 'k': 0,
     'rows': [{'a': 3, 'b': 'k', 'c': 'z'}, {'a': 3, 'b': 'c', 'c': 'Z'}, {'a': 0, 'b': 'k', 'c': 'm'}], 'f': {'__raise__': 'KeyError'}},
    {'x': 'ALL_UPPER 1000000', 't': '<i>\n</i>', 'u': 'Ab/Cd_ef+g', 'n': '1000', 'q': '', 'k': 2, 'rows': [],
     'f': {'__raise__': 'ZeroDivisionError'}},
]


def px_ref_mod(name, v):
    import urllib.parse
    if name == 'html_quote':
        for a, b in (('&', '&amp;'), ('<', '&lt;'), ('>', '&gt;'), ('"', '&quot;'), ("'", '&#x27;')):
            v = v.replace(a, b)
        return v
    if name == 'url_quote':
        return urllib.parse.quote(v)
    if name == 'url_quote_plus':
        return urllib.parse.quote_plus(v)
    if name == 'newline_to_br':
        return v.replace('\r', '').replace('\n', '<br />\n')
    if name == 'lower':
        return v.lower()
    if name == 'upper':
        return v.upper()
    if name == 'capitalize':
        return v[:1].upper() + v[1:].lower()
    if name == 'spacify':
        return v.replace('_', ' ')
    if name == 'thousands_commas':
        head, dot, tail = v.partition('.')
        m = re.search(r'[0-9]+$', head)         # the digits that end the part before the first dot get commas
        if m:
            d = m.group(0)
            groups = []
            while len(d) > 3:
                groups.insert(0, d[-3:])
                d = d[:-3]
            head = head[:m.start()] + ','.join([d] + groups)
        return head + dot + tail
    if name == 'sql_quote':
        for c in '\x00\x1a\r':
            v = v.replace(c, '')
        return v.replace("'", "''")
    raise KeyError(name)


def px_gen(r):
    """one template: (class name, source, reference(inputs) or None)"""
    string_syntax = r.random() < 0.3
    pieces, refs = [], []
    for _ in range(r.randint(1, 3)):
        k = r.random()
        name = r.choice(['x', 't', 'u', 'n', 'q'])
        if k < 0.6 or string_syntax:
            mods = r.sample(PX_MODS if r.random() < 0.25 else [m for m in PX_MODS if m not in PX_NOREF], r.choice([1, 2, 2, 2, 3, 3, 4]))
            pieces.append(('%%(%s %s)s' if string_syntax else '<dtml-var %s %s>') % (name, ' '.join(mods)))
            if any(m in PX_NOREF for m in mods):
                refs.append(None)
            else:
                order = [m for m in PX_MODS if m in mods]
                refs.append(lambda inp, name=name, order=order: _px_apply(inp[name], order))
        elif k < 0.7:
            mods = r.sample([m for m in PX_MODS if m != 'html_quote'], r.choice([1, 2, 3]))
            pieces.append('&dtml.%s-%s;' % ('.'.join(mods), name))
            refs.append(None)
        elif k < 0.8:
            keys = r.sample(['a', 'b', 'c'], r.choice([2, 3]))
            pieces.append('<dtml-in rows mapping sort="%s"%s><dtml-var a><dtml-var b upper lower><dtml-var c>,</dtml-in>'
                          % (','.join(keys), r.choice(['', ' reverse'])))
            refs.append(None)
        elif k < 0.9:
            pieces.append('<dtml-let a=x b="a + u" c="b.upper()" x=t><dtml-var c spacify lower>/<dtml-var x upper newline_to_br></dtml-let>')
            refs.append(lambda inp: _px_apply((inp['x'] + inp['u']).upper(), ['lower', 'spacify']) + '/'
                        + _px_apply(inp['t'], ['newline_to_br', 'upper']))
        else:
            pieces.append('<dtml-try><dtml-var f><dtml-except LookupError ArithmeticError>E:<dtml-var error_type lower capitalize>'
                          '<dtml-else>fine</dtml-try><dtml-if k>K<dtml-else>nok</dtml-if>')
            refs.append(None)
        if r.random() < 0.5:
            sep = r.choice([' | ', '; ', ' - '])
            pieces.append(sep)
            refs.append(lambda inp, sep=sep: sep)
    src = ''.join(pieces)
    ref = None
    if all(f is not None for f in refs):
        def ref(inp, refs=tuple(refs)):
            return ''.join(f(inp) for f in refs)
    return ('String' if string_syntax else 'HTML'), src, ref


def _px_apply(v, order):
    v = str(v)
    for m in order:
        v = px_ref_mod(m, v)
    return v


def px_outcome(t, inp):
    import builtins
    kw = {}
    for k, v in inp.items():
        if isinstance(v, dict) and '__raise__' in v:
            def f(c=getattr(builtins, v['__raise__'])):
                raise c('boom')
            v = f
        kw[k] = v
    kw.setdefault('f', 'nothing raised')
    try:
        return ['ok', t(**kw)]
    except Exception as e:      # noqa
        return ['raise', type(e).__name__]


def px_child():
    """runs in the child interpreter: job on stdin, results on stdout"""
    import binascii
    import DocumentTemplate
    job = json.load(sys.stdin)
    restored = pickle.loads(binascii.unhexlify(job['blob']))
    out = []
    for (kind, src), t in zip(job['templates'], restored):
        fresh = getattr(DocumentTemplate, kind)(src)
        row = {}
        for label, ob in (('the pickle of the parent process, restored', t), ('the same, rendered again', t),
                          ('a template constructed in this process', fresh), ('the same, rendered again ', fresh),
                          ('a pickle round trip within this process', pickle.loads(pickle.dumps(t)))):
            row[label] = [px_outcome(ob, inp) for inp in job['inputs']]
        out.append(row)
    json.dump({'hashseed': os.environ.get('PYTHONHASHSEED'), 'rows': out}, sys.stdout)


def process_check(res, r, n, seeds):
    import binascii
    import subprocess
    import DocumentTemplate
    gens = [px_gen(r) for _ in range(n)]
    templates = [getattr(DocumentTemplate, kind)(src) for kind, src, _ in gens]
    here = []
    for i, t in enumerate(templates):
        if i % 3:       # two of three are compiled and rendered before they are pickled
            here.append([px_outcome(t, inp) for inp in PX_INPUTS])
        else:
            here.append([px_outcome(getattr(DocumentTemplate, gens[i][0])(gens[i][1]), inp) for inp in PX_INPUTS])
    expected = []
    for (kind, src, ref), mine in zip(gens, here):
        exp = []
        for inp, m in zip(PX_INPUTS, mine):
            exp.append(['ok', ref(inp)] if ref is not None else m)
        expected.append(exp)
    job = json.dumps({'blob': binascii.hexlify(pickle.dumps(templates)).decode('ascii'),
                      'templates': [[kind, src] for kind, src, _ in gens], 'inputs': PX_INPUTS})
    runs = {'this process': [{'rendered here': h} for h in here]}
    code = 'import sys; sys.path.insert(0, %r); import common; import props.c17 as m; m.px_child()' % os.path.dirname(
        os.path.dirname(os.path.abspath(__file__)))
    procs = []
    for s in seeds:
        env = dict(os.environ, PYTHONHASHSEED=str(s))
        procs.append((s, subprocess.Popen([sys.executable, '-c', code], env=env, stdin=subprocess.PIPE, stdout=subprocess.PIPE,
                                          stderr=subprocess.PIPE, text=True)))
    for s, p in procs:
        try:
            so, se = p.communicate(job, timeout=300)
        except subprocess.TimeoutExpired:
            p.kill()
            res.harness_errors.append('other interpreter runs: child with hash seed %s timed out' % s)
            continue
        if p.returncode:
            res.harness_errors.append('other interpreter runs: child with hash seed %s failed: %s' % (s, se[-1500:]))
            continue
        runs['another interpreter run, PYTHONHASHSEED=%s' % s] = json.loads(so)['rows']
    for i, (kind, src, ref) in enumerate(gens):
        res.evaluations += 1
        res.nt(('proc', kind, src))
        res.count('history=pickled here, rendered in %d other interpreter runs' % len(seeds))
        res.count('other runs: expected value from ' + ('the plain-Python reference' if ref else 'agreement of all runs'))
        bad = None
        for where, rows in runs.items():
            for label, outs in rows[i].items():
                for inp, o, e in zip(PX_INPUTS, outs, expected[i]):
                    if o != e and bad is None:
                        bad = ('%s(%r) with %r: %s / %s gives %r, expected %r (%s)'
                               % (kind, src, {k: v for k, v in inp.items() if k != 'rows'}, where, label.strip(), o, e,
                                  'reference: modifiers in the order of the documented table' if ref else 'the result in this process'))
        if bad:
            res.oracle_fail.append({'case': {'class': kind, 'source': src, 'runs': sorted(runs)}, 'what': bad})


# ---------------------------------------------------------------------------------------------------------------------------
# (i) what dtml-in iterates over (iterable_check).  Everywhere else the sequences handed to a template are lists and tuples made
# anew for every call.  Here a small "application" lives next to 2..3 templates for a whole history: long-lived containers of EVERY
# kind that can be iterated -- list, tuple, range-like custom sequence (__getitem__ + __len__ only), deque, dict, set, frozenset, objects
# with only __iter__ (with / without __len__), mapping-like objects (keys / get), a view kept on a dict, one-shot iterators and
# generators that are rendered again after they ran dry -- holding numbers (1 / 1.0 / True: equal, same hash, different text),
# strings, (key, value) pairs or records.  Between renderings the application CHANGES them in place (add / remove / clear),
# replaces them by new objects, or nothing at all; every rendering binds each name of the template to one of the long-lived
# objects or to a short-lived object made for that one call and dropped right after it (d.keys() / d.values() / d.items() of a
# long-lived dict, a generator or iterator over a container, an equal copy, a brand-new container), so addresses get reused.  The
# dtml-in tags take the value by name, by expr and as expr="d.items()" (the view is made inside the rendering), plain / sort /
# reverse / batch (size, start) / prefix / else / nested in one another, and insert item, key, index, number, length, start / end.
# Templates are rendered, repeated, pickled, deep-copied, cooked; all of them share the containers.
# Expected text: a reference interpreter written here that iterates an EQUAL application (a twin world that got the same changes)
# with plain Python; + the same call repeated; + a template constructed now on a third equal world; + the re-iterable containers of
# the world the templates saw are compared with the twin's after every step (rendering changes nothing).

import collections

IT_NUMS = [0, 1, 2, 3, 5, 8, 13, 1.0, True, 2.0, False, 21, 2.5]
IT_STRS = ['a', 'b', 'c', 'k1', 'k2', 'x0', 'y0', 'p0', 'q0', 'zz']
IT_NAMES = {'n1': 'num', 'n2': 'num', 's1': 'str', 'p1': 'pair', 'r1': 'rec', 'd1': 'dict'}


class ItRec:
    def __init__(self, name, rank):
        self.name, self.rank = name, rank

    def __str__(self):
        return 'R<%s>' % self.name

    __repr__ = __str__


class ItBag:
    """iterable only"""

    def __init__(self, items):
        self.items = list(items)

    def __iter__(self):
        return iter(self.items)


class ItSizedBag(ItBag):
    """iterable with a length, no subscription"""

    def __len__(self):
        return len(self.items)


class ItSeq:
    """subscription and length, nothing else"""

    def __init__(self, items):
        self.items = list(items)

    def __getitem__(self, i):
        return self.items[i]

    def __len__(self):
        return len(self.items)


class ItKeyed(ItSizedBag):
    """looks like a mapping (keys / get / subscription by key); iterating it gives its entries"""

    def keys(self):
        return list(range(len(self.items)))

    def get(self, k, default=None):
        return self.items[k] if 0 <= k < len(self.items) else default

    def __getitem__(self, k):
        return self.items[k]


class ItHeld:
    """a dict of the application and a view of it that the application keeps (the templates get the view)"""

    def __init__(self, items, keys):
        self.keys = keys
        self.n = 0
        self.d = {}
        self.view = self.d.keys() if keys else self.d.values()
        self.add(items)

    def add(self, items):
        for x in items:
            if self.keys:
                self.d[x] = None
            else:
                self.n += 1
                self.d[self.n] = x

    def current(self):
        return list(self.d) if self.keys else list(self.d.values())


IT_WRAPPED = {'bag': ItBag, 'sizedbag': ItSizedBag, 'seq': ItSeq, 'keyed': ItKeyed}
IT_ONE_SHOT = ('iterator', 'generator')
IT_KINDS = ['list', 'tuple', 'deque', 'seq', 'set', 'frozenset', 'bag', 'sizedbag', 'keyed', 'iterator', 'generator', 'keysview',
            'valuesview']
IT_UNHASHABLE_OK = ('list', 'tuple', 'deque', 'seq', 'bag', 'sizedbag', 'keyed', 'iterator', 'generator')


def it_gen_item(r, ty):
    if ty == 'num':
        return r.choice(IT_NUMS)
    if ty == 'str':
        return r.choice(IT_STRS)
    if ty == 'pair' or ty == 'dict':
        return [r.choice(IT_STRS), r.choice(IT_NUMS)]
    return ['rec', r.choice(IT_STRS), r.randint(0, 3)]


def it_gen_content(r, ty, lo=0, hi=4):
    return [it_gen_item(r, ty) for _ in range(r.randint(lo, hi))]


def it_item(spec):
    """the object for an item description (a new one per world)"""
    if isinstance(spec, list):
        return ItRec(spec[1], spec[2]) if spec[0] == 'rec' and len(spec) == 3 else (spec[0], spec[1])
    return spec


def it_show(v):
    return [v.name, v.rank] if isinstance(v, ItRec) else v


def it_make(kind, content):
    """a new container of the kind with the items described"""
    items = [it_item(c) for c in content]
    if kind == 'list':
        return items
    if kind == 'tuple':
        return tuple(items)
    if kind == 'deque':
        return collections.deque(items)
    if kind == 'set':
        s = set()
        for x in items:
            s.add(x)
        return s
    if kind == 'frozenset':
        return frozenset(items)
    if kind == 'dict':
        return dict(items)
    if kind in IT_WRAPPED:
        return IT_WRAPPED[kind](items)
    if kind == 'iterator':
        return iter(items)
    if kind == 'generator':
        return (x for x in items)
    if kind in ('keysview', 'valuesview'):
        return ItHeld(items, kind == 'keysview')
    raise ValueError(kind)


def it_mutate(kind, obj, op, content):
    """the application changes a long-lived container; -> the container to go on with (the same object wherever the kind allows)"""
    items = [it_item(c) for c in content]
    if op == 'replace' or kind in ('tuple', 'frozenset') + IT_ONE_SHOT:
        if op == 'replace':
            return it_make(kind, content)
        if kind in IT_ONE_SHOT:
            return obj
        old = list(obj)
        new = old + items if op == 'add' else old[1:] if op == 'pop' else []
        return tuple(new) if kind == 'tuple' else frozenset(new)
    if isinstance(obj, ItHeld):
        if op == 'add':
            obj.add(items)
        elif op == 'clear':
            obj.d.clear()
        else:
            for k in list(obj.d)[:1]:
                del obj.d[k]
        return obj
    target = obj.items if kind in IT_WRAPPED else obj
    if op == 'clear':
        target.clear()
    elif op == 'pop':
        if kind == 'dict':
            for k in list(target)[:1]:
                del target[k]
        elif kind == 'set':
            for k in sorted(target, key=repr)[:1]:
                target.discard(k)
        elif kind == 'deque':
            if target:
                target.popleft()
        else:
            del target[:1]
    else:
        for x in items:
            if kind == 'dict':
                target[x[0]] = x[1]
            elif kind == 'set':
                target.add(x)
            else:
                target.append(x)
    return obj


def it_world(members):
    return [it_make(kind, content) for kind, _ty, content in members]


def it_bind(world, members, how):
    """the value one rendering gets for a name: a long-lived object of the world, or an object made for this call only"""
    form, i = how[0], how[1]
    if form == 'member':
        return world[i].view if isinstance(world[i], ItHeld) else world[i]
    if form == 'new':
        obj = it_make(how[1], how[2])
        return obj.view if isinstance(obj, ItHeld) else obj
    obj = world[i].view if isinstance(world[i], ItHeld) else world[i]
    if form == 'keys':
        return obj.keys()
    if form == 'values':
        return obj.values()
    if form == 'items':
        return obj.items()
    if form == 'generator over':
        return (x for x in list(obj))
    if form == 'iterator over':
        return iter(obj)
    if form == 'copy of':                   # an equal input that is another object
        kind = members[i][0]
        return IT_WRAPPED[kind](obj.items) if kind in IT_WRAPPED else list(obj) if kind in ('keysview', 'valuesview') else \
            type(obj)(obj)
    raise ValueError(form)


def it_gen_bindings(r, names, members, no_one_shot=()):
    """for every name of the template a value of the right item type"""
    out = {}
    for n in names:
        ty = IT_NAMES[n]
        cands = [i for i, (kind, mty, _c) in enumerate(members) if mty == ty and not (kind in IT_ONE_SHOT and n in no_one_shot)]
        dicts = [i for i, (kind, mty, _c) in enumerate(members) if mty == 'dict']
        k = r.random()
        if ty == 'dict':
            out[n] = ['member', r.choice(dicts)] if k < 0.8 else ['copy of', r.choice(dicts)] if k < 0.9 else \
                ['new', 'dict', it_gen_content(r, 'dict')]
            continue
        if k < 0.5 and cands:
            out[n] = ['member', r.choice(cands)]
        elif k < 0.65 and ty in ('str', 'num', 'pair') and dicts:
            out[n] = [{'str': 'keys', 'num': 'values', 'pair': 'items'}[ty], r.choice(dicts)]
        elif k < 0.7 and ty == 'str' and dicts:
            out[n] = ['member', r.choice(dicts)]                  # the dict itself: dtml-in goes over its keys
        elif k < 0.85 and cands:
            i = r.choice(cands)
            # (a batched loop pulls only its window and the look-ahead from a one-shot iterator - C12's subject; what a later
            # loop of the same rendering then finds in it is not what this reference describes, so names a batched loop goes
            # over never get a one-shot value, whichever way the value is made)
            out[n] = [r.choice(['generator over', 'iterator over', 'copy of']) if n not in no_one_shot else 'copy of', i]
            if members[i][0] in IT_ONE_SHOT:
                out[n] = ['member', i]
        else:
            kind = r.choice([kd for kd in IT_KINDS if (ty != 'rec' or kd in IT_UNHASHABLE_OK) and
                             not (kd in IT_ONE_SHOT and n in no_one_shot)])
            out[n] = ['new', kind, it_gen_content(r, ty)]
    return out


# --- templates

def it_gen_in(r, name, depth, outer_prefix=None, inner=False):
    ty = IT_NAMES[name]
    opts = {'sort': None, 'reverse': False, 'batch': None, 'prefix': None}
    k = r.random()
    if ty == 'dict':
        view = r.choice(['keys', 'values', 'items', 'keys', 'items', None])
        src = ('view', name, view) if view else ('name', name)
        ity = {'keys': 'str', 'values': 'num', 'items': 'pair', None: 'str'}[view]
    else:
        src = ('name', name) if r.random() < 0.65 else ('expr', name)
        ity = ty
    if k < 0.2:
        opts['sort'] = 'rank' if ity == 'rec' else ''
    elif k < 0.3:
        opts['reverse'] = True
    elif k < 0.4:
        opts['sort'] = 'rank' if ity == 'rec' else ''
        opts['reverse'] = True
    if r.random() < 0.25 and not inner:
        opts['batch'] = (r.randint(1, 3), r.randint(1, 3))
    if r.random() < 0.3:
        opts['prefix'] = 'q' if inner else 'p'
    body = []
    for _ in range(r.randint(1, 4)):
        k = r.random()
        if k < 0.4:
            what = r.choice(['item', 'item', 'key'] if ity == 'pair' else ['name', 'rank', 'item'] if ity == 'rec' else ['item'])
        elif k < 0.7:
            what = r.choice(['index', 'number', 'length'])
        elif k < 0.85:
            body.append((r.choice(['ifstart', 'ifend']), r.choice(['[', ']', '^'])))
            continue
        elif outer_prefix:
            body.append(('outer', outer_prefix, r.choice(['item', 'index'])))
            continue
        else:
            body.append(('text', r.choice([':', '.', '-'])))
            continue
        body.append(('v', what, bool(opts['prefix']) and what not in ('name', 'rank', 'length') and r.random() < 0.6))
    if not any(p[0] == 'v' and p[1] in ('item', 'key', 'name') for p in body):
        body.insert(0, ('v', 'item', False))
    if depth and r.random() < 0.35:
        other = r.choice([n for n in sorted(IT_NAMES) if n != name])
        body.append(('text', '('))
        body.append(it_gen_in(r, other, depth - 1, opts['prefix'], inner=True))
        body.append(('text', ')'))
    body.append(('text', ','))
    els = r.choice([None, None, 'nothing', 'empty %s' % name])
    return ('in', src, opts, body, els)


def it_gen_template(r):
    parts = []
    for name in r.sample(sorted(IT_NAMES), r.randint(1, 3)):
        if r.random() < 0.4:
            parts.append(('text', r.choice(['| ', ' / ', 'T:'])))
        parts.append(it_gen_in(r, name, 1))
    return parts


IT_VARS = {'item': 'item', 'key': 'key', 'index': 'index', 'number': 'number', 'length': 'length'}


def it_src(parts, prefix=None):
    out = []
    for p in parts:
        if p[0] == 'text':
            out.append(p[1])
        elif p[0] == 'v':
            what = p[1]
            out.append('<dtml-var %s>' % (what if what in ('name', 'rank') else
                                          '%s_%s' % (prefix, what) if p[2] else 'sequence-' + what))
        elif p[0] == 'outer':
            out.append('<dtml-var %s_%s>' % (p[1], p[2]))
        elif p[0] in ('ifstart', 'ifend'):
            out.append('<dtml-if sequence-%s>%s</dtml-if>' % (p[0][2:], p[1]))
        else:
            _, src, opts, body, els = p
            tag = ['dtml-in']
            tag.append(src[1] if src[0] == 'name' else 'expr="%s"' % src[1] if src[0] == 'expr' else 'expr="%s.%s()"' % (src[1], src[2]))
            if opts['sort'] is not None:
                tag.append('sort=%s' % opts['sort'] if opts['sort'] else 'sort')
            if opts['reverse']:
                tag.append('reverse')
            if opts['batch']:
                tag.append('size=%d start=%d orphan=0' % opts['batch'])
            if opts['prefix']:
                tag.append('prefix=%s' % opts['prefix'])
            out.append('<%s>' % ' '.join(tag))
            out.append(it_src(body, opts['prefix']))
            if els is not None:
                out.append('<dtml-else>' + els)
            out.append('</dtml-in>')
    return ''.join(out)


def it_names(parts):
    out = set()
    for p in parts:
        if p[0] == 'in':
            out.add(p[1][1])
            out |= it_names(p[3])
    return out


def it_batched_names(parts):
    out = set()
    for p in parts:
        if p[0] == 'in':
            if p[2]['batch']:
                out.add(p[1][1])
            out |= it_batched_names(p[3])
    return out


def it_ref(parts, ns, frames=()):
    """plain-Python reading of the template: dtml-in goes once over what iterating the value gives NOW"""
    out = []
    for p in parts:
        if p[0] == 'text':
            out.append(p[1])
        elif p[0] == 'v':
            v = frames[-1][1][p[1]]
            out.append(str(v))
        elif p[0] == 'outer':
            fr = [f for f in frames if f[0] == p[1]][-1]
            out.append(str(fr[1][p[2]]))
        elif p[0] == 'ifstart':
            out.append(p[1] if frames[-1][1]['start'] else '')
        elif p[0] == 'ifend':
            out.append(p[1] if frames[-1][1]['end'] else '')
        else:
            _, src, opts, body, els = p
            value = ns[src[1]]
            if src[0] == 'view':
                value = getattr(value, src[2])()
            if isinstance(value, ItSeq):
                items = [value[i] for i in range(len(value))]
            else:
                items = [x for x in value]
            if not items:
                out.append(els or '')
                continue

            def key_item(x):
                return x if type(x) is tuple and len(x) == 2 else (None, x)
            if opts['sort'] is not None:
                if opts['sort'] == '':
                    items.sort(key=lambda x: x[0] if type(x) is tuple and len(x) == 2 else x)
                else:
                    items.sort(key=lambda x: getattr(key_item(x)[1], opts['sort']))
            if opts['reverse']:
                items.reverse()
            first, last = 0, len(items) - 1
            if opts['batch']:
                size, start = opts['batch']
                start = min(start, len(items))
                first, last = start - 1, min(start + size - 1, len(items)) - 1
            for idx in range(first, last + 1):
                key, item = key_item(items[idx])
                vals = {'item': item, 'key': key, 'index': idx, 'number': idx + 1, 'length': len(items),
                        'start': idx == first, 'end': idx == last}
                if isinstance(item, ItRec):
                    vals['name'], vals['rank'] = item.name, item.rank
                out.append(it_ref(body, ns, frames + ((opts['prefix'], vals),)))
    return ''.join(out)


def it_outcome(f):
    try:
        return ['ok', f()]
    except Exception as e:      # noqa
        return ['raise', type(e).__name__, str(e)[:100]]


def it_canon(kind, obj):
    if kind in IT_ONE_SHOT:
        return None
    if kind == 'dict':
        return [[k, repr(v)] for k, v in obj.items()]
    cur = obj.items if kind in IT_WRAPPED else obj.current() if isinstance(obj, ItHeld) else list(obj)
    return [repr(it_show(x)) if not isinstance(x, tuple) else repr(x) for x in cur]


def iterable_check(res, r, n, maxlen=9):
    classes = template_classes()
    for j in range(n):
        members = [['dict', 'dict', it_gen_content(r, 'dict', 1, 4)]]
        for _ in range(r.randint(3, 7)):
            ty = r.choice(['num', 'str', 'pair', 'rec', 'dict', 'num', 'str'])
            kind = 'dict' if ty == 'dict' else r.choice([kd for kd in IT_KINDS if ty != 'rec' or kd in IT_UNHASHABLE_OK])
            members.append([kind, ty, it_gen_content(r, ty, 0, 4)])
        for ty in ('num', 'str', 'pair', 'rec'):
            if not any(m[1] == ty for m in members):
                members.append([r.choice(['list', 'bag', 'tuple']), ty, it_gen_content(r, ty, 1, 3)])
        start_members = json.loads(json.dumps(members))
        worlds = [it_world(members) for _ in range(3)]      # the one the templates see; the reference's twin; a new template's
        tmpls = []
        for i in range(r.randint(1, 3)):
            parts = it_gen_template(r)
            cls_idx = (j + i) % 2
            src = it_src(parts)
            try:
                tmpls.append([parts, src, cls_idx, classes[cls_idx](src)])
            except Exception as e:      # noqa
                res.harness_errors.append('iterables: %r does not compile: %r' % (src, e))
                return
        res.evaluations += 1
        shown, fails = [], []
        last_bind = {}
        for step in range(r.randint(3, maxlen)):
            k = r.random()
            if k < 0.3:
                i = r.randrange(len(members))
                kind, ty, _c = members[i]
                op = r.choice(['add', 'add', 'pop', 'clear', 'replace', 'replace'])
                content = it_gen_content(r, ty, 1, 2) if op == 'add' else it_gen_content(r, ty, 0, 4) if op == 'replace' else []
                for w in worlds:
                    w[i] = it_mutate(kind, w[i], op, content)
                shown.append({'the application changes container %d (%s)' % (i, kind): op, 'items': content})
                res.count('iterables: change=%s' % op)
                continue
            if k < 0.4:
                tm = r.choice(tmpls)
                op = r.choice(['pickle round trip', 'deepcopy', 'cook'])
                if op == 'cook':
                    tm[3].cook()
                else:
                    tm[3] = pickle.loads(pickle.dumps(tm[3])) if op[0] == 'p' else copy.deepcopy(tm[3])
                shown.append({'template %d' % tmpls.index(tm): op})
                continue
            ti = r.randrange(len(tmpls))
            parts, src, cls_idx, _t = tmpls[ti]
            names = sorted(it_names(parts))
            if k < 0.55 and last_bind.get(ti):
                bind = last_bind[ti]                    # the same call as before, after whatever happened in between
            else:
                bind = it_gen_bindings(r, names, members, it_batched_names(parts))
            last_bind[ti] = bind
            shown.append({'render template %d' % ti: bind})
            for n_, how in bind.items():
                res.count('iterables: dtml-in over %s' % (('long-lived %s' % members[how[1]][0]) if how[0] == 'member' else
                                                           ('short-lived %s' % how[1]) if how[0] == 'new' else
                                                           'short-lived %s %s' % (how[0], members[how[1]][0])))
            for rep in range(2 if r.random() < 0.5 else 1):
                want = it_outcome(lambda: it_ref(parts, {n_: it_bind(worlds[1], members, how) for n_, how in bind.items()}))
                got = it_outcome(lambda: tmpls[ti][3](**{n_: it_bind(worlds[0], members, how) for n_, how in bind.items()}))
                new = it_outcome(lambda: classes[cls_idx](src)(**{n_: it_bind(worlds[2], members, how) for n_, how in bind.items()}))
                res.count('iterables: outcome=' + ('rendered, %s' % ('empty text' if not want[1] else 'some text') if want[0] == 'ok' else
                                                   'the reference fails'))
                if want[0] != 'ok':
                    res.harness_errors.append('iterables: the reference fails on %r with %r: %r' % (src, bind, want))
                    return
                for label, v in (('the template of the history', got), ('a template constructed now, on an equal application', new)):
                    if v != want:
                        fails.append('step %d%s: %s gives %r, expected (dtml-in goes over what iterating the value gives at the time '
                                     'of the rendering) %r' % (len(shown) - 1, ' (the call repeated)' if rep else '', label, v, want))
                if fails:
                    break
            for i, (kind, _ty, _c) in enumerate(members):
                a, b = it_canon(kind, worlds[0][i]), it_canon(kind, worlds[1][i])
                if a != b:
                    fails.append('step %d: after the rendering container %d (%s) of the application holds %r, expected %r (rendering '
                                 'changes nothing)' % (len(shown) - 1, i, kind, a, b))
            if fails:
                break
        res.nt(('iterables',) + tuple(t[1] for t in tmpls))
        res.count('history=iterables (long-lived containers changed between renderings, short-lived views / generators)')
        for w in fails[:2]:
            res.oracle_fail.append({'case': {'templates': [{'class': CLASS_NAMES[t[2]], 'source': t[1]} for t in tmpls],
                                             'containers at the start [kind, item type, items]': start_members,
                                             'history': shown}, 'what': w})


def show_case(init, ops, cls_idx):
    return {'class': CLASS_NAMES[cls_idx], 'init': [SOURCES[init[0]], init[1], init[2]],
            'ops': show_ops(ops),
            'inputs': "[key, code]: key = name (keyword argument) | 'm:name' (in the mapping) | 'c:name' (client attribute) | "
                      "'-name' (left out of the base mapping); code = index into props.c17.VALUES[name], or the integer itself"}


def check(res, r, n, maxlen, have_driver, streaks=0, idioms=0, calls=0, files=0, overlaps=0, tier='quick', encs=0, xfams=0, procs=0,
          proc_seeds=(), iters=0):
    hist = []
    for j in range(n):
        init = [r.randrange(len(SOURCES)), gen_dict(r), gen_dict(r)]
        hist.append((init, gen_history(r, maxlen, init[0]), j % 3 == 2, 'random'))
    for rep in range(streaks):
        for src in range(len(SOURCES)):
            if SOURCES[src] == '':
                continue
            init = [src, gen_dict(r, 1) if r.random() < 0.4 else [], gen_dict(r, 1) if r.random() < 0.4 else []]
            hist.append((init, gen_streak(r, src, min(maxlen, 8)), (rep + src) % 2 == 1, 'streak'))
    # histories whose renders use every calling convention: client = None / one object / a tuple ("path") of 0..3 objects,
    # mapping = dict / None / another mapping object / the namespace of a calling template (a TemplateDict)
    rc = common.rng('C17-calls')
    for j in range(calls):
        src = j % len(SOURCES) if j < 2 * len(SOURCES) else rc.randrange(len(SOURCES))
        init = [src, gen_dict(rc), gen_dict(rc)]
        hist.append((init, gen_history(rc, maxlen, src, conv=0.8), j % 3 == 1, 'calling conventions'))
    states = [None] * len(hist)
    if have_driver:
        resp = common.run_driver([{'op': 'tmpl', 'init': init, 'ops': ops} for init, ops, _, _ in hist])
        states = []
        for rp in resp:
            if 'ok' not in rp:
                res.harness_errors.append('driver: %r' % (rp,))
                return
            states.append(rp['ok'])
    fresh_log = []
    for (init, ops, guarded, kind), ms in zip(hist, states):
        res.evaluations += 1
        cls_idx = 1 if guarded else 0
        oracle, corr = run_history(init, ops, ms, res, cls_idx, fresh_log)
        res.nt((init[0] if kind != 'random' else -1, cls_idx) + tuple(o[0] for o in ops))
        res.count('history=' + kind)
        res.count('class=' + ('guarded' if guarded else 'HTML'))
        for o in ops:
            res.count('op=' + o[0])
            if o[0] == 'render':
                conv = dict(e for e in o[1] if e[0][0] == '@')
                res.count('call: client=%s' % ('none or one object' if '@client' not in conv else 'tuple of %d' % conv['@client']))
                res.count('call: mapping=%s' % MAPPING_KINDS[conv.get('@mapping', 0)])
                for key, _ in o[1]:
                    if binding_kind(key):
                        res.count('binding=' + binding_kind(key))
        for w in oracle:
            res.oracle_fail.append({'case': show_case(init, ops, cls_idx), 'what': w})
        if ms is not None:
            res.corr_checked += len(ops)
            for c in corr:
                res.corr_mismatch.append({'case': {'init': init, 'ops': ops, 'class': cls_idx}, 'impl': c.get('impl'), 'model': c.get('model'),
                                          'diff': 'after op %d %s' % (c['op'], c.get('what', 'object state'))})
    if any('cannot be pickled and restored' in f['what'] for f in res.oracle_fail):
        # compiled templates of this tree cannot be stored at all: every further family of histories would only repeat that
        res.count('further families skipped: templates cannot be pickled')
        return
    recheck_fresh(res, fresh_log, r, 600 if streaks else 300)
    if idioms:
        idiom_check(res, r, idioms)
    if calls:
        subcall_check(res, common.rng('C17-subcalls'), calls * 2)
    if files:
        file_history_check(res, common.rng('C17-files'), files, maxlen)
    if overlaps:
        overlap_check(res, common.rng('C17-overlap'), overlaps, tier)
    if encs:
        encoding_check(res, common.rng('C17-encodings'), encs)
    if xfams:
        exception_family_check(res, common.rng('C17-exception-families'), xfams, maxlen)
    if procs:
        process_check(res, common.rng('C17-processes'), procs, proc_seeds)
    if iters:
        iterable_check(res, common.rng('C17-iterables'), iters)
    file_template_check(res)


def run(res, tier, have_driver):
    r = common.rng('C17')
    res.rule = ('random histories over render / pickle / deepcopy / cook / munge(source) / munge(mapping, **kw) / munge(both) / var / '
                'default on %d sources (all tags; sort_expr and reverse_expr depending on the inputs; the empty source; expressions '
                'on optional names in var / if / elif / unless / in / let / with / call / raise / return / sort_expr / reverse_expr; '
                'batch parameters by name; var options on values of changing type; `_` idioms; self re-entrance; records with '
                'different keys; repeated expression texts incl. long-lived sub-templates; callables), plus render-only histories '
                'per source (same compiled template, changing namespaces); inputs are PARTIAL namespaces: each used name '
                'independently bound / unbound per render, through keyword, mapping, client attribute or defaults, base names left '
                'out, values of several types; template class HTML or HTML with pass-through guards (restricted evaluator); every '
                'render compared with a new template built through the public API from the same source and defaults, and repeated; '
                'caller data (mapping, keywords, client) deep-compared; results of new templates recomputed later in another order; '
                'optional-name idioms against a Python reference, as consecutive renders of one template and as records of one '
                'dtml-in mapping; file-based template; histories whose renders use every calling convention (client None / object / '
                'tuple of 0..3 objects, mapping dict / None / other mapping object / the namespace of a calling template, which is '
                'taken apart afterwards: exactly the caller\'s layers, old level); templates rendering sub-templates on their own '
                'namespace in every call form against a name-lookup reference; file-based histories incl. rewriting the file against '
                'a string template of the content at the last compilation; renders overlapping cook / munge / pickle / deepcopy of '
                'the same object in another thread at sampled lines (one thread stopped after k lines): result = new template before or after the '
                'operation; 2..4 templates of every kind x encoding x equal or different sources side by side over one history with '
                'byte strings of several codecs in the namespace, against a plain-Python reference of the text/bytes joining rule; '
                'histories on one object over exception classes that share a __name__ but differ in their bases (try / except naming '
                'base classes, nested, default, else) against a reference of the handler rule; templates with 1..4 var modifiers / '
                'multi-key sorts / let / try pickled here and rendered in child interpreters with other string hash seeds against a '
                'reference of the modifier table order or the result here; '
                'dtml-in (by name / expr / expr="d.items()", sort / reverse / batch / prefix / else / nested) over long-lived '
                'containers of every iterable kind (list, tuple, deque, custom sequence, dict, set, frozenset, iterable-only and '
                'mapping-like objects, kept dict views, one-shot iterators and generators, rendered again when run dry) that the '
                'application changes in place or replaces between the renderings of 2..3 templates, and over short-lived objects '
                'made for one call (dict views, generators, iterators, equal copies, new containers) against a reference interpreter '
                'on an equal twin application + a template constructed now; containers compared with the twin after every rendering; '
                'non-trivial = distinct (kind, class, operation sequence), idiom templates, sub-template programs, sets of dtml-in templates, '
                '(source, operation) pairs of overlapping cases'
                % len(SOURCES))
    if tier == 'quick':
        check(res, r, 700, 8, have_driver, streaks=8, idioms=300, calls=200, files=150, overlaps=60, encs=500, xfams=400, procs=150,
              proc_seeds=(1, 2, 3, 4, 1234), iters=400)
    else:
        check(res, r, 8000, 14, have_driver, streaks=60, idioms=3000, calls=3000, files=3000, overlaps=150, tier='thorough', encs=8000,
              xfams=6000, procs=1500, proc_seeds=(1, 2, 3, 4, 5, 6, 7, 11, 42, 1234, 99999, 'random'), iters=8000)
    res.assumptions += ['compiling and rendering a compiled program are parameters of the state-machine model (Engine.parse / '
                        'Engine.exec); that rendering a compiled program is a function of (program, defaults, variables, inputs) '
                        'only — i.e. that compiled tags keep no per-render state that a later render reads — is what the oracle '
                        'tests (history vs new template, with namespaces that bind different sets of names) and what C18\'s '
                        'shared-write monitor lists']
    res.partial.append('purity of Engine.exec (no state kept on compiled tags between renders) is checked by the oracle, not proved')
    res.partial.append('the state machine model has atomic operations: that a render overlapping cook / munge / pickle / deepcopy in '
                       'another thread sees the state before or after the operation is explored by the line scheduler (sampled '
                       'lines), not proved; C18 holds the interleaving model')


def search_more(res, tier):
    r = common.rng('C17-more')
    res2 = common.Result('C17')
    check(res2, r, 2500, 12, False, streaks=20, idioms=1000, calls=800, files=600, overlaps=40, encs=1500, xfams=1500, procs=300,
          proc_seeds=(5, 6, 7, 11, 42), iters=1500)
    return res2.oracle_fail


def replay(path):
    with open(path) as f:
        d = json.load(f)
    print(json.dumps(d.get('first', d), indent=1, ensure_ascii=False)[:3000])
    return 1
