"""C17 — rendering is repeatable and side-effect free; templates survive persistence.

Histories (length <= 8 quick / 14 thorough) over {render with inputs i, pickle round trip, deepcopy, cook, munge(source),
munge(mapping, **kw), munge(source, mapping, **kw), var(**kw), default(**kw)} on templates that use every tag (dtml-in
with sort_expr / reverse_expr / batches, cached conditions, let, with, try, sub-template, var formats).
Oracle: every render equals the render of a NEW template built through the public API from the same source and defaults
(only the munge / var / default operations replayed); the caller's mapping, sequences and keyword values are deep-equal
before and after every call; defaults unchanged by calls; a pickled template has no compiled data; a file-based template
pickles its file name, not the content.
Inputs of a render are PARTIAL namespaces: every name a source uses (also the ones of the base mapping) is independently bound
or left unbound in each render, bound through keyword / mapping / client attribute / defaults, and bound to values of different
types from one render to the next (VALUES); expressions on optional names occur in every tag that takes one (var, if, elif,
unless, in, let, with, call, raise, return, sort_expr, reverse_expr), batch parameters given by name, var options on polymorphic
values, the `_` idioms, a template that re-enters itself with another namespace, sub-templates that live as long as the
template under test.  Per source there are render-only histories (the same compiled template with changing namespaces); the
template class is HTML or a subclass with pass-through security guards (restricted evaluator).
Extra oracles: (a) results of NEW templates recorded during the run are recomputed at the end in another order (a new template
must not depend on what other templates rendered before: class / module level state); (b) optional-name idioms whose expected
output is computed by a Python reference, rendered over a sequence of namespaces on one template object and as the body of a
dtml-in over the same namespaces as mappings.
Correspondence: the Lean state machine (op "tmpl") vs the real object after every operation: raw, globals, _vars, presence
of compiled data; the model's (program, defaults, variables, inputs) of each call determine the same output.
"""
import copy
import json
import os
import pickle
import re
import sys
import tempfile

import common

SOURCES = [
    'plain <dtml-var a missing="NA"> <dtml-var b missing="NB">',
    '<dtml-in seq sort_expr="keys[k]"><dtml-var name>:<dtml-var rank> </dtml-in>|<dtml-var a missing="">',
    '<dtml-in seq reverse_expr="k"><dtml-var name></dtml-in>/<dtml-in seq size=2 start=k2 orphan=0><dtml-var rank></dtml-in>',
    '<dtml-if a>A<dtml-var a><dtml-elif b>B<dtml-var b><dtml-else>none</dtml-if><dtml-unless k>U</dtml-unless>',
    '<dtml-let x=k y="k + 1"><dtml-var x>,<dtml-var y>,<dtml-with rec><dtml-var name></dtml-with></dtml-let>',
    '<dtml-try><dtml-var expr="seq[k].name"><dtml-except IndexError>IE<dtml-else>ok</dtml-try><dtml-var n fmt="%05d" missing="">',
    '',
    '<dtml-in seq sort="rank" prefix=p><dtml-var p_index><dtml-var name></dtml-in><dtml-in keys><dtml-var sequence-item>;</dtml-in>',
    '<dtml-var sub> <dtml-call expr="log(k)"><dtml-var expr="len(seq)"> <dtml-var a null="NULL" missing="M">',
    '<dtml-in seq sort_expr="keys[k]" reverse_expr="k2 == 2"><dtml-if sequence-start>[</dtml-if><dtml-var name><dtml-if sequence-end>]</dtml-if></dtml-in>',
    # --- expressions on names that a namespace may or may not bind, one per kind of tag that evaluates expressions
    '<dtml-try>Hi <dtml-var expr="u * 2">!<dtml-except NameError>Hi nobody!<dtml-except TypeError>TE</dtml-try>'
    '<dtml-in expr="rows or ()"> <dtml-var sequence-item></dtml-in>',
    '<dtml-if expr="u"><dtml-var u>?<dtml-elif expr="v">V<dtml-var v><dtml-else>none</dtml-if><dtml-unless expr="rows">no rows</dtml-unless>',
    '<dtml-try><dtml-let x="u" y="v"><dtml-var x>/<dtml-var y></dtml-let><dtml-except NameError>NE</dtml-try>'
    '<dtml-let z=v>,<dtml-var z></dtml-let>',
    '<dtml-with expr="rec2"><dtml-var name></dtml-with> <dtml-call expr="log(u)">done',
    'before<dtml-if k><dtml-return expr="v"></dtml-if>after <dtml-var u missing="-">',
    '<dtml-if k><dtml-raise expr="exc">msg <dtml-var u missing=""></dtml-raise></dtml-if>fine<dtml-comment><dtml-var u></dtml-comment>',
    '<dtml-in seq sort_expr="sk" reverse_expr="rv"><dtml-var name></dtml-in>',
    # --- batch parameters given by name
    '<dtml-in seq size=sz orphan=orp overlap=ov start=k2><dtml-var rank><dtml-if sequence-end>|'
    '<dtml-var next-sequence-start-index missing=x></dtml-if></dtml-in>',
    '<dtml-in seq start=k2 end=en><dtml-var name></dtml-in><dtml-in rows previous size=sz start=k2>P'
    '<dtml-var previous-sequence-start-index></dtml-in><dtml-in rows next size=sz start=k2>N<dtml-var next-sequence-start-index></dtml-in>',
    # --- the options of dtml-var on a value whose type changes from render to render
    '<dtml-var v null="NULL" missing="MISS">|<dtml-var v size=4 etc="~" missing="">|<dtml-var v fmt=collection-length missing="">|'
    '<dtml-var v upper html_quote missing="">|<dtml-var v fmt="%s!" missing="">',
    '<dtml-var v thousands_commas missing=""> <dtml-var u capitalize missing=""> <dtml-var u url_quote missing=""> '
    '<dtml-try><dtml-var expr="v" fmt="%r"><dtml-except NameError>nov</dtml-try>&dtml.missing-u;',
    # --- the namespace object in expressions
    '<dtml-if expr="_.has_key(\'u\')"><dtml-var expr="_[\'u\']"><dtml-else>anon</dtml-if> '
    '<dtml-try><dtml-var expr="_.getitem(\'v\', 0)"><dtml-except KeyError>nov</dtml-try>',
    # --- the template renders itself with another namespace while it is being rendered
    '<dtml-try><dtml-var expr="u"><dtml-except NameError>NU</dtml-try>(<dtml-if d><dtml-var expr="me(None, d=0)"></dtml-if>)'
    '<dtml-try><dtml-var expr="v"><dtml-except NameError>NV</dtml-try>',
    # --- one expression evaluated for records with different keys within one render
    '<dtml-in rows mapping><dtml-try><dtml-var expr="x + 1"><dtml-except NameError>-</dtml-try>,'
    '<dtml-if expr="_.has_key(\'y\')">Y<dtml-var y><dtml-else>n</dtml-if>;<dtml-else>no rows</dtml-in>',
    # --- the same expression text in several tags and in a sub-template; callables and cached conditions
    '<dtml-try><dtml-var expr="u"><dtml-except>E1</dtml-try><dtml-var sub2><dtml-try><dtml-var expr="u"><dtml-except>E2</dtml-try>'
    '<dtml-var sub>',
    '<dtml-var f missing="nof"> <dtml-if f>T<dtml-var f><dtml-else>F</dtml-if><dtml-unless f>U</dtml-unless>'
    '<dtml-try><dtml-var expr="f()"><dtml-except>notcallable</dtml-try>',
]
N_OLD_SOURCES = 10
KEYS = ['', 'name', 'rank', 'name/cmp/desc', 'rank,name']
DICT_KEYS = ['a', 'b', 'n', '_p', 'k', 'u', 'v', 'sz', 'd', 'f']
BASE_NAMES = ['seq', 'keys', 'rec', 'sub', 'sub2', 'log']


class Item:
    def __init__(self, name, rank):
        self.name, self.rank = name, rank

    def __repr__(self):
        return 'Item(%r,%r)' % (self.name, self.rank)

    def __eq__(self, o):
        return isinstance(o, Item) and (self.name, self.rank) == (o.name, o.rank)

    def __lt__(self, o):
        return (self.rank, self.name) < (o.rank, o.name)

    __hash__ = None


class Fn:
    """a callable value (name lookups call it); logs"""

    def __init__(self, calls, tag):
        self.calls, self.tag = calls, tag

    def __call__(self):
        self.calls.append('fn ' + self.tag)
        return 'called-' + self.tag

    def __repr__(self):
        return 'Fn(%r)' % self.tag

    def __deepcopy__(self, memo):
        return self


class Client:
    """the `client` argument: values are looked up with getattr"""

    def __init__(self, attrs):
        self.__dict__.update(attrs)

    def __repr__(self):
        return 'Client(%r)' % sorted(self.__dict__.items(), key=lambda e: e[0])


# Values of the optional names.  An input is a pair [name, code]; the code selects the value (so inputs stay the model's
# (String x Int) pairs).  Names without a table are integers (the code itself).  Every call gets new objects.
VALUES = {
    'u': [lambda c: 'alice', lambda c: 'bob', lambda c: '', lambda c: 3, lambda c: None, lambda c: 'x<y'],
    'v': [lambda c: 0, lambda c: 7, lambda c: 1234567, lambda c: 'text <b>', lambda c: '', lambda c: None,
          lambda c: [1, 2, 3], lambda c: 2.5, lambda c: (), lambda c: 'seven'],
    'rows': [lambda c: [1, 2], lambda c: (), lambda c: ['x', 'y', 'z'], lambda c: (3,),
             lambda c: [{'x': 1}, {'y': 2}, {'x': 5, 'y': 6}], lambda c: None, lambda c: [{'y': 0}, {'x': 2}, {}],
             lambda c: [{'x': 1, 'y': 1}, {}]],
    'sz': [lambda c: 1, lambda c: 2, lambda c: 3, lambda c: '2'],
    'en': [lambda c: 2, lambda c: 3, lambda c: 4, lambda c: '3'],
    'orp': [lambda c: 0, lambda c: 1, lambda c: 2],
    'ov': [lambda c: 0, lambda c: 1],
    'd': [lambda c: 0, lambda c: 1],
    'sk': [lambda c: '', lambda c: 'name', lambda c: 'rank', lambda c: 'rank,name'],
    'rv': [lambda c: 0, lambda c: 1],
    'exc': [lambda c: ValueError, lambda c: 'KeyError', lambda c: 'Oops', lambda c: LookupError],
    'rec2': [lambda c: Item('q', 9), lambda c: Item('z', 8), lambda c: {'name': 'dictname'}],
    'f': [lambda c: Fn(c, 'one'), lambda c: 'plain', lambda c: 0, lambda c: Fn(c, 'two'), lambda c: None],
}
INT_NAMES = {'k': (0, len(KEYS) - 1), 'k2': (1, 3), 'a': (0, 4), 'b': (0, 4), 'n': (0, 4)}
OPTIONAL = sorted(VALUES) + ['a', 'b', 'n']


def names_used(src):
    return {n for n in list(VALUES) + list(INT_NAMES) + BASE_NAMES if re.search(r'(?<![\w-])%s(?![\w-])' % n, src)}


USED = [names_used(s) for s in SOURCES]


def decode(name, code, calls):
    tbl = VALUES.get(name)
    if tbl is None:
        return code
    return tbl[code % len(tbl)](calls)


def type_of(name, code):
    return type(decode(name, code, [])).__name__


_classes = {}


def template_classes():
    """HTML, and HTML with pass-through security guards (expressions then run through the restricted evaluator)"""
    if not _classes:
        from DocumentTemplate import HTML

        class GuardedHTML(HTML):
            def guarded_getattr(self, inst, name, *default):
                return getattr(inst, name, *default)

            def guarded_getitem(self, ob, index):
                return ob[index]

        GuardedHTML.__module__ = __name__
        GuardedHTML.__qualname__ = 'GuardedHTML'
        setattr(sys.modules[__name__], 'GuardedHTML', GuardedHTML)      # picklable by reference
        _classes[0] = HTML
        _classes[1] = GuardedHTML
    return _classes


CLASS_NAMES = ['HTML', 'HTML subclass with pass-through guarded_getattr / guarded_getitem']


def new_subs(cls):
    """the sub-templates handed to a template under test; they live as long as it does"""
    return {'sub': cls('(sub <dtml-var k missing="nok"><dtml-try><dtml-var expr="u"><dtml-except NameError>nou</dtml-try>)'),
            'sub2': cls('<dtml-let u=k>[<dtml-var expr="u">]</dtml-let>')}


def base_inputs(calls, subs):
    ns = {'seq': [Item('b', 3), Item('c', 1), Item('a', 2), Item('d', 1)], 'keys': list(KEYS), 'rec': Item('r', 0), 'log': calls.append}
    ns.update(subs)
    return ns


NOT_DATA = ('sub', 'sub2', 'log', 'me')


def gen_dict(r, n=2):
    return [[k, r.randint(0, 4)] for k in r.sample(DICT_KEYS, r.randint(0, n))]


def gen_value(r, name):
    if name in INT_NAMES:
        lo, hi = INT_NAMES[name]
        return r.randint(lo, hi)
    return r.randrange(len(VALUES[name]))


def gen_inputs(r, src=None, p_bind=0.6):
    """a partial namespace for source `src`: [key, code] pairs; key = name (keyword argument), 'm:name' (in the mapping),
    'c:name' (attribute of the client), '-name' (left out of the base mapping)"""
    used = USED[src] if src is not None else set()
    inp = []

    def bind(name):
        c = r.random()
        where = '' if c < 0.7 else ('m:' if c < 0.85 else 'c:')
        inp.append([where + name, gen_value(r, name)])
    for name in ('k', 'k2'):
        if r.random() < 0.9:
            bind(name)
    for name in OPTIONAL:
        if name in used:
            if r.random() < p_bind:
                bind(name)
        elif r.random() < 0.03:
            bind(name)
    for name in BASE_NAMES:
        if name in used and r.random() < 0.07:
            inp.append(['-' + name, 0])
    return inp


NON_RENDER = ('pickle', 'deepcopy', 'cook')


def gen_history(r, maxlen, src):
    ops = []
    for _ in range(r.randint(2, maxlen)):
        c = r.random()
        if c < 0.45:
            ops.append(['render', gen_inputs(r, src)])
        elif c < 0.55:
            ops.append(['pickle'])
        elif c < 0.62:
            ops.append(['deepcopy'])
        elif c < 0.68:
            ops.append(['cook'])
        elif c < 0.78:
            src = r.randrange(len(SOURCES))
            ops.append(['mungeSrc', src])
        elif c < 0.83:
            ops.append(['mungeVars', gen_dict(r), gen_dict(r)])
        elif c < 0.88:
            src = r.randrange(len(SOURCES))
            ops.append(['mungeBoth', src, gen_dict(r), gen_dict(r)])
        elif c < 0.94:
            ops.append(['var', gen_dict(r)])
        else:
            ops.append(['default', gen_dict(r)])
    ops.append(['render', gen_inputs(r, src)])
    return ops


def gen_streak(r, src, length=8):
    """the same compiled template rendered again and again with other partial namespaces (at most one operation that
    recompiles in between)"""
    p = r.choice((0.35, 0.5, 0.7))
    ops = [['render', gen_inputs(r, src, p)] for _ in range(r.randint(5, length))]
    if r.random() < 0.3:
        ops[r.randrange(1, len(ops) - 1)] = [r.choice(NON_RENDER)]
    return ops


ADDR = re.compile(r' (?:at|AT|At) 0[xX][0-9a-fA-F]+')


def canon(v):
    return ADDR.sub('', repr(v))


def apply_persistent(t, op):
    """the operations that define 'same source and defaults'"""
    k = op[0]
    if k == 'mungeSrc':
        t.munge(SOURCES[op[1]])
    elif k == 'mungeVars':
        t.munge(None, dict(op[1]), **dict(op[2]))
    elif k == 'mungeBoth':
        t.munge(SOURCES[op[1]], dict(op[2]), **dict(op[3]))
    elif k == 'var':
        t.var(**dict(op[1]))
    elif k == 'default':
        t.default(**dict(op[1]))


def call(t, inputs, subs=None):
    """one call t(client, mapping, **kw) with the namespace that `inputs` describes; returns the outcome, the call log and
    what the call changed in the caller's data"""
    calls = []
    if subs is None:
        subs = new_subs(type(t))
    ns = base_inputs(calls, subs)
    ns['me'] = t
    kw, attrs = {}, {}
    for key, code in inputs:
        if key.startswith('-'):
            ns.pop(key[1:], None)
        elif key.startswith('m:'):
            ns[key[2:]] = decode(key[2:], code, calls)
        elif key.startswith('c:'):
            attrs[key[2:]] = decode(key[2:], code, calls)
        else:
            kw[key] = decode(key, code, calls)
    client = Client(attrs) if attrs else None
    snap_ns = canon(copy.deepcopy({k: v for k, v in ns.items() if k not in NOT_DATA}))
    snap_kw = canon(copy.deepcopy(kw))
    snap_client = canon(copy.deepcopy(attrs))
    names_ns, names_kw = sorted(ns), sorted(kw)
    try:
        out = {'ok': t(client, ns, **kw)}
    except Exception as e:  # noqa
        out = {'raise': '%s: %s' % (type(e).__name__, ADDR.sub('', str(e))[:120])}
    changed = []
    if canon({k: v for k, v in ns.items() if k not in NOT_DATA}) != snap_ns or sorted(ns) != names_ns:
        changed.append('the call mapping / its sequences were modified')
    if canon(kw) != snap_kw or sorted(kw) != names_kw:
        changed.append('the keyword values were modified')
    if client is not None and canon(client.__dict__) != snap_client:
        changed.append('the client object was modified')
    return out, calls, changed


def same(a, b):
    """outcomes and call logs equal (values returned by dtml-return may be any object)"""
    return a == b and canon(a) == canon(b)


def bound_names(inputs):
    b = {}
    for key, code in inputs:
        if not key.startswith('-'):
            name = key.split(':')[-1]
            b[name] = type_of(name, code)
    return b


def run_history(init, ops, model_states, res, cls_idx=0, fresh_log=None):
    """returns list of problems (oracle), list of mismatches (correspondence)"""
    HTML = template_classes()[cls_idx]
    oracle, corr = [], []
    s0, m0, kw0 = init
    t = HTML(SOURCES[s0], dict(m0), **dict(kw0))
    subs = new_subs(HTML)
    # what "the same source and defaults" are, by the documented meaning of munge / var / default
    cur = {'src': s0, 'm': m0, 'kw': kw0, 'later': []}
    prev = None           # names bound by the previous render of the same compiled program
    for idx, op in enumerate(ops):
        k = op[0]
        g_before = copy.deepcopy(t.globals)
        if k == 'render':
            out, calls, changed = call(t, op[1], subs)
            for c in changed:
                oracle.append('op %d: %s' % (idx, c))
            if t.globals != g_before or canon(t.globals) != canon(g_before):
                oracle.append('op %d: rendering modified the template\'s defaults' % idx)
            # a NEW template from the same source and defaults
            f = HTML(SOURCES[cur['src']], dict(cur['m']), **dict(cur['kw']))
            for po in cur['later']:
                apply_persistent(f, po)
            fout, fcalls, _ = call(f, op[1])
            if fresh_log is not None:
                fresh_log.append((cls_idx, cur['src'], cur['m'], cur['kw'], list(cur['later']), op[1], (fout, fcalls)))
            if not same((out, calls), (fout, fcalls)):
                oracle.append('op %d: render gives %r (calls %r) but a new template built from the same source and defaults '
                              'gives %r (calls %r)' % (idx, out, calls, fout, fcalls))
            # twice in a row with equal inputs
            out2, calls2, _ = call(t, op[1], subs)
            if not same((out2, calls2), (out, calls)):
                oracle.append('op %d: two renders with equal inputs differ: %r vs %r' % (idx, out, out2))
            now = bound_names(op[1])
            if prev is not None:
                res.count('render after a render of the same compiled template')
                if set(prev) - set(now):
                    res.count('... a name bound before is now unbound')
                if set(now) - set(prev):
                    res.count('... a name unbound before is now bound')
                if any(prev[n_] != now[n_] for n_ in now if n_ in prev):
                    res.count('... a name is bound to a value of another type')
            prev = now
            res.count('outcome=' + ('ok' if 'ok' in out else out['raise'].split(':')[0]))
        elif k == 'pickle':
            data = pickle.dumps(t)
            t = pickle.loads(data)
            if any(a.startswith('_v_') for a in t.__dict__):
                oracle.append('op %d: pickled state contains compiled data %r' % (idx, [a for a in t.__dict__ if a.startswith('_v_')]))
        elif k == 'deepcopy':
            t = copy.deepcopy(t)
        elif k == 'cook':
            t.cook()
        else:
            apply_persistent(t, op)
            if k == 'mungeSrc':
                cur['src'] = op[1]
            elif k == 'mungeVars':
                cur['m'], cur['kw'], cur['later'] = op[1], op[2], []
            elif k == 'mungeBoth':
                cur['src'], cur['m'], cur['kw'], cur['later'] = op[1], op[2], op[3], []
            else:
                cur['later'].append(op)
        if k in NON_RENDER or k.startswith('munge'):
            prev = None
        # correspondence with the model's state after this op
        if model_states is not None:
            m = model_states[idx]
            real = {'raw': SOURCES.index(t.raw) if t.raw in SOURCES else -1,
                    'globals': sorted([k_, v] for k_, v in t.globals.items()),
                    'vars': sorted([k_, v] for k_, v in t._vars.items()),
                    'cooked': hasattr(t, '_v_cooked')}
            mod = {'raw': m['raw'], 'globals': sorted(m['globals']), 'vars': sorted(m['vars']), 'cooked': m['cooked'] is not None}
            if real != mod:
                corr.append({'op': idx, 'impl': real, 'model': mod})
            elif k == 'render' and m['out'] is not None:
                # the model says what the call depends on: program p, defaults g, variables v, inputs i
                p, g, v, i = m['out']
                f = HTML(SOURCES[p])
                f.globals = dict(g)
                f._vars = dict(v)
                fout, fcalls, _ = call(f, i)
                if not same((fout, fcalls), (out, calls)):
                    corr.append({'op': idx, 'impl': out, 'model': fout, 'what': 'render(parse(source %d), defaults, vars, inputs)' % p})
    return oracle, corr


def recheck_fresh(res, fresh_log, r, cap):
    """results of NEW templates must not depend on when they are computed (what OTHER templates rendered before): recompute a
    sample of the recorded ones, in another order"""
    sample = fresh_log if len(fresh_log) <= cap else r.sample(fresh_log, cap)
    for cls_idx, src, m, kw, later, inputs, then in reversed(sample):
        HTML = template_classes()[cls_idx]
        f = HTML(SOURCES[src], dict(m), **dict(kw))
        for po in later:
            apply_persistent(f, po)
        fout, fcalls, _ = call(f, inputs)
        res.evaluations += 1
        res.count('new template recomputed later')
        if not same((fout, fcalls), then):
            res.oracle_fail.append({'case': {'class': CLASS_NAMES[cls_idx], 'source': SOURCES[src], 'mapping': m, 'kw': kw,
                                             'then': later, 'inputs': inputs},
                                    'what': 'a new template built from this source and these defaults gave %r when it was first '
                                            'computed and gives %r after other templates have been rendered' % (then, (fout, fcalls))})


# ---------------------------------------------------------------------------------------------------------------------
# optional-name idioms with a reference written in Python

def _i_try_var(x):
    return ('<dtml-try><dtml-var expr="%s + 1"><dtml-except NameError>-</dtml-try>' % x,
            lambda ns, log: str(ns[x] + 1) if x in ns else '-')


def _i_has_key(x):
    return ('<dtml-if expr="_.has_key(\'%s\')">Y<dtml-var %s><dtml-else>n</dtml-if>' % (x, x),
            lambda ns, log: 'Y%d' % ns[x] if x in ns else 'n')


def _i_missing(x):
    return ('<dtml-var %s missing="M">' % x, lambda ns, log: str(ns[x]) if x in ns else 'M')


def _i_if(x):
    return ('<dtml-if %s>T<dtml-else>F</dtml-if>' % x, lambda ns, log: 'T' if ns.get(x) else 'F')


def _i_unless(x):
    return ('<dtml-unless %s>U</dtml-unless>' % x, lambda ns, log: '' if ns.get(x) else 'U')


def _i_if_expr(x):
    return ('<dtml-try><dtml-if expr="%s > 1">big<dtml-elif expr="%s">one<dtml-else>zero</dtml-if><dtml-except NameError>-</dtml-try>' % (x, x),
            lambda ns, log: '-' if x not in ns else ('big' if ns[x] > 1 else ('one' if ns[x] else 'zero')))


def _i_let(x):
    return ('<dtml-try><dtml-let z="%s * 2"><dtml-var z></dtml-let><dtml-except NameError>-</dtml-try>' % x,
            lambda ns, log: str(ns[x] * 2) if x in ns else '-')


def _i_in(x):
    return ('<dtml-try><dtml-in expr="(%s, %s)"><dtml-var sequence-item></dtml-in><dtml-except NameError>-</dtml-try>' % (x, x),
            lambda ns, log: '%d%d' % (ns[x], ns[x]) if x in ns else '-')


def _i_call(x):
    def ref(ns, log):
        if x in ns:
            log.append(ns[x])
            return ''
        return '-'
    return ('<dtml-try><dtml-call expr="log(%s)"><dtml-except NameError>-</dtml-try>' % x, ref)


def _i_with(x):
    return ('<dtml-try><dtml-with expr="{\'w\': %s}" mapping><dtml-var w></dtml-with><dtml-except NameError>-</dtml-try>' % x,
            lambda ns, log: str(ns[x]) if x in ns else '-')


def _i_unless_expr(x):
    return ('<dtml-try><dtml-unless expr="%s">U</dtml-unless><dtml-except NameError>-</dtml-try>' % x,
            lambda ns, log: '-' if x not in ns else ('' if ns[x] else 'U'))


def _i_two(x, y='r'):
    # an expression on two names, the second one only needed when the first is false
    return ('<dtml-try><dtml-var expr="%s or %s"><dtml-except NameError>-</dtml-try>' % (x, y),
            lambda ns, log: '-' if x not in ns else (str(ns[x]) if ns[x] else (str(ns[y]) if y in ns else '-')))


IDIOMS = [_i_try_var, _i_has_key, _i_missing, _i_if, _i_unless, _i_if_expr, _i_let, _i_in, _i_call, _i_with, _i_unless_expr, _i_two]
IDIOM_NAMES = ['p', 'q', 'r']


def idiom_check(res, r, n):
    classes = template_classes()
    for case in range(n):
        parts = [r.choice(IDIOMS)(r.choice(IDIOM_NAMES)) for _ in range(r.randint(1, 4))]
        body = '|'.join(p[0] for p in parts)
        nss = [{x: r.randint(0, 3) for x in IDIOM_NAMES if r.random() < 0.5} for _ in range(r.randint(3, 6))]
        cls_idx = case % 2
        res.evaluations += 1
        res.count('idiom templates')
        res.nt(('idiom', body))

        def expect(ns, log):
            return '|'.join(p[1](ns, log) for p in parts)
        # (1) the same template object, one namespace after the other
        t = classes[cls_idx](body)
        for j, ns in enumerate(nss):
            want_log, got_log = [], []
            want = expect(ns, want_log)
            try:
                got = t(None, {'log': got_log.append}, **dict(ns))
            except Exception as e:  # noqa
                got = '%s: %s' % (type(e).__name__, e)
            if (got, got_log) != (want, want_log):
                res.oracle_fail.append({'case': {'class': CLASS_NAMES[cls_idx], 'source': body, 'renders with keyword arguments': nss[:j + 1]},
                                        'what': 'render %d gives %r (log(...) calls %r); by the meaning of the tags it is %r (calls %r)'
                                                % (j, got, got_log, want, want_log)})
                break
        # (2) the namespaces as the records of one dtml-in ... mapping
        src = '<dtml-in rows mapping>%s;</dtml-in>' % body
        want_log, got_log = [], []
        want = ''.join(expect(ns, want_log) + ';' for ns in nss)
        try:
            got = classes[cls_idx](src)(None, {'log': got_log.append}, rows=[dict(ns) for ns in nss])
        except Exception as e:  # noqa
            got = '%s: %s' % (type(e).__name__, e)
        if (got, got_log) != (want, want_log):
            res.oracle_fail.append({'case': {'class': CLASS_NAMES[cls_idx], 'source': src, 'rows': nss},
                                    'what': 'the loop gives %r (log(...) calls %r); by the meaning of the tags it is %r (calls %r)'
                                            % (got, got_log, want, want_log)})


def file_template_check(res):
    from DocumentTemplate import HTMLFile
    d = tempfile.mkdtemp(prefix='c17_')
    try:
        path = os.path.join(d, 't.dtml')
        with open(path, 'w') as f:
            f.write('CONTENT-ONE <dtml-var a>')
        t = HTMLFile(path, a=1)
        out1 = t()
        data = pickle.dumps(t)
        res.evaluations += 1
        if b'CONTENT-ONE' in data:
            res.oracle_fail.append({'case': {'file': 'HTMLFile'}, 'what': 'the pickle of a file-based template contains the file content'})
        if path.encode() not in data:
            res.oracle_fail.append({'case': {'file': 'HTMLFile'}, 'what': 'the pickle of a file-based template does not contain the file name'})
        with open(path, 'w') as f:
            f.write('CONTENT-TWO <dtml-var a>')
        t2 = pickle.loads(data)
        out2 = t2()
        if out1 != 'CONTENT-ONE 1' or out2 != 'CONTENT-TWO 1':
            res.oracle_fail.append({'case': {'file': 'HTMLFile'}, 'what': 'file-based template rendered %r then, restored, %r' % (out1, out2)})
        t3 = copy.deepcopy(t)
        if t3() != 'CONTENT-TWO 1':
            res.oracle_fail.append({'case': {'file': 'HTMLFile'}, 'what': 'deep copy of a file-based template rendered %r' % (t3(),)})
    finally:
        for fn in os.listdir(d):
            os.unlink(os.path.join(d, fn))
        os.rmdir(d)


def show_case(init, ops, cls_idx):
    return {'class': CLASS_NAMES[cls_idx], 'init': [SOURCES[init[0]], init[1], init[2]],
            'ops': [[o[0]] + [SOURCES[x] if (o[0] in ('mungeSrc', 'mungeBoth') and j == 0) else x for j, x in enumerate(o[1:])] for o in ops],
            'inputs': "[key, code]: key = name (keyword argument) | 'm:name' (in the mapping) | 'c:name' (client attribute) | "
                      "'-name' (left out of the base mapping); code = index into props.c17.VALUES[name], or the integer itself"}


def check(res, r, n, maxlen, have_driver, streaks=0, idioms=0):
    hist = []
    for j in range(n):
        init = [r.randrange(len(SOURCES)), gen_dict(r), gen_dict(r)]
        hist.append((init, gen_history(r, maxlen, init[0]), j % 3 == 2, 'random'))
    for rep in range(streaks):
        for src in range(len(SOURCES)):
            if SOURCES[src] == '':
                continue
            init = [src, gen_dict(r, 1) if r.random() < 0.4 else [], gen_dict(r, 1) if r.random() < 0.4 else []]
            hist.append((init, gen_streak(r, src, min(maxlen, 8)), (rep + src) % 2 == 1, 'streak'))
    states = [None] * len(hist)
    if have_driver:
        resp = common.run_driver([{'op': 'tmpl', 'init': init, 'ops': ops} for init, ops, _, _ in hist])
        states = []
        for rp in resp:
            if 'ok' not in rp:
                res.harness_errors.append('driver: %r' % (rp,))
                return
            states.append(rp['ok'])
    fresh_log = []
    for (init, ops, guarded, kind), ms in zip(hist, states):
        res.evaluations += 1
        cls_idx = 1 if guarded else 0
        oracle, corr = run_history(init, ops, ms, res, cls_idx, fresh_log)
        res.nt((init[0] if kind == 'streak' else -1, cls_idx) + tuple(o[0] for o in ops))
        res.count('history=' + kind)
        res.count('class=' + ('guarded' if guarded else 'HTML'))
        for o in ops:
            res.count('op=' + o[0])
            if o[0] == 'render':
                for key, _ in o[1]:
                    res.count('binding=' + ('keyword' if ':' not in key and key[0] != '-' else
                                            {'m': 'mapping', 'c': 'client', '-': 'base name left out'}[key[0]]))
        for w in oracle:
            res.oracle_fail.append({'case': show_case(init, ops, cls_idx), 'what': w})
        if ms is not None:
            res.corr_checked += len(ops)
            for c in corr:
                res.corr_mismatch.append({'case': {'init': init, 'ops': ops, 'class': cls_idx}, 'impl': c.get('impl'), 'model': c.get('model'),
                                          'diff': 'after op %d %s' % (c['op'], c.get('what', 'object state'))})
    recheck_fresh(res, fresh_log, r, 600 if streaks else 300)
    if idioms:
        idiom_check(res, r, idioms)
    file_template_check(res)


def run(res, tier, have_driver):
    r = common.rng('C17')
    res.rule = ('random histories over render / pickle / deepcopy / cook / munge(source) / munge(mapping, **kw) / munge(both) / var / '
                'default on %d sources (all tags; sort_expr and reverse_expr depending on the inputs; the empty source; expressions '
                'on optional names in var / if / elif / unless / in / let / with / call / raise / return / sort_expr / reverse_expr; '
                'batch parameters by name; var options on values of changing type; `_` idioms; self re-entrance; records with '
                'different keys; repeated expression texts incl. long-lived sub-templates; callables), plus render-only histories '
                'per source (same compiled template, changing namespaces); inputs are PARTIAL namespaces: each used name '
                'independently bound / unbound per render, through keyword, mapping, client attribute or defaults, base names left '
                'out, values of several types; template class HTML or HTML with pass-through guards (restricted evaluator); every '
                'render compared with a new template built through the public API from the same source and defaults, and repeated; '
                'caller data (mapping, keywords, client) deep-compared; results of new templates recomputed later in another order; '
                'optional-name idioms against a Python reference, as consecutive renders of one template and as records of one '
                'dtml-in mapping; file-based template; non-trivial = distinct (kind, class, operation sequence) and idiom templates'
                % len(SOURCES))
    if tier == 'quick':
        check(res, r, 700, 8, have_driver, streaks=8, idioms=300)
    else:
        check(res, r, 8000, 14, have_driver, streaks=60, idioms=3000)
    res.assumptions += ['compiling and rendering a compiled program are parameters of the state-machine model (Engine.parse / '
                        'Engine.exec); that rendering a compiled program is a function of (program, defaults, variables, inputs) '
                        'only — i.e. that compiled tags keep no per-render state that a later render reads — is what the oracle '
                        'tests (history vs new template, with namespaces that bind different sets of names) and what C18\'s '
                        'shared-write monitor lists']
    res.partial.append('purity of Engine.exec (no state kept on compiled tags between renders) is checked by the oracle, not proved')


def search_more(res, tier):
    r = common.rng('C17-more')
    res2 = common.Result('C17')
    check(res2, r, 2500, 12, False, streaks=20, idioms=1000)
    return res2.oracle_fail


def replay(path):
    with open(path) as f:
        d = json.load(f)
    print(json.dumps(d.get('first', d), indent=1, ensure_ascii=False)[:3000])
    return 1
