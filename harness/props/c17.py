"""C17 — rendering is repeatable and side-effect free; templates survive persistence.

Histories (length <= 8 quick / 14 thorough) over {render with inputs i, pickle round trip, deepcopy, cook, munge(source),
munge(mapping, **kw), munge(source, mapping, **kw), var(**kw), default(**kw)} on templates that use every tag (dtml-in
with sort_expr / reverse_expr / batches, cached conditions, let, with, try, sub-template, var formats).
Oracle: every render equals the render of a NEW template built through the public API from the same source and defaults
(only the munge / var / default operations replayed); the caller's mapping, sequences and keyword values are deep-equal
before and after every call; defaults unchanged by calls; a pickled template has no compiled data; a file-based template
pickles its file name, not the content.
Correspondence: the Lean state machine (op "tmpl") vs the real object after every operation: raw, globals, _vars, presence
of compiled data; the model's (program, defaults, variables, inputs) of each call determine the same output.
"""
import copy
import json
import os
import pickle
import tempfile

import common

SOURCES = [
    'plain <dtml-var a missing="NA"> <dtml-var b missing="NB">',
    '<dtml-in seq sort_expr="keys[k]"><dtml-var name>:<dtml-var rank> </dtml-in>|<dtml-var a missing="">',
    '<dtml-in seq reverse_expr="k"><dtml-var name></dtml-in>/<dtml-in seq size=2 start=k2 orphan=0><dtml-var rank></dtml-in>',
    '<dtml-if a>A<dtml-var a><dtml-elif b>B<dtml-var b><dtml-else>none</dtml-if><dtml-unless k>U</dtml-unless>',
    '<dtml-let x=k y="k + 1"><dtml-var x>,<dtml-var y>,<dtml-with rec><dtml-var name></dtml-with></dtml-let>',
    '<dtml-try><dtml-var expr="seq[k].name"><dtml-except IndexError>IE<dtml-else>ok</dtml-try><dtml-var n fmt="%05d" missing="">',
    '',
    '<dtml-in seq sort="rank" prefix=p><dtml-var p_index><dtml-var name></dtml-in><dtml-in keys><dtml-var sequence-item>;</dtml-in>',
    '<dtml-var sub> <dtml-call expr="log(k)"><dtml-var expr="len(seq)"> <dtml-var a null="NULL" missing="M">',
    '<dtml-in seq sort_expr="keys[k]" reverse_expr="k2 == 2"><dtml-if sequence-start>[</dtml-if><dtml-var name><dtml-if sequence-end>]</dtml-if></dtml-in>',
]
KEYS = ['', 'name', 'rank', 'name/cmp/desc', 'rank,name']
DICT_KEYS = ['a', 'b', 'n', '_p', 'k']


class Item:
    def __init__(self, name, rank):
        self.name, self.rank = name, rank

    def __repr__(self):
        return 'Item(%r,%r)' % (self.name, self.rank)

    def __eq__(self, o):
        return isinstance(o, Item) and (self.name, self.rank) == (o.name, o.rank)

    def __lt__(self, o):
        return (self.rank, self.name) < (o.rank, o.name)

    __hash__ = None


def base_inputs(calls):
    from DocumentTemplate import HTML
    return {'seq': [Item('b', 3), Item('c', 1), Item('a', 2), Item('d', 1)], 'keys': list(KEYS), 'rec': Item('r', 0),
            'sub': HTML('(sub <dtml-var k>)'), 'log': calls.append}


def gen_dict(r, n=2):
    return [[k, r.randint(0, 4)] for k in r.sample(DICT_KEYS, r.randint(0, n))]


def gen_inputs(r):
    return [['k', r.randint(0, len(KEYS) - 1)], ['k2', r.randint(1, 3)]] + [[k, v] for k, v in gen_dict(r, 1) if k not in ('k', '_p')]


def gen_history(r, maxlen):
    ops = []
    for _ in range(r.randint(2, maxlen)):
        c = r.random()
        if c < 0.45:
            ops.append(['render', gen_inputs(r)])
        elif c < 0.55:
            ops.append(['pickle'])
        elif c < 0.62:
            ops.append(['deepcopy'])
        elif c < 0.68:
            ops.append(['cook'])
        elif c < 0.78:
            ops.append(['mungeSrc', r.randrange(len(SOURCES))])
        elif c < 0.83:
            ops.append(['mungeVars', gen_dict(r), gen_dict(r)])
        elif c < 0.88:
            ops.append(['mungeBoth', r.randrange(len(SOURCES)), gen_dict(r), gen_dict(r)])
        elif c < 0.94:
            ops.append(['var', gen_dict(r)])
        else:
            ops.append(['default', gen_dict(r)])
    ops.append(['render', gen_inputs(r)])
    return ops


def canon(v):
    return repr(v)


def apply_persistent(t, op):
    """the operations that define 'same source and defaults'"""
    k = op[0]
    if k == 'mungeSrc':
        t.munge(SOURCES[op[1]])
    elif k == 'mungeVars':
        t.munge(None, dict(op[1]), **dict(op[2]))
    elif k == 'mungeBoth':
        t.munge(SOURCES[op[1]], dict(op[2]), **dict(op[3]))
    elif k == 'var':
        t.var(**dict(op[1]))
    elif k == 'default':
        t.default(**dict(op[1]))


def call(t, inputs):
    calls = []
    ns = base_inputs(calls)
    kw = dict(inputs)
    snap_ns = copy.deepcopy({k: v for k, v in ns.items() if k not in ('sub', 'log')})
    snap_kw = copy.deepcopy(kw)
    try:
        out = {'ok': t(None, ns, **kw)}
    except Exception as e:  # noqa
        out = {'raise': '%s: %s' % (type(e).__name__, str(e)[:120])}
    changed = []
    if canon({k: v for k, v in ns.items() if k not in ('sub', 'log')}) != canon(snap_ns):
        changed.append('the call mapping / its sequences were modified')
    if canon(kw) != canon(snap_kw):
        changed.append('the keyword values were modified')
    return out, calls, changed


def run_history(init, ops, model_states, res):
    """returns list of problems (oracle), list of mismatches (correspondence)"""
    from DocumentTemplate import HTML
    oracle, corr = [], []
    s0, m0, kw0 = init
    t = HTML(SOURCES[s0], dict(m0), **dict(kw0))
    # what "the same source and defaults" are, by the documented meaning of munge / var / default
    cur = {'src': s0, 'm': m0, 'kw': kw0, 'later': []}
    for idx, op in enumerate(ops):
        k = op[0]
        g_before = copy.deepcopy(t.globals)
        if k == 'render':
            out, calls, changed = call(t, op[1])
            for c in changed:
                oracle.append('op %d: %s' % (idx, c))
            if t.globals != g_before:
                oracle.append('op %d: rendering modified the template\'s defaults' % idx)
            # a NEW template from the same source and defaults
            f = HTML(SOURCES[cur['src']], dict(cur['m']), **dict(cur['kw']))
            for po in cur['later']:
                apply_persistent(f, po)
            fout, fcalls, _ = call(f, op[1])
            if (out, calls) != (fout, fcalls):
                oracle.append('op %d: render gives %r (calls %r) but a new template built from the same source and defaults '
                              'gives %r (calls %r)' % (idx, out, calls, fout, fcalls))
            # twice in a row with equal inputs
            out2, calls2, _ = call(t, op[1])
            if (out2, calls2) != (out, calls):
                oracle.append('op %d: two renders with equal inputs differ: %r vs %r' % (idx, out, out2))
        elif k == 'pickle':
            data = pickle.dumps(t)
            t = pickle.loads(data)
            if any(a.startswith('_v_') for a in t.__dict__):
                oracle.append('op %d: pickled state contains compiled data %r' % (idx, [a for a in t.__dict__ if a.startswith('_v_')]))
        elif k == 'deepcopy':
            t = copy.deepcopy(t)
        elif k == 'cook':
            t.cook()
        else:
            apply_persistent(t, op)
            if k == 'mungeSrc':
                cur['src'] = op[1]
            elif k == 'mungeVars':
                cur['m'], cur['kw'], cur['later'] = op[1], op[2], []
            elif k == 'mungeBoth':
                cur['src'], cur['m'], cur['kw'], cur['later'] = op[1], op[2], op[3], []
            else:
                cur['later'].append(op)
        # correspondence with the model's state after this op
        if model_states is not None:
            m = model_states[idx]
            real = {'raw': SOURCES.index(t.raw) if t.raw in SOURCES else -1,
                    'globals': sorted([k_, v] for k_, v in t.globals.items()),
                    'vars': sorted([k_, v] for k_, v in t._vars.items()),
                    'cooked': hasattr(t, '_v_cooked')}
            mod = {'raw': m['raw'], 'globals': sorted(m['globals']), 'vars': sorted(m['vars']), 'cooked': m['cooked'] is not None}
            if real != mod:
                corr.append({'op': idx, 'impl': real, 'model': mod})
            elif k == 'render' and m['out'] is not None:
                # the model says what the call depends on: program p, defaults g, variables v, inputs i
                p, g, v, i = m['out']
                f = HTML(SOURCES[p])
                f.globals = dict(g)
                f._vars = dict(v)
                fout, fcalls, _ = call(f, i)
                if (fout, fcalls) != (out, calls):
                    corr.append({'op': idx, 'impl': out, 'model': fout, 'what': 'render(parse(source %d), defaults, vars, inputs)' % p})
    return oracle, corr


def file_template_check(res):
    from DocumentTemplate import HTMLFile
    d = tempfile.mkdtemp(prefix='c17_')
    try:
        path = os.path.join(d, 't.dtml')
        with open(path, 'w') as f:
            f.write('CONTENT-ONE <dtml-var a>')
        t = HTMLFile(path, a=1)
        out1 = t()
        data = pickle.dumps(t)
        res.evaluations += 1
        if b'CONTENT-ONE' in data:
            res.oracle_fail.append({'case': {'file': 'HTMLFile'}, 'what': 'the pickle of a file-based template contains the file content'})
        if path.encode() not in data:
            res.oracle_fail.append({'case': {'file': 'HTMLFile'}, 'what': 'the pickle of a file-based template does not contain the file name'})
        with open(path, 'w') as f:
            f.write('CONTENT-TWO <dtml-var a>')
        t2 = pickle.loads(data)
        out2 = t2()
        if out1 != 'CONTENT-ONE 1' or out2 != 'CONTENT-TWO 1':
            res.oracle_fail.append({'case': {'file': 'HTMLFile'}, 'what': 'file-based template rendered %r then, restored, %r' % (out1, out2)})
        t3 = copy.deepcopy(t)
        if t3() != 'CONTENT-TWO 1':
            res.oracle_fail.append({'case': {'file': 'HTMLFile'}, 'what': 'deep copy of a file-based template rendered %r' % (t3(),)})
    finally:
        for fn in os.listdir(d):
            os.unlink(os.path.join(d, fn))
        os.rmdir(d)


def check(res, r, n, maxlen, have_driver):
    hist = []
    for _ in range(n):
        init = [r.randrange(len(SOURCES)), gen_dict(r), gen_dict(r)]
        hist.append((init, gen_history(r, maxlen)))
    states = [None] * len(hist)
    if have_driver:
        resp = common.run_driver([{'op': 'tmpl', 'init': init, 'ops': ops} for init, ops in hist])
        states = []
        for rp in resp:
            if 'ok' not in rp:
                res.harness_errors.append('driver: %r' % (rp,))
                return
            states.append(rp['ok'])
    for (init, ops), ms in zip(hist, states):
        res.evaluations += 1
        oracle, corr = run_history(init, ops, ms, res)
        res.nt(tuple(o[0] for o in ops))
        for o in ops:
            res.count('op=' + o[0])
        for w in oracle:
            res.oracle_fail.append({'case': {'init': [SOURCES[init[0]], init[1], init[2]],
                                             'ops': [[o[0]] + [SOURCES[x] if (o[0] in ('mungeSrc', 'mungeBoth') and j == 0) else x
                                                               for j, x in enumerate(o[1:])] for o in ops]}, 'what': w})
        if ms is not None:
            res.corr_checked += len(ops)
            for c in corr:
                res.corr_mismatch.append({'case': {'init': init, 'ops': ops}, 'impl': c.get('impl'), 'model': c.get('model'),
                                          'diff': 'after op %d %s' % (c['op'], c.get('what', 'object state'))})
    file_template_check(res)


def run(res, tier, have_driver):
    r = common.rng('C17')
    res.rule = ('random histories over render / pickle / deepcopy / cook / munge(source) / munge(mapping, **kw) / munge(both) / var / '
                'default on 10 sources (all tags; sort_expr and reverse_expr depending on the inputs; the empty source); every render '
                'compared with a new template built through the public API from the same source and defaults, and repeated; '
                'caller data deep-compared; file-based template; non-trivial = distinct operation sequences')
    if tier == 'quick':
        check(res, r, 400, 8, have_driver)
    else:
        check(res, r, 6000, 14, have_driver)
    res.assumptions += ['compiling and rendering a compiled program are parameters of the state-machine model (Engine.parse / '
                        'Engine.exec); that rendering a compiled program is a function of (program, defaults, variables, inputs) '
                        'only — i.e. that compiled tags keep no per-render state that a later render reads — is what the oracle '
                        'tests (history vs new template) and what C18\'s shared-write monitor lists']
    res.partial.append('purity of Engine.exec (no state kept on compiled tags between renders) is checked by the oracle, not proved')


def search_more(res, tier):
    r = common.rng('C17-more')
    res2 = common.Result('C17')
    check(res2, r, 2500, 12, False)
    return res2.oracle_fail


def replay(path):
    with open(path) as f:
        d = json.load(f)
    print(json.dumps(d.get('first', d), indent=1, ensure_ascii=False)[:3000])
    return 1
